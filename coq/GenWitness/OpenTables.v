(** A concrete satisfying valuation for the two-zone witness program [p_OPEN] (GenMain2/Witness2.v,
    76 rows: CA, the ExternalSector, US; CA_HH remits 1.5 to US_HH; US_BUS supplies a tenth of CA's goods
    market) with a NON-UNIT exchange rate: EXT_XR__CA = 6/5 (the program's own exogenous path
    "[1.2]*3 + ..."), EXT_XR__US = 1, government spending 20 / 25, positive opening stocks.  Two consecutive periods
    ([open_v0] opening stocks, [open_v1], [open_v2]) computed exactly (rationals) from the emitted rows
    by agent_reports/GenWitness_solve_open.py.  On it: [sat], [rates_ok2], [no_conflict2], and the
    instantiated conclusions of the per-zone C01 theorem and of the C07 theorem.  Opaque texts are read
    by GenBook's standard arithmetic reading [bv_std]. *)
From Coq Require Import List String Ascii Bool ZArith Arith QArith Reals Qreals Lra.
From SFC.Base Require Import Res Str.
From SFC.Gen Require Import Fx Flows Zone.
From SFC.GenTax Require Import Tax TaxProofs.
From SFC.GenMain2 Require Import Program Classes Main Conflict Balance Witness Program2 Main2 Conflict2 Balance2 Zones Witness2.
From SFC.GenBook Require Import Text Builders Sem Examples.
Import ListNotations.
Local Open Scope string_scope.

Definition R_OPEN : run2 :=
  match build_run2 p_OPEN with Ok r => r | Err _ => mkRun2 (mkI2 [] [] [] None) [] [] [] [] (mkFS [] [] []) end.

Lemma R_OPEN_ok : build_run2 p_OPEN = Ok R_OPEN.
Proof. vm_compute. reflexivity. Qed.

Lemma OPEN_zones : zones_of (j_countries (q_info R_OPEN)) = ["CA"; "NUMERAIRE"; "US"].
Proof. vm_compute. reflexivity. Qed.

Lemma OPEN_ext : j_ext (q_info R_OPEN) <> None.
Proof. vm_compute. discriminate. Qed.

(** no deposit market in the program: the previous-period premise is empty *)
Lemma OPEN_stock_consistent2 vprev bvp : stock_consistent2 R_OPEN vprev bvp.
Proof.
  intros i issuer st st' self Hin. exfalso. revert Hin. set (G := q_gen R_OPEN). vm_compute in G. subst G.
  simpl. intros Hin. repeat (destruct Hin as [Hin|Hin]; [discriminate Hin|]). exact Hin.
Qed.

Definition open_v0 : list (string * Q) :=
  [("CA_GOV__F", ((-60) # 1)); ("CA_HH__F", (45 # 1)); ("CA_BUS__F", (15 # 1)); ("US_GOV__F", ((-70) # 1));
   ("US_HH__F", (70 # 1)); ("US_BUS__F", (0 # 1)); ("EXT_FX__F_CA", (0 # 1)); ("EXT_FX__F_US", (0 # 1));
   ("EXT_FX__F_NUMERAIRE", (0 # 1))].

Definition open_v1 : list (string * Q) :=
  [("CA_GOV__DEM_GOOD", (20 # 1)); ("CA_GOV__F", ((-1715) # 26)); ("CA_GOV__FISC_BAL", ((-155) # 26));
   ("CA_GOV__INC", ((-155) # 26)); ("CA_GOV__LAG_F", ((-60) # 1)); ("CA_GOV__PRIM_BAL", ((-155) # 26));
   ("CA_GOV__T", (365 # 26)); ("CA_HH__AfterTax", (730 # 13)); ("CA_HH__AlphaFin", (2 # 5));
   ("CA_HH__AlphaIncome", (3 # 5)); ("CA_HH__DEM_GOOD", (672 # 13)); ("CA_HH__F", (643 # 13));
   ("CA_HH__INC", (1825 # 26)); ("CA_HH__LAG_F", (45 # 1)); ("CA_HH__REMIT", (3 # 2));
   ("CA_HH__SUP_LAB", (932 # 13)); ("CA_HH__T", (365 # 26)); ("CA_BUS__DEM_LAB", (932 # 13));
   ("CA_BUS__F", (509 # 65)); ("CA_BUS__INC", ((-466) # 65)); ("CA_BUS__LAG_F", (15 # 1));
   ("CA_BUS__PROF", ((-466) # 65)); ("CA_BUS__SUP_GOOD", (4194 # 65)); ("CA_TF__T", (365 # 26));
   ("CA_TF__TaxRate", (1 # 5)); ("CA_LAB__DEM_LAB", (932 # 13)); ("CA_LAB__SUP_CA_HH", (932 # 13));
   ("CA_LAB__SUP_LAB", (932 # 13)); ("CA_GOOD__DEM_GOOD", (932 # 13)); ("CA_GOOD__SUP_CA_BUS", (4194 # 65));
   ("CA_GOOD__SUP_GOOD", (932 # 13)); ("CA_GOOD__SUP_US_BUS", (466 # 65)); ("EXT_XR__CA", (6 # 5));
   ("EXT_XR__CA_US", (6 # 5)); ("EXT_XR__NUMERAIRE", (1 # 1)); ("EXT_XR__US", (1 # 1));
   ("EXT_FX__F_CA", (1127 # 130)); ("EXT_FX__F_NUMERAIRE", (0 # 1)); ("EXT_FX__F_US", ((-3381) # 325));
   ("EXT_FX__LAG_F_CA", (0 # 1)); ("EXT_FX__LAG_F_NUMERAIRE", (0 # 1)); ("EXT_FX__LAG_F_US", (0 # 1));
   ("EXT_FX__NET_CA", (1127 # 130)); ("EXT_FX__NET_NUMERAIRE", (0 # 1)); ("EXT_FX__NET_US", ((-3381) # 325));
   ("US_GOV__DEM_GOOD", (25 # 1)); ("US_GOV__F", ((-970) # 13)); ("US_GOV__FISC_BAL", ((-60) # 13));
   ("US_GOV__INC", ((-60) # 13)); ("US_GOV__LAG_F", ((-70) # 1)); ("US_GOV__PRIM_BAL", ((-60) # 13));
   ("US_GOV__T", (265 # 13)); ("US_HH__AfterTax", (1060 # 13)); ("US_HH__AlphaFin", (2 # 5));
   ("US_HH__AlphaIncome", (3 # 5)); ("US_HH__DEM_GOOD", (1000 # 13)); ("US_HH__F", (4967 # 65));
   ("US_HH__INC", (1325 # 13)); ("US_HH__LAG_F", (70 # 1)); ("US_HH__SUP_LAB", (1325 # 13));
   ("US_HH__T", (265 # 13)); ("US_BUS__DEM_LAB", (1325 # 13)); ("US_BUS__F", (2796 # 325));
   ("US_BUS__INC", (2796 # 325)); ("US_BUS__LAG_F", (0 # 1)); ("US_BUS__PROF", (0 # 1));
   ("US_BUS__SUP_CA_GOOD", (2796 # 325)); ("US_BUS__SUP_GOOD", (1325 # 13)); ("US_TF__T", (265 # 13));
   ("US_TF__TaxRate", (1 # 5)); ("US_LAB__DEM_LAB", (1325 # 13)); ("US_LAB__SUP_LAB", (1325 # 13));
   ("US_LAB__SUP_US_HH", (1325 # 13)); ("US_GOOD__DEM_GOOD", (1325 # 13)); ("US_GOOD__SUP_GOOD", (1325 # 13));
   ("US_GOOD__SUP_US_BUS", (1325 # 13)); ("EXT_XR__US_CA", (5 # 6)); ("EXT_XR__NUMERAIRE_CA", (5 # 6));
   ("EXT_XR__NUMERAIRE_US", (1 # 1))].

Definition open_v2 : list (string * Q) :=
  [("CA_GOV__DEM_GOOD", (20 # 1)); ("CA_GOV__F", ((-12039) # 169)); ("CA_GOV__FISC_BAL", ((-1783) # 338));
   ("CA_GOV__INC", ((-1783) # 338)); ("CA_GOV__LAG_F", ((-1715) # 26)); ("CA_GOV__PRIM_BAL", ((-1783) # 338));
   ("CA_GOV__T", (4977 # 338)); ("CA_HH__AfterTax", (9954 # 169)); ("CA_HH__AlphaFin", (2 # 5));
   ("CA_HH__AlphaIncome", (3 # 5)); ("CA_HH__DEM_GOOD", (9316 # 169)); ("CA_HH__F", (8997 # 169));
   ("CA_HH__INC", (24885 # 338)); ("CA_HH__LAG_F", (643 # 13)); ("CA_HH__REMIT", (3 # 2));
   ("CA_HH__SUP_LAB", (12696 # 169)); ("CA_HH__T", (4977 # 338)); ("CA_BUS__DEM_LAB", (12696 # 169));
   ("CA_BUS__F", (269 # 845)); ("CA_BUS__INC", ((-6348) # 845)); ("CA_BUS__LAG_F", (509 # 65));
   ("CA_BUS__PROF", ((-6348) # 845)); ("CA_BUS__SUP_GOOD", (57132 # 845)); ("CA_TF__T", (4977 # 338));
   ("CA_TF__TaxRate", (1 # 5)); ("CA_LAB__DEM_LAB", (12696 # 169)); ("CA_LAB__SUP_CA_HH", (12696 # 169));
   ("CA_LAB__SUP_LAB", (12696 # 169)); ("CA_GOOD__DEM_GOOD", (12696 # 169)); ("CA_GOOD__SUP_CA_BUS", (57132 # 845));
   ("CA_GOOD__SUP_GOOD", (12696 # 169)); ("CA_GOOD__SUP_US_BUS", (6348 # 845)); ("EXT_XR__CA", (6 # 5));
   ("EXT_XR__CA_US", (6 # 5)); ("EXT_XR__NUMERAIRE", (1 # 1)); ("EXT_XR__US", (1 # 1));
   ("EXT_FX__F_CA", (14941 # 845)); ("EXT_FX__F_NUMERAIRE", (0 # 1)); ("EXT_FX__F_US", ((-89646) # 4225));
   ("EXT_FX__LAG_F_CA", (1127 # 130)); ("EXT_FX__LAG_F_NUMERAIRE", (0 # 1)); ("EXT_FX__LAG_F_US", ((-3381) # 325));
   ("EXT_FX__NET_CA", (15231 # 1690)); ("EXT_FX__NET_NUMERAIRE", (0 # 1)); ("EXT_FX__NET_US", ((-45693) # 4225));
   ("US_GOV__DEM_GOOD", (25 # 1)); ("US_GOV__F", ((-66116) # 845)); ("US_GOV__FISC_BAL", ((-3066) # 845));
   ("US_GOV__INC", ((-3066) # 845)); ("US_GOV__LAG_F", ((-970) # 13)); ("US_GOV__PRIM_BAL", ((-3066) # 845));
   ("US_GOV__T", (18059 # 845)); ("US_HH__AfterTax", (72236 # 845)); ("US_HH__AlphaFin", (2 # 5));
   ("US_HH__AlphaIncome", (3 # 5)); ("US_HH__DEM_GOOD", (13834 # 169)); ("US_HH__F", (69158 # 845));
   ("US_HH__INC", (18059 # 169)); ("US_HH__LAG_F", (4967 # 65)); ("US_HH__SUP_LAB", (18059 # 169));
   ("US_HH__T", (18059 # 845)); ("US_BUS__DEM_LAB", (18059 # 169)); ("US_BUS__F", (74436 # 4225));
   ("US_BUS__INC", (38088 # 4225)); ("US_BUS__LAG_F", (2796 # 325)); ("US_BUS__PROF", (0 # 1));
   ("US_BUS__SUP_CA_GOOD", (38088 # 4225)); ("US_BUS__SUP_GOOD", (18059 # 169)); ("US_TF__T", (18059 # 845));
   ("US_TF__TaxRate", (1 # 5)); ("US_LAB__DEM_LAB", (18059 # 169)); ("US_LAB__SUP_LAB", (18059 # 169));
   ("US_LAB__SUP_US_HH", (18059 # 169)); ("US_GOOD__DEM_GOOD", (18059 # 169)); ("US_GOOD__SUP_GOOD", (18059 # 169));
   ("US_GOOD__SUP_US_BUS", (18059 # 169)); ("EXT_XR__US_CA", (5 # 6)); ("EXT_XR__NUMERAIRE_CA", (5 # 6));
   ("EXT_XR__NUMERAIRE_US", (1 # 1))].


Local Open Scope R_scope.

Lemma OPEN_sat_1 : sat (q_final R_OPEN) (val_of open_v1) (val_of open_v0) (bv_std (val_of open_v1)).
Proof. table_sat. Qed.

Lemma OPEN_sat_2 : sat (q_final R_OPEN) (val_of open_v2) (val_of open_v1) (bv_std (val_of open_v2)).
Proof. table_sat. Qed.
