(** GenWitness: closes the non-vacuity gaps of the independent audit (DESIGN section 11, items M2c and
    L4) for the program-level families built on coq/GenMain2 ([Main.build], [Main2.build2], the
    Gallina models of Model.main(), tied to the Python by harness/gen_main2.py).  No new model.

    1. [Main2_stock_flow_two_periods] (+ [_sem], [_multi]): the multi-currency counterpart of
       PropMain.v's [Main_stock_flow_two_periods] — C01 per currency zone from THREE consecutive
       valuations, without the hypothesis [stock_consistent2].
    2. positive examples with concrete satisfying valuations (rationals; opaque texts read by GenBook's
       arithmetic reading [bv_std]): [Witness_SIM_balance], [Witness_SIM_two_periods] (single currency),
       [Witness_OPEN_fx], [Witness_OPEN_two_periods] (two currency zones, exchange rate 6/5): every
       hypothesis of the C01 / C07 theorems holds on them and the conclusions, obtained by applying the
       theorems, are spelled out; error-side witnesses of the renaming and order theorems
       ([Witness_rename_error], [Witness_rename2_error], [Witness_order_error], [Witness_order2_error])
       and [order_ok] / [order_ok2] of the permuted witness programs ([Witness_order_ok_perm]).
       [Witness_DEP_two_periods] / [Main2_stock_flow_prev_needed_refuted]: a two-zone program with a deposit
       market, where the previous-period premise has content and cannot be dropped.
    NOT here: [order_ok2 p -> admissible_perm2 p p' -> order_ok2 p'] (GenOrder2) is still not proved. *)
From Coq Require Import List String Ascii Bool ZArith Arith QArith Reals Qreals.
From SFC.Base Require Import Res Str.
From SFC.Gen Require Import Fx Flows Zone.
From SFC.GenTax Require Import Tax TaxProofs.
From SFC.GenMain2 Require Import Program Classes Main Conflict Balance Witness Program2 Main2 Conflict2 Balance2 Zones Witness2.
From SFC.GenBook Require Import Text Builders Sem Examples.
From SFC.GenRename Require Import RStr RFix Ren ConsEq MainEq Equivariance Concrete Rename WitnessR
                                  Cons2Eq Main2Eq Equivariance2 Rename2 CaseDefs2 Witness2R.
From SFC.GenOrder Require Import Perm Static2 OrderWitness.
From SFC.GenOrder2 Require Import Perm2 Side2 OrderWitness2.
From SFC.GenPlumb Require Import Split2 Multi.
From SFC.GenWitness Require Import TwoPeriods SimWitness OpenTables OpenWitness DepTables DepWitness ErrWitness.
From Coq Require Import Reals.   (* [R] is the reals again (GenRename/RStr.v defines a renaming function R) *)
Import ListNotations.
Local Open Scope string_scope.

(* ------------------------------------------------------------------ *)
(** * 1. C01 per currency zone from three consecutive valuations *)

(** [v], [vprev], [vpp]: the values of a period, of the one before and of the one before that.  When
    the last two periods both satisfied the emitted system, every real currency zone balances.
    ([stock_consistent2] itself does NOT follow from the previous period's [sat]: it also speaks about
    same-coded sectors of other zones; the proofs only use it inside the deposit market's zone, see
    TwoPeriods.v.) *)
Theorem Main2_stock_flow_two_periods : forall p Rn, build_run2 p = Ok Rn -> no_conflict2 p = true ->
  forall (v vprev vpp : string -> R) (bv bvp : string -> string -> R),
    bv_zero bv -> sat (q_final Rn) v vprev bv -> sat (q_final Rn) vprev vpp bvp ->
    forall c, c <> NUM -> List.In c (zones_of (j_countries (q_info Rn))) ->
      (ledger_sum v (filter (in_zone (j_countries (q_info Rn)) c) (fs_zone (q_final Rn))) + net_value Rn v c = 0)%R.
Proof. exact main2_stock_flow_two_periods. Qed.
Print Assumptions Main2_stock_flow_two_periods.

(** under GenPlumb's semantic side condition only *)
Theorem Main2_stock_flow_two_periods_sem : forall p Rn, build_run2 p = Ok Rn -> sem_ok2 p = true ->
  forall (v vprev vpp : string -> R) (bv bvp : string -> string -> R),
    bv_zero bv -> sat (q_final Rn) v vprev bv -> sat (q_final Rn) vprev vpp bvp ->
    forall c, c <> NUM -> List.In c (zones_of (j_countries (q_info Rn))) ->
      (ledger_sum v (filter (in_zone (j_countries (q_info Rn)) c) (fs_zone (q_final Rn))) + net_value Rn v c = 0)%R.
Proof. exact main2_stock_flow_two_periods_sem. Qed.
Print Assumptions Main2_stock_flow_two_periods_sem.

(** markets supplied from any number of other currency zones included *)
Theorem Main2_stock_flow_two_periods_multi : forall p Rn, build_run2 p = Ok Rn -> sem_ok2_multi p = true ->
  forall (v vprev vpp : string -> R) (bv bvp : string -> string -> R),
    bv_zero bv -> sat (q_final Rn) v vprev bv -> sat (q_final Rn) vprev vpp bvp ->
    forall c, c <> NUM -> List.In c (zones_of (j_countries (q_info Rn))) ->
      (ledger_sum v (filter (in_zone (j_countries (q_info Rn)) c) (fs_zone (q_final Rn))) + net_value Rn v c = 0)%R.
Proof. exact main2_stock_flow_two_periods_multi. Qed.
Print Assumptions Main2_stock_flow_two_periods_multi.

(* ------------------------------------------------------------------ *)
(** * 2a. A satisfying valuation of [p_SIM] *)

(** G = 20, household wealth 15 -> 25, Y = 50, C = 30: all hypotheses of [Main_stock_flow_consistent];
    the last two conjuncts are its conclusion (obtained by applying it) and the same spelled out *)
Example Witness_SIM_balance :
  let v := val_of sim_now in let vp := val_of sim_prev in let bv := bv_std v in
  build_run p_SIM = Ok R_SIM /\ no_conflict p_SIM = true /\ bv_zero bv /\
  sat (r_final R_SIM) v vp bv /\ stock_consistent R_SIM vp bv /\
  v "GOV__DEM_GOOD" = 20%R /\ vp "HH__F" = 15%R /\ v "HH__F" = 25%R /\ v "GOV__F" = (-25)%R /\ v "BUS__F" = 0%R /\
  v "GOOD__SUP_GOOD" = 50%R /\ v "HH__DEM_GOOD" = 30%R /\
  ledger_sum v (fs_zone (r_final R_SIM)) = 0%R /\
  ((v "GOV__F" - v "GOV__LAG_F") + (v "HH__F" - v "HH__LAG_F") + (v "BUS__F" - v "BUS__LAG_F") = 0)%R.
Proof. exact SIM_balance_witness. Qed.
Print Assumptions Witness_SIM_balance.

(** the stationary state G = T = 20, Y = 100, H = 80 as three equal consecutive valuations; the
    conclusion is obtained by applying [Main_stock_flow_two_periods] *)
Example Witness_SIM_two_periods :
  let v := val_of sim_steady in let bv := bv_std v in
  bv_zero bv /\ sat (r_final R_SIM) v v bv /\ v "GOV__DEM_GOOD" = 20%R /\ v "HH__F" = 80%R /\ v "GOOD__SUP_GOOD" = 100%R /\
  ledger_sum v (fs_zone (r_final R_SIM)) = 0%R.
Proof. exact SIM_two_periods_witness. Qed.
Print Assumptions Witness_SIM_two_periods.

(* ------------------------------------------------------------------ *)
(** * 2b. A satisfying valuation of the two-zone program [p_OPEN] with a non-unit exchange rate *)

(** all 76 rows hold; [rates_ok2] holds with EXT_XR__CA = 6/5; the conclusions of
    [Main2_stock_flow_consistent] (zones CA and US) and both halves of [Main2_fx_valued_zero], obtained
    by applying the theorems, spelled out *)
Example Witness_OPEN_fx :
  let v := val_of open_v1 in let vp := val_of open_v0 in let bv := bv_std v in
  build_run2 p_OPEN = Ok R_OPEN /\ no_conflict2 p_OPEN = true /\ j_ext (q_info R_OPEN) <> None /\
  zones_of (j_countries (q_info R_OPEN)) = ["CA"; "NUMERAIRE"; "US"] /\
  bv_zero bv /\ sat (q_final R_OPEN) v vp bv /\ stock_consistent2 R_OPEN vp bv /\
  rates_ok2 (zones_of (j_countries (q_info R_OPEN))) v /\
  v "EXT_XR__CA" = (6 / 5)%R /\ v "EXT_XR__US" = 1%R /\ v "CA_GOV__DEM_GOOD" = 20%R /\ v "US_GOV__DEM_GOOD" = 25%R /\
  vp "CA_HH__F" = 45%R /\ v "CA_HH__F" = (643 / 13)%R /\ v "EXT_FX__NET_CA" = (1127 / 130)%R /\
  v "EXT_FX__NET_US" = (- (3381 / 325))%R /\
  ((v "CA_GOV__F" - v "CA_GOV__LAG_F") + (v "CA_HH__F" - v "CA_HH__LAG_F") + (v "CA_BUS__F" - v "CA_BUS__LAG_F")
     + v "EXT_FX__NET_CA" = 0)%R /\
  ((v "US_GOV__F" - v "US_GOV__LAG_F") + (v "US_HH__F" - v "US_HH__LAG_F") + (v "US_BUS__F" - v "US_BUS__LAG_F")
     + v "EXT_FX__NET_US" = 0)%R /\
  (v "EXT_FX__NET_CA" * v "EXT_XR__CA" + v "EXT_FX__NET_NUMERAIRE" + v "EXT_FX__NET_US" * v "EXT_XR__US" = 0)%R /\
  v "EXT_FX__NET_NUMERAIRE" = 0%R.
Proof. exact OPEN_fx_witness. Qed.
Print Assumptions Witness_OPEN_fx.

(** opening stocks, period 1, period 2: the hypotheses of [Main2_stock_flow_two_periods] and its
    conclusion for both zones *)
Example Witness_OPEN_two_periods :
  let v := val_of open_v2 in let vp := val_of open_v1 in let vpp := val_of open_v0 in
  sat (q_final R_OPEN) v vp (bv_std v) /\ sat (q_final R_OPEN) vp vpp (bv_std vp) /\
  rates_ok2 (zones_of (j_countries (q_info R_OPEN))) v /\
  v "CA_HH__F" = (8997 / 169)%R /\ v "EXT_FX__NET_CA" = (15231 / 1690)%R /\
  ((v "CA_GOV__F" - v "CA_GOV__LAG_F") + (v "CA_HH__F" - v "CA_HH__LAG_F") + (v "CA_BUS__F" - v "CA_BUS__LAG_F")
     + v "EXT_FX__NET_CA" = 0)%R /\
  ((v "US_GOV__F" - v "US_GOV__LAG_F") + (v "US_HH__F" - v "US_HH__LAG_F") + (v "US_BUS__F" - v "US_BUS__LAG_F")
     + v "EXT_FX__NET_US" = 0)%R /\
  (v "EXT_FX__NET_CA" * v "EXT_XR__CA" + v "EXT_FX__NET_NUMERAIRE" + v "EXT_FX__NET_US" * v "EXT_XR__US" = 0)%R.
Proof. exact OPEN_two_periods_witness. Qed.
Print Assumptions Witness_OPEN_two_periods.

(** [p_OPEN_DEP] = [p_OPEN] plus a deposit market in CA (issuer CA_GOV, holder CA_HH, r = 0.04): the run
    has a deposit-market step, so the previous-period premise has content.  Three consecutive
    valuations; in the middle one supply = demand = 45/2 because it satisfied the system; interest paid
    = interest received = 9/10; both zones balance (by [Main2_stock_flow_two_periods]) *)
Example Witness_DEP_two_periods :
  let v := val_of dep_v2 in let vp := val_of dep_v1 in let vpp := val_of dep_v0 in
  build_run2 p_OPEN_DEP = Ok R_DEP /\ no_conflict2 p_OPEN_DEP = true /\
  existsb (fun x => match snd (fst (fst x)) with COld (CDepositMarket _) => true | _ => false end) (q_gen R_DEP) = true /\
  sat (q_final R_DEP) v vp (bv_std v) /\ sat (q_final R_DEP) vp vpp (bv_std vp) /\
  vp "CA_GOV__SUP_DEP" = vp "CA_HH__DEM_DEP" /\ vp "CA_HH__DEM_DEP" = (45 / 2)%R /\
  v "CA_GOV__INTDEP" = (9 / 10)%R /\ v "CA_HH__INTDEP" = (9 / 10)%R /\
  ((v "CA_GOV__F" - v "CA_GOV__LAG_F") + (v "CA_HH__F" - v "CA_HH__LAG_F") + (v "CA_BUS__F" - v "CA_BUS__LAG_F")
     + v "EXT_FX__NET_CA" = 0)%R /\
  ((v "US_GOV__F" - v "US_GOV__LAG_F") + (v "US_HH__F" - v "US_HH__LAG_F") + (v "US_BUS__F" - v "US_BUS__LAG_F")
     + v "EXT_FX__NET_US" = 0)%R.
Proof. exact DEP_two_periods_witness. Qed.
Print Assumptions Witness_DEP_two_periods.

(** the previous-period premise (second [sat] of [Main2_stock_flow_two_periods], [stock_consistent2] of
    [Main2_stock_flow_consistent]) cannot be dropped: [no_conflict2] holds and the current period
    satisfies every row, but with previous values in which the issuer's supply (0) differed from the
    holder's demand (20) zone CA is off by the interest 0.04 * 20 = 4/5 *)
Theorem Main2_stock_flow_prev_needed_refuted :
  let v := val_of dep_bad1 in let vp := val_of dep_bad0 in let bv := bv_std v in
  build_run2 p_OPEN_DEP = Ok R_DEP /\ no_conflict2 p_OPEN_DEP = true /\ bv_zero bv /\
  sat (q_final R_DEP) v vp bv /\
  vp "CA_GOV__SUP_DEP" = 0%R /\ vp "CA_HH__DEM_DEP" = 20%R /\
  (forall bvp, ~ stock_consistent2 R_DEP vp bvp) /\
  (ledger_sum v (filter (in_zone (j_countries (q_info R_DEP)) "CA") (fs_zone (q_final R_DEP))) + net_value R_DEP v "CA" = 4 / 5)%R.
Proof. exact DEP_prev_needed_refuted. Qed.
Print Assumptions Main2_stock_flow_prev_needed_refuted.

(* ------------------------------------------------------------------ *)
(** * 2c. The error sides of the renaming / order theorems; the permuted witnesses *)

(** [renaming_ok] holds and the build FAILS (SetExogenous on a variable the government does not have:
    KeyError); the last conjunct is [Main_rename_errors] applied *)
Example Witness_rename_error :
  renaming_ok rho_SIM p_SIM_err = true /\ build p_SIM_err = Err KeyError /\
  rename_program rho_SIM p_SIM_err <> p_SIM_err /\
  build (rename_program rho_SIM p_SIM_err) = Err KeyError.
Proof. exact rename_error_witness. Qed.
Print Assumptions Witness_rename_error.

Example Witness_rename2_error :
  renaming_ok2 rho_OPEN p_OPEN_err = true /\ build2 p_OPEN_err = Err KeyError /\
  rename_program2 rho_OPEN p_OPEN_err <> p_OPEN_err /\
  build2 (rename_program2 rho_OPEN p_OPEN_err) = Err KeyError.
Proof. exact rename2_error_witness. Qed.
Print Assumptions Witness_rename2_error.

(** both orders satisfy [order_ok], the base program fails; the last conjunct is [Main_order_errors]
    applied *)
Example Witness_order_error :
  is_admissible p_SIM_oerr p_SIM_oerr' = true /\ order_ok p_SIM_oerr = true /\ order_ok p_SIM_oerr' = true /\
  p_SIM_oerr' <> p_SIM_oerr /\ build p_SIM_oerr = Err KeyError /\
  is_ok (build p_SIM_oerr') = false.
Proof. exact order_error_witness. Qed.
Print Assumptions Witness_order_error.

Example Witness_order2_error :
  is_admissible2 p_OPEN_oerr p_OPEN_oerr' = true /\ order_ok2 p_OPEN_oerr = true /\ order_ok2 p_OPEN_oerr' = true /\
  p_OPEN_oerr' <> p_OPEN_oerr /\ build2 p_OPEN_oerr = Err KeyError /\
  is_ok (build2 p_OPEN_oerr') = false.
Proof. exact order2_error_witness. Qed.
Print Assumptions Witness_order2_error.

(** the second hypothesis of [Main_order_invariant] / [Main2_order_invariant] on the permuted witnesses *)
Example Witness_order_ok_perm :
  forallb order_ok [p_SIM'; p_PC'; p_REG'] = true /\ forallb order_ok2 [p_OPEN'; p_GOLD'] = true /\
  p_SIM' <> p_SIM /\ p_PC' <> p_PC /\ p_REG' <> p_REG /\ p_OPEN' <> p_OPEN /\ p_GOLD' <> p_GOLD.
Proof. exact order_ok_perm_witness. Qed.
Print Assumptions Witness_order_ok_perm.
