(** The multi-currency counterpart of GenMain2/Clear.v's [main_stock_flow_two_periods]: C01 per
    currency zone when the PREVIOUS period satisfied the emitted system as well (three consecutive
    valuations), instead of the hypothesis [stock_consistent2].

    [stock_consistent2 Rn vprev bvp] as stated in Conflict2.v quantifies over EVERY sector of the final
    system whose code is the issuer's, sectors of other currency zones included; for such a sector the
    equation of SUP_<deposit market> need not be an endogenous row (a user may have made it exogenous),
    so the literal hypothesis does not follow from [sat] of the previous period.  The proofs of
    GenMain2/Balance2.v only ever use it on the sectors of the deposit market's own zone
    ([local_step_pot] filters first).  Here the two lemmas that consume the hypothesis
    ([local_step_pot], [gen_step2_pot]) are re-proved with [sat (q_final Rn) vprev vpp bvp] in its
    place, and the top-level argument is GenPlumb/Gen2.v's [c01_general], under GenPlumb's weakest side
    condition [sem_ok2_multi] (hence under [sem_ok2] and [no_conflict2] too). *)
From Coq Require Import List String Bool ZArith Arith Lia Reals Lra.
From SFC.Base Require Import Res Str Sorting.
From SFC.Gen Require Import Fx Flows Zone.
From SFC.GenMarket Require Import Market MarketProofs.
From SFC.GenAsset Require Import Common CommonProofs Money MoneyProofs Deposit DepositProofs.
From SFC.GenTax Require Import Tax Dividends TaxProofs DividendProofs.
From SFC.GenMain2 Require Import Program Classes Main Ledger MainProofs Names Conflict Balance Clear
                                 Program2 Main2 Ledger2 MainProofs2 Names2 Conflict2 Balance2 Zones.
From SFC.GenPlumb Require Import FootDefs Foot Foot2 Constr Inv FxBook Split2 Join2 Final Plumb2 Sem2 Gen2 Multi MultiSim MultiPot MultiThm.
Import ListNotations.
Local Open Scope string_scope.
Local Open Scope list_scope.
Local Open Scope R_scope.

Section Two.
Variables (v vprev vpp : string -> R) (bv bvp : string -> string -> R) (J : ginfo2) (bizsG : list nat).

(** the previous-period premise of the single-currency step on one zone, from [sat] of the previous
    period on the whole final system *)
Lemma zone_stock_consistent E i issuer self (Zp : zone) g (p : sector -> bool) :
  sat E vprev vpp bvp ->
  find_sec i Zp = Some self ->
  gen_ok (filter p (fs_zone E)) (to_old J) ((i, CDepositMarket issuer), mkG Zp [], g) = true ->
  Forall2 frame (g_zone g) (filter p (fs_zone E)) ->
  forall sf, List.In sf (filter p (fs_zone E)) ->
    (dep_issuer issuer sf = true -> holds vprev bvp sf (Common.sup_name (code self))) /\
    (sid sf = i -> holds vprev bvp sf (Common.dem_name (code self))).
Proof.
  intros HS Fs HOK HF sf Hsf. unfold gen_ok in HOK. cbn [g_zone] in HOK. rewrite Fs in HOK.
  apply andb_true_iff in HOK as [HOK _]. unfold deposit_ok in HOK.
  repeat (apply andb_true_iff in HOK as [HOK ?]). rename HOK into K.
  destruct (Forall2_In_r _ _ _ _ HF Hsf) as (s' & Hs' & Fr).
  assert (KD : forall n, List.In n (asset_sel (code self) sf) -> is_kdef sf n = true).
  { intros n Hn. eapply (kept_final_kdef _ _ _ K HF sf Hsf s' Fr n); [reflexivity|exact Hn]. }
  assert (Hin : List.In sf (fs_zone E)) by (apply filter_In in Hsf; tauto).
  split; intros _; apply (sat_holds vprev vpp bvp _ sf _ HS Hin); apply KD; unfold asset_sel; simpl; auto.
Qed.

(** [Balance2.local_step_pot] with the previous period's [sat] instead of the stock premise *)
Lemma local_step_pot_two E i k self Z Z' :
  sat E v vprev bv -> bv_zero bv -> sat E vprev vpp bvp ->
  find_sec i Z = Some self -> NoDup (map sid Z) -> Forall2 frame Z' (fs_zone E) ->
  k = class_of (i_classes (to_old J)) i ->
  local_ok J (fs_zone E) i k self Z Z' = true ->
  (forall s, List.In s Z -> existsb (Nat.eqb (sid s)) bizsG = is_fmb (class_of (i_classes (to_old J)) (sid s))) ->
  forall c, pot2 v bv J bizsG c Z' = pot2 v bv J bizsG c Z.
Proof.
  intros HS HB HSP Fs ND HF CL HOK HBZ c. unfold local_ok in HOK.
  set (p := in_zone (j_countries J) (cur_of_sec J self)) in *.
  destruct (gen_step (to_old J) (mkG (filter p Z) []) (i, k)) as [g|] eqn:GS; [|discriminate].
  apply andb_true_iff in HOK as [HOK FX]. apply andb_true_iff in HOK as [PO GO].
  apply part_ok_spec in PO as [P1 P2]. apply fx_ok_nil in FX.
  unfold pot2. rewrite (netv_same v J _ _ c FX). f_equal.
  destruct (String.eqb_spec c (cur_of_sec J self)) as [->|Nc].
  - fold p. change (inz J (cur_of_sec J self)) with p. rewrite P1.
    set (Zf := fs_zone E) in *.
    set (Rn := mkRun (to_old J) [] [((i, k), mkG (filter p Z) [], g)] [] [] (mkFS (filter p Zf) [] [])).
    assert (Pself : p self = true) by (unfold p, in_zone, cur_of_sec; apply String.eqb_refl).
    assert (FP : find_sec i (filter p Z) = Some self) by (apply find_filter; auto).
    assert (HFz : Forall2 frame (g_zone g) (filter p Zf)).
    { rewrite <- P1. apply filter_frame; [apply in_zone_stable|exact HF]. }
    apply (gen_step_pot v vprev bv bvp Rn (to_old J) i k (mkG (filter p Z) []) g bizsG).
    + intros s n Hs Hn. cbn in Hs. apply filter_In in Hs as [Hs _]. now apply HS.
    + exact HB.
    + intros i0 issuer st st' self0 Hin Fs0 sf Hsf. cbn in Hin, Hsf. destruct Hin as [Hin|[]].
      inversion Hin as [[A1 A2 A3 A4]]. subst i0 st. cbn [g_zone] in Fs0.
      assert (self0 = self) by (rewrite FP in Fs0; now injection Fs0). subst self0.
      first [rewrite A2 in GO | rewrite <- A2 in GO].
      exact (zone_stock_consistent E i issuer self (filter p Z) g p HSP FP GO HFz sf Hsf).
    + now left.
    + exact GS.
    + exact CL.
    + exact GO.
    + exact HFz.
    + cbn. now apply NoDup_map_filter_sid.
    + intros s Hs. cbn in Hs. apply filter_In in Hs as [Hs _]. now apply HBZ.
  - f_equal. apply (other_zone_same J p); [|exact P2]. intros s Hs. unfold p. eapply inz_disjoint; eassumption.
Qed.

(** [Balance2.gen_step2_pot] likewise *)
Lemma gen_step2_pot_two (Rn : run2) i k st st' :
  sat (q_final Rn) v vprev bv -> bv_zero bv -> sat (q_final Rn) vprev vpp bvp ->
  gen_step2 J st (i, k) = Ok st' -> k = class_of2 (j_classes J) i ->
  gen_ok2 J (fs_zone (q_final Rn)) ((i, k), st, st') = true ->
  Forall2 frame (h_zone st') (fs_zone (q_final Rn)) -> NoDup (map sid (h_zone st)) ->
  (forall s, List.In s (h_zone st) -> existsb (Nat.eqb (sid s)) bizsG = is_fmb (class_of (i_classes (to_old J)) (sid s))) ->
  forall c, c <> NUM -> pot2 v bv J bizsG c (h_zone st') = pot2 v bv J bizsG c (h_zone st).
Proof.
  intros HS HB HSP GS CL HOK HF ND HBZ c Hc.
  pose proof (zstep_frame _ _ _ (gen_step2_zstep _ _ _ _ GS)) as FR.
  unfold gen_ok2 in HOK. destruct (find_sec i (h_zone st)) as [self|] eqn:Fs; [|discriminate].
  assert (SAME : zone_eqb (h_zone st') (h_zone st) = true -> pot2 v bv J bizsG c (h_zone st') = pot2 v bv J bizsG c (h_zone st)).
  { intros E. apply zone_eqb_eq in E. now rewrite E. }
  assert (LOC : forall k0, k = COld k0 -> local_ok J (fs_zone (q_final Rn)) i k0 self (h_zone st) (h_zone st') = true ->
                pot2 v bv J bizsG c (h_zone st') = pot2 v bv J bizsG c (h_zone st)).
  { intros k0 Ek LO. assert (CL2 : class_of2 (j_classes J) i = COld k0) by congruence.
    apply (local_step_pot_two (q_final Rn) i k0 self _ _ HS HB HSP Fs ND HF (eq_sym (class_to_old _ _ _ CL2)) LO HBZ). }
  destruct k as [k0|stock|t stock| | |]; try (now apply SAME).
  2,3: now apply (gold_pot v bv J bizsG i self _ _ Fs ND FR HOK).
  destruct k0 as [| |t|ai af good lab|ai af good lab|ai af good|mz wage margin lab out|mz wage lab ms|rate paid|
                  |issuer|issuer]; try (now apply SAME); try (now apply (LOC _ eq_refl)).
  destruct (sup_of i (j_sup J)) as [res others].
  destruct (supplier_currencies J (h_zone st) (cur_of_sec J self) _) as [|a [|b l]]; [now apply (LOC _ eq_refl)| |discriminate].
  now apply (foreign_market_pot v vprev bv J bizsG (q_final Rn) i self a res others _ _ HS HB Fs ND FR HF HOK).
Qed.
End Two.

(** C01 per currency zone from three consecutive valuations; markets supplied from any number of
    other currency zones included *)
Theorem main2_stock_flow_two_periods_multi p Rn : build_run2 p = Ok Rn -> sem_ok2_multi p = true ->
  forall (v vprev vpp : string -> R) (bv bvp : string -> string -> R),
    bv_zero bv -> sat (q_final Rn) v vprev bv -> sat (q_final Rn) vprev vpp bvp ->
    forall c, c <> NUM -> List.In c (zones_of (j_countries (q_info Rn))) ->
      (ledger_sum v (filter (in_zone (j_countries (q_info Rn)) c) (fs_zone (q_final Rn))) + net_value Rn v c = 0)%R.
Proof.
  intros HR HSem v vprev vpp bv bvp HB HS HSP.
  destruct (sem2m_parts _ _ HR HSem) as (LU & GS & FL & XO & FO).
  apply (c01_general p Rn HR LU FL XO FO v vprev bv HS).
  intros x Hx. destruct (run_gen_facts _ _ HR x Hx) as [WI STEP].
  destruct (is_multi_market (q_info Rn) x) as [[[[self acurs] res] others]|] eqn:IM.
  - destruct (multi_market_inv _ _ _ _ _ _ IM) as (i & st & st' & a & b & l & -> & Fs & ES & EA & SCu).
    cbn [fst snd] in *. unfold gen_pot_ok. intros CL HF ND HBZ c Hc.
    pose proof (GS _ Hx) as MS. unfold gen_sem2m in MS. rewrite IM in MS. cbn [fst snd] in MS.
    eapply (multi_market_pot multi_home_sim multi_abroad_pot multi_ledger_ops v vprev bv (q_info Rn) _ (q_final Rn) i self acurs res others a b l);
      try eassumption.
    + apply (zstep_frame _ _ _ (gen_step2_zstep _ _ _ _ STEP)).
    + eapply market_step_of; eassumption.
    + eapply gen_step2_div_quiet; [exact STEP|reflexivity].
  - pose proof (gen_ok2_of_sem _ _ _ HR Hx IM (GS _ Hx)) as OK.
    destruct x as [[[i k] sa] sb]. cbn [fst snd] in *. unfold gen_pot_ok. intros CL HF ND HBZ c Hc.
    apply (gen_step2_pot_two v vprev vpp bv bvp (q_info Rn) _ Rn i k sa sb HS HB HSP STEP CL OK HF ND HBZ c Hc).
Qed.

Theorem main2_stock_flow_two_periods_sem p Rn : build_run2 p = Ok Rn -> sem_ok2 p = true ->
  forall (v vprev vpp : string -> R) (bv bvp : string -> string -> R),
    bv_zero bv -> sat (q_final Rn) v vprev bv -> sat (q_final Rn) vprev vpp bvp ->
    forall c, c <> NUM -> List.In c (zones_of (j_countries (q_info Rn))) ->
      (ledger_sum v (filter (in_zone (j_countries (q_info Rn)) c) (fs_zone (q_final Rn))) + net_value Rn v c = 0)%R.
Proof. intros HR HS. apply (main2_stock_flow_two_periods_multi p Rn HR). now apply sem_ok2_multi_of. Qed.

Theorem main2_stock_flow_two_periods p Rn : build_run2 p = Ok Rn -> no_conflict2 p = true ->
  forall (v vprev vpp : string -> R) (bv bvp : string -> string -> R),
    bv_zero bv -> sat (q_final Rn) v vprev bv -> sat (q_final Rn) vprev vpp bvp ->
    forall c, c <> NUM -> List.In c (zones_of (j_countries (q_info Rn))) ->
      (ledger_sum v (filter (in_zone (j_countries (q_info Rn)) c) (fs_zone (q_final Rn))) + net_value Rn v c = 0)%R.
Proof.
  intros HR NC. apply (main2_stock_flow_two_periods_sem p Rn HR). now rewrite <- no_conflict2_is_sem_ok2.
Qed.
