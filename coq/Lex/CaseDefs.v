(** Boolean comparison helpers used by the generated correspondence cases (C13). *)
From Coq Require Import List String Bool.
From SFC.Base Require Import Res.
From SFC.Lex Require Import Lexer Untok.
Import ListNotations.

Fixpoint list_eqb {A} (eqb : A -> A -> bool) (a b : list A) : bool :=
  match a, b with
  | [], [] => true
  | x :: a', y :: b' => eqb x y && list_eqb eqb a' b'
  | _, _ => false
  end.

Definition res_eqb {A} (eqb : A -> A -> bool) (a b : result A) : bool :=
  match a, b with
  | Ok x, Ok y => eqb x y
  | Err e, Err f => err_eqb e f
  | _, _ => false
  end.

Definition tok_eqb (a b : token) : bool := tkind_eqb (fst a) (fst b) && String.eqb (snd a) (snd b).

(** The token stream of [tokenize] (after ENCODING) or the exception class. *)
Definition c13_lex (s : string) (expected : result (list token)) : bool :=
  res_eqb (list_eqb tok_eqb) (lex s) expected.

(** The three utility functions on one input. *)
Definition c13_fun (s : string) (m : list (string * string)) (a b : string)
           (names : result (list string)) (rl : result string) (rt : result string) : bool :=
  res_eqb (list_eqb String.eqb) (list_tokens s) names &&
  res_eqb String.eqb (replace_lookup m s) rl &&
  res_eqb String.eqb (replace_token s a b) rt.

(** Self-consistency of the well-formedness used by C13_relex on the lexer's own output:
    every content token of [lex s] is [wf_tok]; [ops_safe] agrees with the reference decision
    made with Python's tokenizer on the abutted texts ([dd]: two adjacent period tokens, where
    [ops_safe] is deliberately conservative); and, when the content is well-formed, re-lexing the
    untokenized stripped line gives it back (an instance of C13_relex, recomputed). *)
From SFC.Lex Require Import Wf.
Definition is_content (t : token) : bool :=
  match fst t with NAME | NUMBER | STRING | OP => true | _ => false end.

Definition c13_wf (s : string) (safe_py dd : bool) : bool :=
  match lex s with
  | Err _ => true
  | Ok ts =>
      let body := filter is_content ts in
      forallb wf_tok body &&
      (if dd then implb (ops_safe body) safe_py else Bool.eqb (ops_safe body) safe_py) &&
      (if ops_safe body
       then match lex (untok (strip ts)) with
            | Ok ts' => list_eqb tok_eqb ts' (match strip ts with [(NL, _); e] => [e] | l => l end)
            | Err _ => false
            end
       else true)
  end.
