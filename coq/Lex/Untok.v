(** Compat-mode [tokenize.untokenize] on (type, text) pairs ([Untokenizer.compat], Python 3.12)
    and the three functions of [sfc_models/utils.py] built on it. *)
From Coq Require Import List String Ascii Bool Arith.
From SFC.Base Require Import Res.
From SFC.Lex Require Import Lexer.
Import ListNotations.
Local Open Scope string_scope.

(** [indents]: the stack of INDENT texts (top first); [startline]: a NEWLINE/NL was the last
    thing written; [prevstring]: the previous token was a STRING.  A DEDENT on an empty stack
    ([IndexError] in Python) cannot arise from a token list produced by [lex]; here it pops
    nothing. *)
Fixpoint untok_go (indents : list string) (startline prevstring : bool) (ts : list token) : string :=
  match ts with
  | [] => ""
  | (k, v) :: r =>
      match k with
      | INDENT => untok_go (v :: indents) startline false r
      | DEDENT => untok_go (List.tl indents) startline false r
      | NEWLINE | NL => v ++ untok_go indents true false r
      | _ =>
          let v' := match k with
                    | NAME | NUMBER => v ++ " "
                    | STRING => if prevstring then " " ++ v else v
                    | _ => v
                    end in
          let isstr := match k with STRING => true | _ => false end in
          match startline, indents with
          | true, i :: _ => i ++ v' ++ untok_go indents false isstr r
          | _, _ => v' ++ untok_go indents startline isstr r
          end
      end
  end.

(** The first token handed to [compat] is ENCODING, so [startline] starts out false. *)
Definition untok (ts : list token) : string := untok_go [] false false ts.

Definition is_name (t : token) : bool := match t with (NAME, _) => true | _ => false end.
Definition names_of (ts : list token) : list string := map snd (filter is_name ts).

Fixpoint assoc (x : string) (m : list (string * string)) : option string :=
  match m with
  | [] => None
  | (k, v) :: r => if String.eqb x k then Some v else assoc x r
  end.

(** The renaming of one token under a lookup: only NAME tokens whose text is a key change, and
    the result is not looked up again. *)
Definition ren (m : list (string * string)) (t : token) : token :=
  match t with
  | (NAME, v) => match assoc v m with Some w => (NAME, w) | None => t end
  | _ => t
  end.

Definition ren1 (a b : string) (t : token) : token :=
  match t with
  | (NAME, v) => if String.eqb v a then (NAME, b) else t
  | _ => t
  end.

(** [utils.list_tokens], [utils.replace_token], [utils.replace_token_from_lookup]
    (the lookup is the dict's item list; keys are distinct). *)
Definition list_tokens (s : string) : result (list string) :=
  match lex s with Ok ts => Ok (names_of ts) | Err e => Err e end.

Definition replace_token (s a b : string) : result string :=
  match lex s with Ok ts => Ok (untok (map (ren1 a b) ts)) | Err e => Err e end.

Definition replace_lookup (m : list (string * string)) (s : string) : result string :=
  match lex s with Ok ts => Ok (untok (map (ren m) ts)) | Err e => Err e end.
