(** Every token's text is a non-empty prefix of the remaining input (the lexer cuts the line
    into consecutive pieces), hence the fuel [lex] gives [lex_body] always suffices. *)
From Coq Require Import List String Ascii Bool Arith NArith Lia.
From SFC.Base Require Import Res.
From SFC.Lex Require Import Lexer LexProofs.
Import ListNotations.
Local Open Scope string_scope.

Lemma num_run_split : forall s q a rest, num_run q s = Ok (a, rest) -> s = a ++ rest.
Proof.
  induction s as [|c s IH]; intros q a rest H; simpl in H.
  - unfold num_fin in H. destruct (num_final q); [|discriminate]. injection H as <- <-. reflexivity.
  - destruct (num_step q c (head s)) as [q'| |].
    + apply cons_fst_ok in H as (a' & -> & H). simpl. f_equal. eauto.
    + unfold num_fin in H. destruct (num_final q); [|discriminate]. injection H as <- <-. reflexivity.
    + discriminate.
Qed.

Lemma num_run_err : forall s q e, num_run q s = Err e -> e = TokenError.
Proof.
  induction s as [|c s IH]; intros q e H; simpl in H.
  - unfold num_fin in H. destruct (num_final q); congruence.
  - destruct (num_step q c (head s)) as [q'| |].
    + destruct (num_run q' s) as [[a r]|e'] eqn:E; simpl in H; [discriminate|]. injection H as <-. eauto.
    + unfold num_fin in H. destruct (num_final q); congruence.
    + congruence.
Qed.

Local Opaque Nat.eqb.
Lemma scan_q_split : forall s q size n esc a rest, scan_q q size n esc s = Ok (a, rest) -> s = a ++ rest.
Proof.
  induction s as [|c s IH]; intros q size n esc a rest H; simpl in H; [discriminate|].
  destruct (unsupported c); [discriminate|].
  destruct esc.
  - apply cons_fst_ok in H as (a' & -> & H). simpl. f_equal. eauto.
  - destruct (Ascii.eqb c q).
    + destruct (Nat.eqb (S n) size).
      * injection H as <- <-. reflexivity.
      * apply cons_fst_ok in H as (a' & -> & H). simpl. f_equal. eauto.
    + destruct (Ascii.eqb c "\"); apply cons_fst_ok in H as (a' & -> & H); simpl; f_equal; eauto.
Qed.

Lemma scan_q_err : forall s q size n esc e, scan_q q size n esc s = Err e -> e <> OutOfFuel.
Proof.
  induction s as [|c s IH]; intros q size n esc e H; simpl in H; [congruence|].
  destruct (unsupported c); [congruence|].
  assert (G : forall n' esc', cons_fst c (scan_q q size n' esc' s) = Err e -> e <> OutOfFuel).
  { intros n' esc' H'. destruct (scan_q q size n' esc' s) as [[a r]|e'] eqn:E; simpl in H'; [discriminate|].
    injection H' as <-. eauto. }
  destruct esc; [eauto|].
  destruct (Ascii.eqb c q).
  - destruct (Nat.eqb (S n) size); [discriminate|eauto].
  - destruct (Ascii.eqb c "\"); eauto.
Qed.
Local Transparent Nat.eqb.

Lemma cons_fst_err c r e : cons_fst c r = Err e -> r = Err e.
Proof. destruct r as [[a x]|e']; simpl; congruence. Qed.

Local Opaque scan_q.
Lemma scan_string_split s a rest : scan_string s = Ok (a, rest) -> s = a ++ rest /\ a <> "".
Proof.
  unfold scan_string. destruct s as [|q r]; [discriminate|]. destruct r as [|c2 r2]; [discriminate|].
  destruct (Ascii.eqb c2 q) eqn:E2.
  - apply Ascii.eqb_eq in E2. subst c2. destruct r2 as [|c3 r3].
    + intros H. injection H as <- <-. split; [reflexivity|discriminate].
    + destruct (Ascii.eqb c3 q) eqn:E3.
      * apply Ascii.eqb_eq in E3. subst c3. intros H.
        apply cons_fst_ok in H as (a1 & -> & H). apply cons_fst_ok in H as (a2 & -> & H).
        apply cons_fst_ok in H as (a3 & -> & H). apply scan_q_split in H. subst r3.
        split; [reflexivity|discriminate].
      * intros H. injection H as <- <-. split; [reflexivity|discriminate].
  - intros H. apply cons_fst_ok in H as (a1 & -> & H). apply scan_q_split in H. rewrite H.
    split; [reflexivity|discriminate].
Qed.

Lemma scan_string_err s e : scan_string s = Err e -> e <> OutOfFuel.
Proof.
  unfold scan_string. destruct s as [|q r]; [congruence|]. destruct r as [|c2 r2]; [congruence|].
  destruct (Ascii.eqb c2 q).
  - destruct r2 as [|c3 r3]; [discriminate|]. destruct (Ascii.eqb c3 q); [|discriminate].
    intros H. apply cons_fst_err in H. apply cons_fst_err in H. apply cons_fst_err in H.
    now apply scan_q_err in H.
  - intros H. apply cons_fst_err in H. now apply scan_q_err in H.
Qed.
Local Transparent scan_q.

Lemma scan_op_split c r o rest : scan_op c r = (o, rest) -> String c r = o ++ rest /\ o <> "".
Proof.
  unfold scan_op. destruct r as [|c2 r2].
  - intros H. injection H as <- <-. split; [reflexivity|discriminate].
  - destruct (two_char c c2).
    + destruct r2 as [|c3 r3].
      * intros H. injection H as <- <-. split; [reflexivity|discriminate].
      * destruct (three_char c c2 c3); intros H; injection H as <- <-; split; try reflexivity; discriminate.
    + intros H. injection H as <- <-. split; [reflexivity|discriminate].
Qed.

(** The token read is a non-empty prefix of the input and the rest is what follows it. *)
Lemma next_token_split s k v rest : next_token s = Ok ((k, v), rest) -> s = v ++ rest /\ v <> "".
Proof.
  unfold next_token. destruct s as [|c r]; [discriminate|].
  destruct (is_blank c || Ascii.eqb c "#"); [discriminate|].
  destruct (is_ident_start c) eqn:Is.
  { unfold tok_ident. destruct (span is_ident_char (String c r)) as [n rest'] eqn:E.
    pose proof (span_eq _ _ _ _ E) as Es.
    assert (Hn : n <> "").
    { simpl in E. unfold is_ident_char in E. rewrite Is in E. simpl in E.
      destruct (span _ r). injection E as <- _. discriminate. }
    destruct rest' as [|q r'].
    - intros H. injection H as _ <- <-. auto.
    - destruct (is_quote q); [|intros H; injection H as _ <- <-; auto].
      destruct (prefix_kind n) as [[|]|]; [discriminate| |intros H; injection H as _ <- <-; auto].
      intros H. apply tok_of_ok in H as (a & Ha & H). injection Ha as _ <-.
      apply pre_fst_ok in H as (a' & -> & H). apply scan_string_split in H as [H _].
      rewrite Es, H, app_assoc_s. split; [reflexivity|]. destruct n; [congruence|discriminate]. }
  destruct (is_digit c).
  { unfold tok_number. intros H. apply tok_of_ok in H as (a & Ha & H). injection Ha as _ <-.
    apply cons_fst_ok in H as (a' & -> & H). apply num_run_split in H. subst r.
    split; [reflexivity|discriminate]. }
  destruct (Ascii.eqb c ".") eqn:Ec.
  { apply Ascii.eqb_eq in Ec. subst c. unfold tok_dot.
    destruct r as [|d r2]; [intros H; injection H as _ <- <-; split; [reflexivity|discriminate]|].
    destruct (is_digit d).
    { intros H. apply tok_of_ok in H as (a & Ha & H). injection Ha as _ <-.
      apply cons_fst_ok in H as (a' & -> & H). apply num_run_split in H. rewrite H.
      split; [reflexivity|discriminate]. }
    destruct (Ascii.eqb d ".") eqn:Ed; [|intros H; injection H as _ <- <-; split; [reflexivity|discriminate]].
    apply Ascii.eqb_eq in Ed. subst d.
    destruct r2 as [|d2 r3]; [intros H; injection H as _ <- <-; split; [reflexivity|discriminate]|].
    destruct (Ascii.eqb d2 ".") eqn:Ed2; intros H; injection H as _ <- <-; split; try reflexivity; try discriminate.
    apply Ascii.eqb_eq in Ed2. now subst d2. }
  destruct (is_quote c).
  { intros H. apply tok_of_ok in H as (a & Ha & H). injection Ha as _ <-. now apply scan_string_split in H. }
  destruct (Ascii.eqb c "\"); [discriminate|]. destruct (unsupported c); [discriminate|].
  destruct (negb (printable c)); [discriminate|].
  unfold tok_op. destruct (scan_op c r) as [o rest'] eqn:E. intros H. injection H as _ <- <-.
  now apply scan_op_split in E.
Qed.

Lemma tok_of_err k r e : tok_of k r = Err e -> r = Err e.
Proof. destruct r as [[a x]|e']; simpl; congruence. Qed.
Lemma pre_fst_err p r e : pre_fst p r = Err e -> r = Err e.
Proof. destruct r as [[a x]|e']; simpl; congruence. Qed.

Lemma next_token_err c r e :
  is_blank c = false -> Ascii.eqb c "#" = false -> next_token (String c r) = Err e -> e <> OutOfFuel.
Proof.
  intros Hb Hh. unfold next_token. rewrite Hb, Hh. simpl orb. cbv iota.
  destruct (is_ident_start c).
  { unfold tok_ident. destruct (span is_ident_char (String c r)) as [n rest'].
    destruct rest' as [|q r']; [discriminate|]. destruct (is_quote q); [|discriminate].
    destruct (prefix_kind n) as [[|]|]; [congruence| |discriminate].
    intros H. apply tok_of_err, pre_fst_err in H. now apply scan_string_err in H. }
  destruct (is_digit c).
  { unfold tok_number. intros H. apply tok_of_err, cons_fst_err, num_run_err in H. congruence. }
  destruct (Ascii.eqb c ".").
  { unfold tok_dot. destruct r as [|d r2]; [discriminate|]. destruct (is_digit d).
    - intros H. apply tok_of_err, cons_fst_err, num_run_err in H. congruence.
    - destruct (Ascii.eqb d "."); [|discriminate]. destruct r2 as [|d2 r3]; [discriminate|].
      destruct (Ascii.eqb d2 "."); discriminate. }
  destruct (is_quote c); [intros H; apply tok_of_err in H; now apply scan_string_err in H|].
  destruct (Ascii.eqb c "\"); [congruence|]. destruct (unsupported c); [congruence|].
  destruct (negb (printable c)); [congruence|].
  unfold tok_op. destruct (scan_op c r). discriminate.
Qed.

Lemma span_len p s a b : span p s = (a, b) -> String.length b <= String.length s.
Proof. intros H. apply span_eq in H. subst s. rewrite length_app_s. lia. Qed.

Lemma skip_blank_head s c r : skip_blank s = String c r -> is_blank c = false.
Proof.
  unfold skip_blank. destruct (span is_blank s) as [a b] eqn:E. simpl. intros ->.
  exact (span_stop _ _ _ _ E).
Qed.

Lemma lex_body_fuel : forall fuel d s, String.length s < fuel -> lex_body fuel d s <> Err OutOfFuel.
Proof.
  induction fuel as [|f IH]; intros d s Hl; [lia|].
  cbn [lex_body]. destruct (skip_blank s) as [|c r] eqn:E.
  - unfold at_eol. destruct (Nat.eqb d 0); discriminate.
  - pose proof (skip_blank_head _ _ _ E) as Hb.
    assert (Hlen : String.length (String c r) <= String.length s).
    { unfold skip_blank in E. destruct (span is_blank s) as [a b] eqn:E'. simpl in E. subst b.
      eapply span_len; eauto. }
    destruct (Ascii.eqb c "#") eqn:Hh.
    + destruct (all_chars _ _); [|discriminate]. unfold at_eol. destruct (Nat.eqb d 0); discriminate.
    + destruct (next_token (String c r)) as [[[k v] rest]|e] eqn:En.
      * destruct (depth_step d (k, v)) as [d'|]; [|discriminate].
        apply next_token_split in En as [Es Hv].
        assert (String.length rest < f).
        { rewrite Es, length_app_s in Hlen. destruct v; [congruence|]. simpl in Hlen. lia. }
        specialize (IH d' rest H). destruct (lex_body f d' rest); simpl; congruence.
      * pose proof (next_token_err _ _ _ Hb Hh En). congruence.
Qed.

Theorem lex_fuel s : lex s <> Err OutOfFuel.
Proof.
  unfold lex. destruct (span is_blank s) as [ws body]. destruct body as [|c r]; [discriminate|].
  destruct (Ascii.eqb c "#"); [destruct (all_chars _ _); discriminate|].
  pose proof (lex_body_fuel (S (String.length (String c r))) 0 (String c r) (Nat.lt_succ_diag_r _)) as H.
  destruct (lex_body _ 0 (String c r)); [discriminate|congruence].
Qed.
