(** Decidable well-formedness of token lists for the re-lexing theorem (C13_relex):
    every content token is what the lexer itself would read from its text ([wf_tok]), no
    operator token fuses with its successor ([ops_safe]), brackets close ([depth_run]), an
    optional comment comes last ([wf_comment]). *)
From Coq Require Import List String Ascii Bool Arith.
From SFC.Base Require Import Res.
From SFC.Lex Require Import Lexer Untok.
Import ListNotations.
Local Open Scope string_scope.

Definition tok_eqb (a b : token) : bool := tkind_eqb (fst a) (fst b) && String.eqb (snd a) (snd b).

(** The lexer reads exactly this token from the token's own text, leaving nothing. *)
Definition wf_tok (t : token) : bool :=
  match fst t with
  | NAME | NUMBER | STRING | OP =>
      match next_token (snd t) with
      | Ok (t', EmptyString) => tok_eqb t' t
      | _ => false
      end
  | _ => false
  end.

(** An operator [o] written directly before the character [nx] is still read as [o]
    (sufficient condition; [.] before [.] is declared unsafe although only [...] fuses). *)
Definition op_follow_ok (o : string) (nx : option ascii) : bool :=
  match nx with
  | None => true
  | Some c' =>
      match o with
      | String c EmptyString =>
          if Ascii.eqb c "." then negb (is_digit c') && negb (Ascii.eqb c' ".") else negb (two_char c c')
      | String c (String c2 EmptyString) => negb (three_char c c2 c')
      | _ => true
      end
  end.

Fixpoint ops_safe (ts : list token) : bool :=
  match ts with
  | t1 :: ((t2 :: _) as r) =>
      (match fst t1 with OP => op_follow_ok (snd t1) (head (snd t2)) | _ => true end) && ops_safe r
  | _ => true
  end.

Fixpoint depth_run (d : nat) (ts : list token) : option nat :=
  match ts with
  | [] => Some d
  | t :: r => match depth_step d t with Some d' => depth_run d' r | None => None end
  end.

Definition wf_comment (c : option string) : bool :=
  match c with
  | None => true
  | Some (String "#" _ as s) => all_chars (fun x => negb (unsupported x)) s
  | Some _ => false
  end.

Definition wf_body (body : list token) : bool :=
  forallb wf_tok body && ops_safe body && match depth_run 0 body with Some 0 => true | _ => false end.

(** The token list of a line with content tokens [body] and an optional trailing comment, as
    [lex] reports it for an unindented line. *)
Definition comment_toks (c : option string) : list token :=
  match c with Some s => [(COMMENT, s)] | None => [] end.

Definition line (body : list token) (cmt : option string) : list token :=
  match body, cmt with
  | [], None => [(ENDMARKER, "")]
  | [], Some s => [(COMMENT, s); (NL, ""); (ENDMARKER, "")]
  | _, _ => body ++ comment_toks cmt ++ [(NEWLINE, ""); (ENDMARKER, "")]
  end.

(** What compat-mode untokenize writes for content tokens: a blank after NAME and NUMBER, a
    blank between adjacent strings, everything else abutted. *)
Fixpoint spell (ps : bool) (ts : list token) : string :=
  match ts with
  | [] => ""
  | (k, v) :: r =>
      match k with
      | NAME | NUMBER => v ++ " " ++ spell false r
      | STRING => (if ps then " " ++ v else v) ++ spell true r
      | _ => v ++ spell false r
      end
  end.

Definition ident_shaped (n : string) : bool :=
  match n with
  | String c r => is_ident_start c && all_chars is_ident_char r
  | EmptyString => false
  end.

(** The tokens [lex] reports with the indentation bookkeeping removed. *)
Definition is_layout (t : token) : bool := match fst t with INDENT | DEDENT => true | _ => false end.
Definition strip (ts : list token) : list token := filter (fun t => negb (is_layout t)) ts.
