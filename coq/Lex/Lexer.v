(** A maximal-munch lexer for ONE logical line of ASCII Python 3.12 source, as
    [tokenize.tokenize] (the C tokenizer run with [extra_tokens=True]) reports it.

    Read off CPython 3.12 [Parser/tokenizer.c] ([tok_get_normal_mode]) and probed against
    /venv/bin/python; the correspondence check harness/c13.py compares the (type, text)
    stream of [tokenize] with [lex] exactly on every run.

    Modelled: NAME (keywords are NAMEs), NUMBER (the whole number automaton incl. [_]
    grouping, hex/octal/binary, fractions, exponents, imaginary suffix and the places where
    the C code raises instead of backing up: [1_], [0x], [0o8], [1e+], ...; in
    [extra_tokens] mode there is NO "invalid decimal literal" check after a number
    ([1a] is NUMBER 1, NAME a; [012] is a NUMBER)), the operator table with the C code's
    two-char/three-char lookahead, [.]/[...]/[.5], strings with single or double quote characters, single or
    triple, backslash escapes, prefixes r u b br rb (any case), comments, blanks
    (space, tab, form feed), bracket depth (only unbalanced OPEN brackets at end of line
    raise; depth > 200 raises), stray printable characters ([$ ? `] and [!]) are OP tokens,
    non-printable characters raise, a backslash outside strings/comments raises (there is no
    next line to continue on), leading blanks give INDENT ... DEDENT.
    Every error of the C tokenizer reachable here surfaces as [tokenize.TokenError].

    Outside the model (result [Err NotImplemented], never a Python outcome): f-strings
    (prefix f, fr, rf), NUL / CR / LF / non-ASCII characters.  Not modelled at all:
    a comment-only line carrying a PEP 263 coding cookie ([detect_encoding]). *)
From Coq Require Import List String Ascii Bool Arith NArith.
From SFC.Base Require Import Res.
Import ListNotations.
Local Open Scope string_scope.

Inductive tkind := NAME | NUMBER | STRING | OP | COMMENT | INDENT | DEDENT | NEWLINE | NL | ENDMARKER.
Definition token := (tkind * string)%type.

Definition tkind_eqb (a b : tkind) : bool :=
  match a, b with
  | NAME, NAME | NUMBER, NUMBER | STRING, STRING | OP, OP | COMMENT, COMMENT | INDENT, INDENT
  | DEDENT, DEDENT | NEWLINE, NEWLINE | NL, NL | ENDMARKER, ENDMARKER => true
  | _, _ => false
  end.

(* ---- character classes ---- *)
Definition cn (c : ascii) : N := N_of_ascii c.
Definition between (lo hi : N) (c : ascii) : bool := (N.leb lo (cn c) && N.leb (cn c) hi)%bool.
Definition is_digit (c : ascii) : bool := between 48 57 c.
Definition is_octdigit (c : ascii) : bool := between 48 55 c.
Definition is_bindigit (c : ascii) : bool := between 48 49 c.
Definition is_xdigit (c : ascii) : bool := is_digit c || between 97 102 c || between 65 70 c.
Definition is_ident_start (c : ascii) : bool := between 97 122 c || between 65 90 c || Ascii.eqb c "_".
Definition is_ident_char (c : ascii) : bool := is_ident_start c || is_digit c.
Definition is_blank (c : ascii) : bool :=
  match c with " "%char | "009"%char | "012"%char => true | _ => false end.
Definition is_quote (c : ascii) : bool := match c with "'"%char | """"%char => true | _ => false end.
(** NUL, LF, CR and bytes >= 128 are outside the model. *)
Definition unsupported (c : ascii) : bool :=
  N.eqb (cn c) 0 || N.eqb (cn c) 10 || N.eqb (cn c) 13 || N.leb 128 (cn c).
(** [Py_UNICODE_ISPRINTABLE] on ASCII. *)
Definition printable (c : ascii) : bool := between 32 126 c.
Definition is_e (c : ascii) : bool := match c with "e"%char | "E"%char => true | _ => false end.
Definition is_j (c : ascii) : bool := match c with "j"%char | "J"%char => true | _ => false end.
Definition is_sign (c : ascii) : bool := match c with "+"%char | "-"%char => true | _ => false end.

Fixpoint span (p : ascii -> bool) (s : string) : string * string :=
  match s with
  | String c r => if p c then let (a, b) := span p r in (String c a, b) else (EmptyString, s)
  | EmptyString => (EmptyString, EmptyString)
  end.

Fixpoint all_chars (p : ascii -> bool) (s : string) : bool :=
  match s with String c r => p c && all_chars p r | EmptyString => true end.

Definition head (s : string) : option ascii := match s with String c _ => Some c | EmptyString => None end.

(* ---- numbers: the automaton of tok_get's number section ---- *)
Inductive nstate :=
| Z0        (* read the leading "0" *)
| Zeros | ZerosU   (* "00", "0_" *)
| Dec | DecU       (* decimal digits, "1_" *)
| Frac0 | Frac | FracU   (* just after ".", fraction digits, "1.5_" *)
| ExpE | ExpSign | Exp | ExpU   (* after "e", after "e+", exponent digits, "1e5_" *)
| Imag
| HexX | HexU | Hex | OctO | OctU | Oct | BinB | BinU | Bin.

Inductive nstep := Go (q : nstate) | Halt | Fail.

(** The exponent letter is consumed only when a digit or a sign follows (the C code backs up
    over it otherwise: [1e] is NUMBER 1, NAME e); [la] is the character after [c]. *)
Definition exp_step (la : option ascii) : nstep :=
  match la with
  | Some d => if is_digit d || is_sign d then Go ExpE else Halt
  | None => Halt
  end.

Definition dec_like (c : ascii) (la : option ascii) (under : nstate) (self : nstate) : nstep :=
  if is_digit c then Go self
  else if Ascii.eqb c "_" then Go under
  else if is_e c then exp_step la
  else if is_j c then Go Imag
  else Halt.

Definition num_step (q : nstate) (c : ascii) (la : option ascii) : nstep :=
  match q with
  | Z0 =>
      match c with
      | "x"%char | "X"%char => Go HexX
      | "o"%char | "O"%char => Go OctO
      | "b"%char | "B"%char => Go BinB
      | _ =>
        if Ascii.eqb c "0" then Go Zeros else if is_digit c then Go Dec
        else if Ascii.eqb c "_" then Go ZerosU
        else if Ascii.eqb c "." then Go Frac0
        else if is_e c then exp_step la else if is_j c then Go Imag else Halt
      end
  | Zeros =>
      if Ascii.eqb c "0" then Go Zeros else if is_digit c then Go Dec
      else if Ascii.eqb c "_" then Go ZerosU
      else if Ascii.eqb c "." then Go Frac0
      else if is_e c then exp_step la else if is_j c then Go Imag else Halt
  | ZerosU => if Ascii.eqb c "0" then Go Zeros else if is_digit c then Go Dec else Fail
  | Dec => if Ascii.eqb c "." then Go Frac0 else dec_like c la DecU Dec
  | DecU => if is_digit c then Go Dec else Fail
  | Frac0 => if is_digit c then Go Frac else if is_e c then exp_step la else if is_j c then Go Imag else Halt
  | Frac => dec_like c la FracU Frac
  | FracU => if is_digit c then Go Frac else Fail
  | ExpE => if is_digit c then Go Exp else if is_sign c then Go ExpSign else Fail
  | ExpSign => if is_digit c then Go Exp else Fail
  | Exp => if is_digit c then Go Exp else if Ascii.eqb c "_" then Go ExpU else if is_j c then Go Imag else Halt
  | ExpU => if is_digit c then Go Exp else Fail
  | Imag => Halt
  | HexX => if Ascii.eqb c "_" then Go HexU else if is_xdigit c then Go Hex else Fail
  | HexU => if is_xdigit c then Go Hex else Fail
  | Hex => if is_xdigit c then Go Hex else if Ascii.eqb c "_" then Go HexU else Halt
  | OctO => if Ascii.eqb c "_" then Go OctU else if is_octdigit c then Go Oct else Fail
  | OctU => if is_octdigit c then Go Oct else Fail
  | Oct => if is_octdigit c then Go Oct else if Ascii.eqb c "_" then Go OctU else if is_digit c then Fail else Halt
  | BinB => if Ascii.eqb c "_" then Go BinU else if is_bindigit c then Go Bin else Fail
  | BinU => if is_bindigit c then Go Bin else Fail
  | Bin => if is_bindigit c then Go Bin else if Ascii.eqb c "_" then Go BinU else if is_digit c then Fail else Halt
  end.

(** States in which the number may end (at end of input or before a character that does not
    continue it); in the others the C code raises. *)
Definition num_final (q : nstate) : bool :=
  match q with
  | Z0 | Zeros | Dec | Frac0 | Frac | Exp | Imag | Hex | Oct | Bin => true
  | ZerosU | DecU | FracU | ExpE | ExpSign | ExpU | HexX | HexU | OctO | OctU | BinB | BinU => false
  end.

Definition num_fin (q : nstate) (s : string) : result (string * string) :=
  if num_final q then Ok (EmptyString, s) else Err TokenError.

Definition cons_fst (c : ascii) (r : result (string * string)) : result (string * string) :=
  match r with Ok (a, rest) => Ok (String c a, rest) | Err e => Err e end.

Fixpoint num_run (q : nstate) (s : string) : result (string * string) :=
  match s with
  | EmptyString => num_fin q s
  | String c r =>
      match num_step q c (head r) with
      | Go q' => cons_fst c (num_run q' r)
      | Halt => num_fin q s
      | Fail => Err TokenError
      end
  end.

(* ---- strings ---- *)
(** Body of a string after the opening quote(s): [size] is 1 or 3, [n] the number of
    consecutive closing-quote characters just seen, [esc] whether the previous character was
    an unescaped backslash.  Returns the body including the closing quote(s). *)
Fixpoint scan_q (q : ascii) (size n : nat) (esc : bool) (s : string) : result (string * string) :=
  match s with
  | EmptyString => Err TokenError
  | String c r =>
      if unsupported c then Err NotImplemented
      else if esc then cons_fst c (scan_q q size 0 false r)
      else if Ascii.eqb c q then
        (if Nat.eqb (S n) size then Ok (String c EmptyString, r) else cons_fst c (scan_q q size (S n) false r))
      else if Ascii.eqb c "\" then cons_fst c (scan_q q size 0 true r)
      else cons_fst c (scan_q q size 0 false r)
  end.

(** [s] starts with a quote character. *)
Definition scan_string (s : string) : result (string * string) :=
  match s with
  | EmptyString => Err TokenError
  | String q r =>
      match r with
      | String c2 r2 =>
          if Ascii.eqb c2 q then
            match r2 with
            | String c3 r3 =>
                if Ascii.eqb c3 q then cons_fst q (cons_fst q (cons_fst q (scan_q q 3 0 false r3)))
                else Ok (String q (String q EmptyString), r2)
            | EmptyString => Ok (String q (String q EmptyString), r2)
            end
          else cons_fst q (scan_q q 1 0 false r)
      | EmptyString => Err TokenError
      end
  end.

Definition lower (c : ascii) : ascii :=
  if between 65 90 c then ascii_of_N (cn c + 32) else c.

(** String prefixes accepted by the C tokenizer: [Some false] an ordinary string,
    [Some true] an f-string (outside the model). *)
Definition prefix_kind (n : string) : option bool :=
  match n with
  | String a EmptyString =>
      match lower a with
      | "b"%char | "u"%char | "r"%char => Some false
      | "f"%char => Some true
      | _ => None
      end
  | String a (String b EmptyString) =>
      match lower a, lower b with
      | "b"%char, "r"%char | "r"%char, "b"%char => Some false
      | "f"%char, "r"%char | "r"%char, "f"%char => Some true
      | _, _ => None
      end
  | _ => None
  end.

(* ---- operators ---- *)
Definition two_char (c c2 : ascii) : bool :=
  match c2 with
  | "="%char =>
      match c with
      | "!"%char | "%"%char | "&"%char | "*"%char | "+"%char | "-"%char | "/"%char | ":"%char
      | "<"%char | "="%char | ">"%char | "@"%char | "^"%char | "|"%char => true
      | _ => false
      end
  | "*"%char => Ascii.eqb c "*"
  | "/"%char => Ascii.eqb c "/"
  | "<"%char => Ascii.eqb c "<"
  | ">"%char => match c with "-"%char | "<"%char | ">"%char => true | _ => false end
  | _ => false
  end.

Definition three_char (c c2 c3 : ascii) : bool :=
  match c3 with
  | "="%char =>
      Ascii.eqb c c2 && match c with "*"%char | "/"%char | "<"%char | ">"%char => true | _ => false end
  | _ => false
  end.

(** The C code: try a two-character token; only when that matches, try to extend it to three. *)
Definition scan_op (c : ascii) (r : string) : string * string :=
  match r with
  | String c2 r2 =>
      if two_char c c2 then
        match r2 with
        | String c3 r3 =>
            if three_char c c2 c3 then (String c (String c2 (String c3 EmptyString)), r3)
            else (String c (String c2 EmptyString), r2)
        | EmptyString => (String c (String c2 EmptyString), r2)
        end
      else (String c EmptyString, r)
  | EmptyString => (String c EmptyString, r)
  end.

(* ---- one token ---- *)
Definition tok_of (k : tkind) (r : result (string * string)) : result (token * string) :=
  match r with Ok (a, rest) => Ok ((k, a), rest) | Err e => Err e end.

Definition pre_fst (p : string) (r : result (string * string)) : result (string * string) :=
  match r with Ok (a, rest) => Ok (p ++ a, rest) | Err e => Err e end.

(** An identifier, or a string with a prefix: [s] starts with an identifier-start character. *)
Definition tok_ident (s : string) : result (token * string) :=
  let (n, rest) := span is_ident_char s in
  match rest with
  | String q _ =>
      if is_quote q then
        match prefix_kind n with
        | Some false => tok_of STRING (pre_fst n (scan_string rest))
        | Some true => Err NotImplemented
        | None => Ok ((NAME, n), rest)
        end
      else Ok ((NAME, n), rest)
  | EmptyString => Ok ((NAME, n), rest)
  end.

(** A number starting with the digit [c]. *)
Definition tok_number (c : ascii) (r : string) : result (token * string) :=
  tok_of NUMBER (cons_fst c (num_run (if Ascii.eqb c "0" then Z0 else Dec) r)).

(** After a period: a fraction, the ellipsis, or the period itself. *)
Definition tok_dot (r : string) : result (token * string) :=
  match r with
  | String d r2 =>
      if is_digit d then tok_of NUMBER (cons_fst "."%char (num_run Frac0 r))
      else if Ascii.eqb d "." then
        match r2 with
        | String d2 r3 => if Ascii.eqb d2 "." then Ok ((OP, "..."), r3) else Ok ((OP, "."), r)
        | EmptyString => Ok ((OP, "."), r)
        end
      else Ok ((OP, "."), r)
  | EmptyString => Ok ((OP, "."), r)
  end.

Definition tok_op (c : ascii) (r : string) : result (token * string) :=
  let (o, rest) := scan_op c r in Ok ((OP, o), rest).

(** [s] is non-empty and starts with neither a blank nor [#] (the caller has dealt with
    those; [OutOfFuel] marks the unreachable branches). *)
Definition next_token (s : string) : result (token * string) :=
  match s with
  | EmptyString => Err OutOfFuel
  | String c r =>
      if is_blank c || Ascii.eqb c "#" then Err OutOfFuel
      else if is_ident_start c then tok_ident s
      else if is_digit c then tok_number c r
      else if Ascii.eqb c "." then tok_dot r
      else if is_quote c then tok_of STRING (scan_string s)
      else if Ascii.eqb c "\" then Err TokenError
      else if unsupported c then Err NotImplemented
      else if negb (printable c) then Err TokenError
      else tok_op c r
  end.

(* ---- the line ---- *)
Definition MAXLEVEL : nat := 200.

(** Bracket depth after a token: opening beyond [MAXLEVEL] raises; an unmatched closing
    bracket is accepted silently in [extra_tokens] mode and closing never checks the kind. *)
Definition depth_step (d : nat) (t : token) : option nat :=
  match t with
  | (OP, "(") | (OP, "[") | (OP, "{") => if Nat.ltb d MAXLEVEL then Some (S d) else None
  | (OP, ")") | (OP, "]") | (OP, "}") => Some (Nat.pred d)
  | _ => Some d
  end.

Definition skip_blank (s : string) : string := snd (span is_blank s).

Definition cons_tok (t : token) (r : result (list token)) : result (list token) :=
  match r with Ok ts => Ok (t :: ts) | Err e => Err e end.

(** End of the line at bracket depth [d]: an open bracket means "unexpected EOF in
    multi-line statement". *)
Definition at_eol (d : nat) (ts : list token) : result (list token) :=
  if Nat.eqb d 0 then Ok ts else Err TokenError.

Fixpoint lex_body (fuel : nat) (d : nat) (s : string) : result (list token) :=
  match fuel with
  | 0 => Err OutOfFuel
  | S f =>
      match skip_blank s with
      | EmptyString => at_eol d []
      | String c _ as s1 =>
          if Ascii.eqb c "#" then
            (if all_chars (fun x => negb (unsupported x)) s1 then at_eol d [(COMMENT, s1)] else Err NotImplemented)
          else
            match next_token s1 with
            | Err e => Err e
            | Ok (t, rest) =>
                match depth_step d t with
                | None => Err TokenError
                | Some d' => cons_tok t (lex_body f d' rest)
                end
            end
      end
  end.

(** Column of the first non-blank character is > 0: some blank follows the last form feed. *)
Fixpoint indented_from (col : bool) (ws : string) : bool :=
  match ws with
  | EmptyString => col
  | String c r => indented_from (negb (Ascii.eqb c "012")) r
  end.
Definition indented (ws : string) : bool := indented_from false ws.

(** The (type, text) stream of [tokenize.tokenize] after the ENCODING token. *)
Definition lex (s : string) : result (list token) :=
  let (ws, body) := span is_blank s in
  match body with
  | EmptyString =>
      Ok (match ws with EmptyString => [(ENDMARKER, "")] | _ => [(NL, ""); (ENDMARKER, "")] end)
  | String c _ =>
      if Ascii.eqb c "#" then
        (if all_chars (fun x => negb (unsupported x)) body
         then Ok [(COMMENT, body); (NL, ""); (ENDMARKER, "")] else Err NotImplemented)
      else
        match lex_body (S (String.length body)) 0 body with
        | Err e => Err e
        | Ok ts =>
            Ok (if indented ws
                then (INDENT, ws) :: ts ++ [(NEWLINE, ""); (DEDENT, ""); (ENDMARKER, "")]
                else ts ++ [(NEWLINE, ""); (ENDMARKER, "")])%list
        end
  end.
