(** Re-lexing: the text compat-mode untokenize writes for a well-formed, operator-safe token
    list lexes back to that token list. *)
From Coq Require Import List String Ascii Bool Arith NArith Lia.
From SFC.Base Require Import Res.
From SFC.Lex Require Import Lexer Untok Wf LexProofs.
Import ListNotations.
Local Open Scope string_scope.

Lemma tkind_eqb_eq a b : tkind_eqb a b = true -> a = b.
Proof. destruct a, b; simpl; intros H; try discriminate; reflexivity. Qed.

Lemma tok_eqb_eq a b : tok_eqb a b = true -> a = b.
Proof.
  destruct a as [k v], b as [k' v']. unfold tok_eqb. simpl. intros H.
  apply andb_true_iff in H as [H1 H2]. apply tkind_eqb_eq in H1. apply String.eqb_eq in H2. now subst.
Qed.

Definition content_kind (k : tkind) : Prop := k = NAME \/ k = NUMBER \/ k = STRING \/ k = OP.

Lemma wf_tok_spec t : wf_tok t = true -> next_token (snd t) = Ok (t, "") /\ content_kind (fst t).
Proof.
  unfold wf_tok, content_kind. intros H.
  assert (K : content_kind (fst t)) by (unfold content_kind; destruct (fst t); try discriminate; auto).
  split; [|exact K].
  assert (H' : match next_token (snd t) with Ok (t', "") => tok_eqb t' t | _ => false end = true)
    by (destruct (fst t); try discriminate; exact H).
  destruct (next_token (snd t)) as [[t' rest]|e]; [|discriminate].
  destruct rest; [|discriminate]. apply tok_eqb_eq in H'. now subst.
Qed.

(* ---- one branch at a time ---- *)
Lemma tok_ident_ext k v X :
  tok_ident v = Ok ((k, v), "") ->
  (k = NAME -> exists Y, X = String " " Y) ->
  (k = STRING -> forall c, head X = Some c -> is_quote c = false) ->
  tok_ident (v ++ X) = Ok ((k, v), X).
Proof.
  unfold tok_ident. intros H HN HS.
  destruct (span is_ident_char v) as [n rest] eqn:E.
  pose proof (span_eq _ _ _ _ E) as Ev. pose proof (span_all _ _ _ _ E) as Ea.
  pose proof (span_stop _ _ _ _ E) as Es.
  destruct rest as [|q r'].
  - injection H as Hk Hv. subst k. rewrite app_nil_r_s in Ev. subst n.
    destruct (HN eq_refl) as [Y ->].
    rewrite (span_app is_ident_char v (String " " Y) Ea eq_refl). reflexivity.
  - assert (Esp : span is_ident_char (v ++ X) = (n, String q (r' ++ X))).
    { rewrite Ev, app_assoc_s. apply span_app; [exact Ea|exact Es]. }
    rewrite Esp.
    destruct (is_quote q) eqn:Q; [|discriminate H].
    destruct (prefix_kind n) as [[|]|]; [discriminate| |discriminate H].
    apply tok_of_ok in H as (a & Ha & H). injection Ha as Hk Hv. subst k a.
    apply pre_fst_ok in H as (a' & Ha' & H).
    assert (a' = String q r') by (apply (app_inv_head_s n); congruence). subst a'.
    change (String q (r' ++ X)) with (String q r' ++ X).
    rewrite (scan_string_ext q r' X H).
    + simpl. rewrite Ev. reflexivity.
    + intros Hh. specialize (HS eq_refl q Hh). congruence.
Qed.

Lemma tok_number_ext k c r Y :
  tok_number c r = Ok ((k, String c r), "") ->
  tok_number c (r ++ String " " Y) = Ok ((k, String c r), String " " Y).
Proof.
  unfold tok_number. intros H. apply tok_of_ok in H as (a & Ha & H).
  apply cons_fst_ok in H as (a' & Ha' & H). injection Ha as Hk Ha. subst k a. injection Ha' as <-.
  rewrite (num_run_ext _ _ Y H). reflexivity.
Qed.

Local Opaque num_run.
Lemma tok_dot_ext k r X :
  tok_dot r = Ok ((k, String "." r), "") ->
  (k = NUMBER -> exists Y, X = String " " Y) ->
  (k = OP -> op_follow_ok (String "." r) (head X) = true) ->
  tok_dot (r ++ X) = Ok ((k, String "." r), X).
Proof.
  unfold tok_dot. intros H HN HO.
  destruct r as [|d r2].
  - injection H as Hk. subst k. specialize (HO eq_refl). simpl.
    destruct X as [|x X]; [reflexivity|]. simpl in HO.
    apply andb_true_iff in HO as [H1 H2]. apply negb_true_iff in H1, H2. now rewrite H1, H2.
  - simpl. destruct (is_digit d) eqn:D.
    + apply tok_of_ok in H as (a & Ha & H). apply cons_fst_ok in H as (a' & Ha' & H).
      injection Ha as Hk Ha. subst k a. injection Ha' as <-. destruct (HN eq_refl) as [Y ->].
      change (String d (r2 ++ String " " Y)) with (String d r2 ++ String " " Y).
      rewrite (num_run_ext _ _ Y H). reflexivity.
    + destruct (Ascii.eqb d ".") eqn:Dd; [|discriminate H].
      destruct r2 as [|d2 r3]; [discriminate H|].
      simpl. destruct (Ascii.eqb d2 ".") eqn:D2; [|discriminate H].
      injection H as Hk H1 H2 H3. subst. apply Ascii.eqb_eq in Dd, D2. subst. reflexivity.
Qed.

Lemma scan_op_ext c r X :
  Ascii.eqb c "." = false ->
  scan_op c r = (String c r, "") -> op_follow_ok (String c r) (head X) = true ->
  scan_op c (r ++ X) = (String c r, X).
Proof.
  intros Hc H HO. unfold scan_op in *.
  destruct r as [|c2 r2].
  - simpl. destruct X as [|x X]; [reflexivity|]. simpl in HO. rewrite Hc in HO.
    apply negb_true_iff in HO. now rewrite HO.
  - simpl. destruct (two_char c c2) eqn:T2.
    + destruct r2 as [|c3 r3].
      * simpl. destruct X as [|x X]; [reflexivity|]. simpl in HO. apply negb_true_iff in HO. now rewrite HO.
      * simpl. destruct (three_char c c2 c3) eqn:T3.
        -- injection H as H1 H2. subst. reflexivity.
        -- injection H as H1 H2. discriminate.
    + injection H as H1 H2. discriminate.
Qed.

Lemma tok_op_ext k c r X :
  Ascii.eqb c "." = false ->
  tok_op c r = Ok ((k, String c r), "") -> op_follow_ok (String c r) (head X) = true ->
  tok_op c (r ++ X) = Ok ((k, String c r), X).
Proof.
  unfold tok_op. intros Hc H HO. destruct (scan_op c r) as [o rest] eqn:E.
  injection H as Hk Ho Hr. subst. now rewrite (scan_op_ext _ _ _ Hc E HO).
Qed.

(** What may follow a token's text in the spelled-out line. *)
Definition follows (k : tkind) (v X : string) : Prop :=
  match k with
  | NAME | NUMBER => exists Y, X = String " " Y
  | STRING => forall c, head X = Some c -> is_quote c = false
  | OP => op_follow_ok v (head X) = true
  | _ => False
  end.

Lemma next_token_ext k v X :
  next_token v = Ok ((k, v), "") -> follows k v X -> next_token (v ++ X) = Ok ((k, v), X).
Proof.
  intros H HF. destruct v as [|c r]; [discriminate|].
  change (String c r ++ X) with (String c (r ++ X)). unfold next_token in *.
  destruct (is_blank c || Ascii.eqb c "#"); [discriminate|].
  destruct (is_ident_start c).
  { change (String c (r ++ X)) with (String c r ++ X). apply tok_ident_ext; [exact H| |].
    - intros ->. exact HF.
    - intros ->. exact HF. }
  destruct (is_digit c).
  { assert (k = NUMBER) by (unfold tok_number in H; apply tok_of_ok in H as (a & Ha & _); congruence).
    subst k. destruct HF as [Y ->]. now apply tok_number_ext. }
  destruct (Ascii.eqb c ".") eqn:Ec.
  { apply Ascii.eqb_eq in Ec. subst c. apply tok_dot_ext; [exact H| |]; intros ->; exact HF. }
  destruct (is_quote c) eqn:Q.
  { apply tok_of_ok in H as (a & Ha & H). injection Ha as Hk Ha. subst k a.
    change (String c (r ++ X)) with (String c r ++ X). rewrite (scan_string_ext c r X H); [reflexivity|].
    intros Hh. specialize (HF c Hh). congruence. }
  destruct (Ascii.eqb c "\"); [discriminate|].
  destruct (unsupported c); [discriminate|].
  destruct (negb (printable c)); [discriminate|].
  assert (k = OP) by (unfold tok_op in H; destruct (scan_op c r); congruence). subst k.
  apply tok_op_ext; assumption.
Qed.

(* ---- the line ---- *)
Lemma skip_blank_nonblank c r : is_blank c = false -> skip_blank (String c r) = String c r.
Proof. intros H. unfold skip_blank. simpl. now rewrite H. Qed.

Lemma skip_blank_blank c r : is_blank c = true -> skip_blank (String c r) = skip_blank r.
Proof. intros H. unfold skip_blank. simpl. rewrite H. now destruct (span is_blank r). Qed.

Lemma lex_body_blank fuel d c Y : is_blank c = true -> lex_body fuel d (String c Y) = lex_body fuel d Y.
Proof. intros H. destruct fuel; [reflexivity|]. cbn [lex_body]. now rewrite (skip_blank_blank _ _ H). Qed.

Lemma lex_body_step f d c r t rest d1 :
  is_blank c = false -> Ascii.eqb c "#" = false ->
  next_token (String c r) = Ok (t, rest) -> depth_step d t = Some d1 ->
  lex_body (S f) d (String c r) = cons_tok t (lex_body f d1 rest).
Proof.
  intros Hb Hh Hn Hd. cbn [lex_body]. rewrite (skip_blank_nonblank _ _ Hb), Hh, Hn, Hd. reflexivity.
Qed.

Definition tail_ok (tail : string) : Prop := tail = "" \/ exists r, tail = String "#" r.

Lemma lex_body_tail fuel d tail : tail_ok tail -> lex_body (S fuel) d tail = lex_body 1 d tail.
Proof.
  intros [->|[r ->]]; [reflexivity|]. cbn [lex_body].
  rewrite (skip_blank_nonblank "#" r eq_refl). reflexivity.
Qed.

Lemma wf_first k v : wf_tok (k, v) = true ->
  exists c r, v = String c r /\ is_blank c = false /\ Ascii.eqb c "#" = false.
Proof.
  intros H. apply wf_tok_spec in H as [H _]. simpl in H.
  destruct v as [|c r]; [discriminate|]. exists c, r. split; [reflexivity|].
  unfold next_token in H. destruct (is_blank c) eqn:B; [discriminate|]. simpl in H.
  destruct (Ascii.eqb c "#"); [discriminate|]. auto.
Qed.

Lemma quote_class c : is_quote c = true ->
  is_blank c = false /\ Ascii.eqb c "#" = false /\ is_ident_start c = false /\ is_digit c = false /\ Ascii.eqb c "." = false.
Proof. destruct c as [[] [] [] [] [] [] [] []]; intros H; try discriminate H; repeat split; reflexivity. Qed.

Lemma wf_nonstring_first k v c : wf_tok (k, v) = true -> k <> STRING -> head v = Some c -> is_quote c = false.
Proof.
  intros H Hk Hh. apply wf_tok_spec in H as [H _]. simpl in H.
  destruct v as [|c' r]; [discriminate|]. injection Hh as ->.
  destruct (is_quote c) eqn:Q; [|reflexivity]. exfalso.
  destruct (quote_class _ Q) as (B & Hs & I & D & P).
  unfold next_token in H. rewrite B, Hs, I, D, P, Q in H. simpl in H.
  apply tok_of_ok in H as (a & Ha & _). congruence.
Qed.

Lemma op_follow_hash o : op_follow_ok o (Some "#"%char) = true.
Proof.
  destruct o as [|c [|c2 [|c3 o]]]; simpl; try reflexivity.
  destruct (Ascii.eqb c "."); reflexivity.
Qed.

Lemma head_tail_ok tail c : tail_ok tail -> head tail = Some c -> c = "#"%char.
Proof. intros [->|[r ->]] H; simpl in H; congruence. Qed.

Lemma head_spell_false k v r tail : wf_tok (k, v) = true ->
  head (spell false ((k, v) :: r) ++ tail) = head v.
Proof.
  intros H. destruct (wf_first _ _ H) as (c & r' & -> & _).
  apply wf_tok_spec in H as [_ K]. simpl in K.
  destruct K as [->|[->|[->| ->]]]; reflexivity.
Qed.

Lemma head_spell_true body tail c :
  Forall (fun t => wf_tok t = true) body -> tail_ok tail ->
  head (spell true body ++ tail) = Some c -> is_quote c = false.
Proof.
  intros HF HT Hh. destruct body as [|[k v] r].
  - simpl in Hh. now rewrite (head_tail_ok _ _ HT Hh).
  - inversion HF as [|? ? Hw _]; subst.
    destruct (wf_first _ _ Hw) as (c' & r' & -> & _).
    pose proof (wf_tok_spec _ Hw) as [_ K]. simpl in K.
    destruct K as [->|[->|[->| ->]]]; simpl in Hh; injection Hh as <-;
      try (apply (wf_nonstring_first _ _ _ Hw); [discriminate|reflexivity]).
    reflexivity.
Qed.

Lemma cons_tok_match t (x : result (list token)) body :
  cons_tok t (match x with Ok r => Ok (body ++ r)%list | Err e => Err e end) =
  match x with Ok r => Ok ((t :: body) ++ r)%list | Err e => Err e end.
Proof. destruct x; reflexivity. Qed.

Lemma lex_body_spell : forall body ps d d' fuel tail,
  Forall (fun t => wf_tok t = true) body -> ops_safe body = true ->
  tail_ok tail -> depth_run d body = Some d' ->
  String.length (spell ps body ++ tail) < fuel ->
  lex_body fuel d (spell ps body ++ tail) =
  match lex_body 1 d' tail with Ok r => Ok (body ++ r)%list | Err e => Err e end.
Proof.
  induction body as [|[k v] body IH]; intros ps d d' fuel tail HF HO HT HD HL.
  - cbn [spell append depth_run] in *. injection HD as <-. destruct fuel; [lia|]. rewrite (lex_body_tail _ _ _ HT).
    destruct (lex_body 1 d tail); reflexivity.
  - inversion HF as [|? ? Hw HF']; subst.
    destruct (wf_first _ _ Hw) as (c & r & Ev & Hb & Hh).
    pose proof (wf_tok_spec _ Hw) as [Hn K]. simpl in Hn, K.
    cbn [depth_run] in HD. destruct (depth_step d (k, v)) as [d1|] eqn:Ed; [|discriminate].
    assert (HO' : ops_safe body = true).
    { destruct body as [|t2 b]; [reflexivity|]. cbn [ops_safe] in HO. now apply andb_true_iff in HO as [_ HO]. }
    (* what follows the token text, and the state of the spelling after it *)
    set (ps' := match k with STRING => true | _ => false end).
    set (Z := spell ps' body ++ tail).
    assert (Hgo : forall X f, follows k v X -> S (String.length X) <= f ->
              (forall f', String.length Z < f' -> lex_body f' d1 X = lex_body f' d1 Z) ->
              String.length Z <= String.length X ->
              lex_body (S f) d (v ++ X) =
              match lex_body 1 d' tail with Ok r0 => Ok (((k, v) :: body) ++ r0)%list | Err e => Err e end).
    { intros X f HX Hf Hskip Hlen. replace (v ++ X) with (String c (r ++ X)) by (rewrite Ev; reflexivity).
      rewrite (lex_body_step f d c (r ++ X) (k, v) X d1 Hb Hh); [| |exact Ed].
      - rewrite Hskip by lia. unfold Z. rewrite (IH ps' d1 d' f tail HF' HO' HT HD) by (fold Z; lia).
        apply cons_tok_match.
      - change (String c (r ++ X)) with (String c r ++ X). rewrite <- Ev. now apply next_token_ext. }
    destruct fuel as [|f]; [lia|].
    assert (Lv : String.length v = S (String.length r)) by (rewrite Ev; reflexivity).
    destruct K as [->|[->|[->| ->]]]; subst ps'.
    + (* NAME *)
      assert (Es : spell ps (@cons token (NAME, v) body) ++ tail = v ++ String " " Z)
        by (cbn [spell]; rewrite !app_assoc_s; reflexivity).
      rewrite Es in HL |- *. rewrite length_app_s in HL. cbn [String.length] in HL. apply Hgo.
      * eexists; reflexivity.
      * cbn [String.length]. lia.
      * intros f' _. apply (lex_body_blank f' d1 " " Z eq_refl).
      * cbn [String.length]. lia.
    + (* NUMBER *)
      assert (Es : spell ps (@cons token (NUMBER, v) body) ++ tail = v ++ String " " Z)
        by (cbn [spell]; rewrite !app_assoc_s; reflexivity).
      rewrite Es in HL |- *. rewrite length_app_s in HL. cbn [String.length] in HL. apply Hgo.
      * eexists; reflexivity.
      * cbn [String.length]. lia.
      * intros f' _. apply (lex_body_blank f' d1 " " Z eq_refl).
      * cbn [String.length]. lia.
    + (* STRING *)
      assert (HX : follows STRING v Z) by (intros c0 Hc0; eapply head_spell_true; eauto).
      destruct ps.
      * assert (Es : spell true (@cons token (STRING, v) body) ++ tail = String " " (v ++ Z))
          by (cbn [spell]; rewrite !app_assoc_s; reflexivity).
        rewrite Es in HL |- *. cbn [String.length] in HL. rewrite length_app_s in HL.
        rewrite (lex_body_blank (S f) d " " _ eq_refl). apply Hgo; auto. lia.
      * assert (Es : spell false (@cons token (STRING, v) body) ++ tail = v ++ Z)
          by (cbn [spell]; rewrite !app_assoc_s; reflexivity).
        rewrite Es in HL |- *. rewrite length_app_s in HL. apply Hgo; auto. lia.
    + (* OP *)
      assert (Es : spell ps (@cons token (OP, v) body) ++ tail = v ++ Z)
        by (cbn [spell]; rewrite !app_assoc_s; reflexivity).
      rewrite Es in HL |- *. rewrite length_app_s in HL. apply Hgo; auto; [|lia].
      unfold follows, Z. destruct body as [|[k2 v2] b].
      * simpl. destruct (head tail) eqn:Eh; [|reflexivity].
        rewrite (head_tail_ok _ _ HT Eh). apply op_follow_hash.
      * inversion HF' as [|? ? Hw2 _]; subst. rewrite (head_spell_false _ _ _ _ Hw2).
        cbn [ops_safe] in HO. apply andb_true_iff in HO as [HO _]. exact HO.
Qed.

(* ---- untokenize on a content list ---- *)
Fixpoint ps_after (ps : bool) (ts : list token) : bool :=
  match ts with [] => ps | t :: r => ps_after (match fst t with STRING => true | _ => false end) r end.

Lemma untok_go_body : forall body ind ps rest,
  Forall (fun t => content_kind (fst t)) body ->
  untok_go ind false ps (body ++ rest) = spell ps body ++ untok_go ind false (ps_after ps body) rest.
Proof.
  induction body as [|[k v] body IH]; intros ind ps rest HF; [reflexivity|].
  inversion HF as [|? ? K HF']; subst. simpl in K.
  destruct K as [->|[->|[->| ->]]]; cbn [untok_go spell ps_after app fst]; rewrite (IH _ _ _ HF');
    rewrite ?app_assoc_s; reflexivity.
Qed.

Definition comment_text (c : option string) : string := match c with Some s => s | None => "" end.

Lemma Forall_wf_kind body : Forall (fun t => wf_tok t = true) body -> Forall (fun t => content_kind (fst t)) body.
Proof. intros H. eapply Forall_impl; [|exact H]. intros t Ht. now apply wf_tok_spec in Ht as [_ K]. Qed.

Lemma untok_line body cmt :
  Forall (fun t => wf_tok t = true) body ->
  untok (line body cmt) = spell false body ++ comment_text cmt.
Proof.
  intros HF. unfold untok, line.
  assert (G : untok_go [] false false (body ++ comment_toks cmt ++ [(NEWLINE, ""); (ENDMARKER, "")])
              = spell false body ++ comment_text cmt).
  { rewrite (untok_go_body body [] false _ (Forall_wf_kind _ HF)).
    destruct cmt as [c|]; simpl; rewrite ?app_nil_r_s; reflexivity. }
  destruct body as [|t b]; [|exact G].
  destruct cmt as [c|]; simpl; rewrite ?app_nil_r_s; reflexivity.
Qed.

Lemma lex_nonblank c r : is_blank c = false -> Ascii.eqb c "#" = false ->
  lex (String c r) =
  match lex_body (S (String.length (String c r))) 0 (String c r) with
  | Err e => Err e
  | Ok ts => Ok (ts ++ [(NEWLINE, ""); (ENDMARKER, "")])%list
  end.
Proof. intros Hb Hh. unfold lex. rewrite (span_first_false _ _ _ Hb), Hh. reflexivity. Qed.

Lemma tail_ok_comment cmt : wf_comment cmt = true -> tail_ok (comment_text cmt).
Proof.
  destruct cmt as [[|c r]|]; simpl; intros H; try discriminate; [|now left].
  right. exists r. f_equal.
  destruct c as [[] [] [] [] [] [] [] []]; try discriminate H; reflexivity.
Qed.

Lemma lex_body_comment cmt : wf_comment cmt = true -> lex_body 1 0 (comment_text cmt) = Ok (comment_toks cmt).
Proof.
  intros H. destruct (tail_ok_comment _ H) as [E|[r E]].
  - rewrite E. destruct cmt as [c|]; [|reflexivity]. simpl in E. subst c. discriminate H.
  - destruct cmt as [c|]; [|discriminate E]. simpl in E. subst c. simpl comment_text.
    cbn [lex_body]. rewrite (skip_blank_nonblank "#" r eq_refl). cbn [Ascii.eqb Bool.eqb].
    simpl in H. cbn [all_chars]. rewrite H. reflexivity.
Qed.

Theorem relex_line body cmt :
  wf_body body = true -> wf_comment cmt = true -> lex (untok (line body cmt)) = Ok (line body cmt).
Proof.
  unfold wf_body. intros HB HC.
  apply andb_true_iff in HB as [HB HD]. apply andb_true_iff in HB as [HF HO].
  assert (HF' : Forall (fun t => wf_tok t = true) body) by (apply Forall_forall; exact (proj1 (forallb_forall _ _) HF)).
  rewrite (untok_line _ _ HF').
  destruct (depth_run 0 body) as [[|d']|] eqn:ED; try discriminate HD.
  destruct body as [|[k v] b].
  - (* no content tokens *)
    simpl. destruct cmt as [c|]; [|reflexivity]. simpl.
    destruct (tail_ok_comment _ HC) as [E|[r E]]; simpl in E; subst c; [discriminate HC|].
    unfold lex. rewrite (span_first_false is_blank "#" r eq_refl). cbn [Ascii.eqb Bool.eqb].
    simpl in HC. cbn [all_chars]. rewrite HC. reflexivity.
  - inversion HF' as [|? ? Hw _]; subst.
    destruct (wf_first _ _ Hw) as (c & r & Ev & Hb & Hh).
    assert (Es : exists r0, spell false (@cons token (k, v) b) ++ comment_text cmt = String c r0).
    { pose proof (wf_tok_spec _ Hw) as [_ K]. simpl in K. rewrite Ev.
      destruct K as [->|[->|[->| ->]]]; cbn [spell append]; eexists; reflexivity. }
    destruct Es as [r0 Es]. rewrite Es. rewrite (lex_nonblank _ _ Hb Hh). rewrite <- Es.
    rewrite (lex_body_spell _ false 0 0 _ _ HF' HO (tail_ok_comment _ HC) ED) by lia.
    rewrite (lex_body_comment _ HC). unfold line. rewrite <- app_assoc. reflexivity.
Qed.
