(** Value preservation of a non-merging renaming, over the expression AST of Base/Expr.v. *)
From Coq Require Import List String Bool PrimFloat Reals Lra.
From SFC.Base Require Import Res Expr.
From SFC.Lex Require Import Lexer Untok HygieneProofs.
Import ListNotations.
Local Open Scope string_scope.

Definition inj_on (f : string -> string) (l : list string) : Prop :=
  forall x y, List.In x l -> List.In y l -> f x = f y -> x = y.

Lemma names_rename {L} (f : string -> string) (e : expr L) : names (rename f e) = map f (names e).
Proof. induction e; simpl; rewrite ?map_app; congruence. Qed.

Lemma value_R {L} (lit : L -> R) (f : string -> string) (e : expr L) (rho rho' : string -> R) :
  (forall x, List.In x (names e) -> rho' (f x) = rho x) ->
  evalR lit rho' (rename f e) = evalR lit rho e.
Proof. intros H. rewrite evalR_rename. apply evalR_ext. exact H. Qed.

Lemma value_F (f : string -> string) (e : expr float) (rho rho' : string -> option float) :
  (forall x, List.In x (names e) -> rho' (f x) = rho x) ->
  evalF rho' (rename f e) = evalF rho e.
Proof. intros H. rewrite evalF_rename. apply evalF_ext. exact H. Qed.

(** A renaming that does not merge two names of the expression admits a renamed environment. *)
Lemma env_exists {A} (f : string -> string) (l : list string) (rho : string -> A) :
  inj_on f l -> exists rho', forall x, List.In x l -> rho' (f x) = rho x.
Proof.
  intros Hinj.
  exists (fun y => match find (fun x => String.eqb (f x) y) l with Some x => rho x | None => rho y end).
  intros x Hx. destruct (find (fun x0 => String.eqb (f x0) (f x)) l) as [x0|] eqn:E.
  - apply find_some in E as [Hin He]. apply String.eqb_eq in He. now rewrite (Hinj x0 x Hin Hx He).
  - exfalso. pose proof (find_none _ _ E x Hx) as Hn. simpl in Hn. now rewrite String.eqb_refl in Hn.
Qed.

(** Merging two names can change the value: x - y with x := y. *)
Lemma merge_changes_value :
  let e : expr unit := ESub (EVar "x") (EVar "y") in
  let f := mfun [("x", "y")] in
  let rho := fun v : string => if String.eqb v "x" then 1%R else 0%R in
  ~ inj_on f (names e) /\ forall rho', evalR (fun _ => 0%R) rho' (rename f e) <> evalR (fun _ => 0%R) rho e.
Proof.
  cbv zeta. split.
  - intros H. specialize (H "x" "y"). simpl in H.
    assert (E : "x" = "y") by (apply H; auto). discriminate E.
  - intros rho'. simpl. unfold mfun. simpl. lra.
Qed.
