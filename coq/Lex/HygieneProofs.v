(** Facts about the renaming of token lists, maximal munch for names, and the re-lexing of
    renamed lines. *)
From Coq Require Import List String Ascii Bool Arith NArith Lia.
From SFC.Base Require Import Res.
From SFC.Lex Require Import Lexer Untok Wf LexProofs RelexProofs.
Import ListNotations.
Local Open Scope string_scope.

(* ---- the renaming touches NAME tokens in the domain, once ---- *)
Lemma ren_kind m t : fst (ren m t) = fst t.
Proof. destruct t as [[] v]; simpl; try reflexivity. destruct (assoc v m); reflexivity. Qed.

Lemma ren_other m t : fst t <> NAME -> ren m t = t.
Proof. destruct t as [[] v]; simpl; intros H; try reflexivity. congruence. Qed.

Lemma ren_name_in m v w : assoc v m = Some w -> ren m (NAME, v) = (NAME, w).
Proof. simpl. now intros ->. Qed.

Lemma ren_name_out m v : assoc v m = None -> ren m (NAME, v) = (NAME, v).
Proof. simpl. now intros ->. Qed.

Lemma ren_swap a b : a <> b ->
  ren [(a, b); (b, a)] (NAME, a) = (NAME, b) /\ ren [(a, b); (b, a)] (NAME, b) = (NAME, a).
Proof.
  intros H. simpl. rewrite !String.eqb_refl.
  destruct (String.eqb_spec b a) as [E|_]; [congruence|]. auto.
Qed.

Lemma ren1_ren a b t : ren1 a b t = ren [(a, b)] t.
Proof. destruct t as [[] v]; simpl; try reflexivity. destruct (String.eqb v a); reflexivity. Qed.

Lemma replace_token_single s a b : replace_token s a b = replace_lookup [(a, b)] s.
Proof.
  unfold replace_token, replace_lookup. destruct (lex s) as [ts|e]; [|reflexivity].
  f_equal. f_equal. apply map_ext. intros t. apply ren1_ren.
Qed.

(** The function a lookup denotes on names. *)
Definition mfun (m : list (string * string)) (x : string) : string :=
  match assoc x m with Some w => w | None => x end.

Lemma names_of_ren m ts : names_of (map (ren m) ts) = map (mfun m) (names_of ts).
Proof.
  unfold names_of. induction ts as [|[k v] ts IH]; [reflexivity|].
  destruct k; simpl; try exact IH.
  unfold mfun. destruct (assoc v m); simpl; now rewrite IH.
Qed.

(* ---- maximal munch for names ---- *)
Lemma ident_start_class c : is_ident_start c = true ->
  is_blank c = false /\ Ascii.eqb c "#" = false /\ is_ident_char c = true /\ is_quote c = false /\
  is_digit c = false /\ Ascii.eqb c "." = false.
Proof. destruct c as [[] [] [] [] [] [] [] []]; intros H; try discriminate H; repeat split; reflexivity. Qed.

Lemma ident_shaped_all n : ident_shaped n = true -> all_chars is_ident_char n = true.
Proof.
  destruct n as [|c r]; [discriminate|]. simpl. intros H. apply andb_true_iff in H as [H1 H2].
  destruct (ident_start_class _ H1) as (_ & _ & -> & _). exact H2.
Qed.

(** An identifier-shaped text followed by nothing, or by a character that cannot continue an
    identifier (and is not a quote after a string prefix), is read as that one NAME. *)
Lemma name_munch n X :
  ident_shaped n = true ->
  match X with
  | EmptyString => True
  | String c _ => is_ident_char c = false /\ (is_quote c = true -> prefix_kind n = None)
  end ->
  next_token (n ++ X) = Ok ((NAME, n), X).
Proof.
  intros Hn HX. pose proof (ident_shaped_all _ Hn) as Ha.
  destruct n as [|c r]; [discriminate|]. simpl in Hn. apply andb_true_iff in Hn as [Hs _].
  destruct (ident_start_class _ Hs) as (Hb & Hh & _).
  change (String c r ++ X) with (String c (r ++ X)). unfold next_token.
  rewrite Hb, Hh, Hs. simpl orb. cbv iota.
  change (String c (r ++ X)) with (String c r ++ X). unfold tok_ident.
  rewrite (span_app is_ident_char (String c r) X Ha).
  - destruct X as [|x X]; [reflexivity|]. destruct HX as [_ HX].
    destruct (is_quote x); [|reflexivity]. now rewrite (HX eq_refl).
  - destruct X as [|x X]; [exact I|]. apply HX.
Qed.

Lemma lex_starts_with_name n X ts :
  ident_shaped n = true ->
  match X with
  | EmptyString => True
  | String c _ => is_ident_char c = false /\ (is_quote c = true -> prefix_kind n = None)
  end ->
  lex (n ++ X) = Ok ts -> exists ts', ts = (NAME, n) :: ts'.
Proof.
  intros Hn HX H. pose proof (name_munch n X Hn HX) as Hm.
  destruct n as [|c r]; [discriminate|]. simpl in Hn. apply andb_true_iff in Hn as [Hs _].
  destruct (ident_start_class _ Hs) as (Hb & Hh & _).
  change (String c r ++ X) with (String c (r ++ X)) in *.
  rewrite (lex_nonblank _ _ Hb Hh) in H.
  rewrite (lex_body_step _ 0 c (r ++ X) (NAME, String c r) X 0 Hb Hh Hm eq_refl) in H.
  destruct (lex_body _ 0 X) as [l|e]; simpl in H; [|discriminate].
  injection H as <-. eexists; reflexivity.
Qed.

(* ---- renaming preserves well-formedness ---- *)
Definition ident_range (m : list (string * string)) : bool := forallb (fun p => ident_shaped (snd p)) m.

Lemma assoc_range m v w : ident_range m = true -> assoc v m = Some w -> ident_shaped w = true.
Proof.
  induction m as [|[k x] m IH]; simpl; [discriminate|]. intros H. apply andb_true_iff in H as [H1 H2].
  destruct (String.eqb v k); [intros E; injection E as <-; exact H1|auto].
Qed.

Lemma tok_eqb_refl t : tok_eqb t t = true.
Proof. destruct t as [k v]. unfold tok_eqb. simpl. rewrite String.eqb_refl. now destruct k. Qed.

Lemma ident_wf w : ident_shaped w = true -> wf_tok (NAME, w) = true.
Proof.
  intros H. unfold wf_tok. simpl. pose proof (name_munch w "" H I) as Hm. rewrite app_nil_r_s in Hm.
  rewrite Hm. apply tok_eqb_refl.
Qed.

Lemma wf_tok_ren m t : ident_range m = true -> wf_tok t = true -> wf_tok (ren m t) = true.
Proof.
  intros Hm Ht. destruct t as [k v]. destruct k; try exact Ht. simpl.
  destruct (assoc v m) as [w|] eqn:E; [|exact Ht]. apply ident_wf. eapply assoc_range; eauto.
Qed.

Lemma op_follow_ident o c : is_ident_start c = true -> op_follow_ok o (Some c) = true.
Proof.
  intros H. destruct o as [|a [|a2 [|a3 o]]]; try reflexivity.
  - unfold op_follow_ok. destruct (Ascii.eqb a ".");
      destruct c as [[] [] [] [] [] [] [] []]; try discriminate H; reflexivity.
  - unfold op_follow_ok. destruct c as [[] [] [] [] [] [] [] []]; try discriminate H; reflexivity.
Qed.

Lemma wf_name_head v : wf_tok (NAME, v) = true -> exists c, head v = Some c /\ is_ident_start c = true.
Proof.
  intros H. apply wf_tok_spec in H as [H _]. simpl in H.
  destruct v as [|c r]; [discriminate|]. exists c. split; [reflexivity|].
  unfold next_token in H. destruct (is_blank c || Ascii.eqb c "#"); [discriminate|].
  destruct (is_ident_start c); [reflexivity|]. exfalso.
  destruct (is_digit c).
  { unfold tok_number in H. apply tok_of_ok in H as (a & Ha & _). discriminate. }
  destruct (Ascii.eqb c ".").
  { unfold tok_dot in H. destruct r as [|d r2]; [discriminate|].
    destruct (is_digit d); [apply tok_of_ok in H as (a & Ha & _); discriminate|].
    destruct (Ascii.eqb d "."); [|discriminate]. destruct r2 as [|d2 r3]; [discriminate|].
    destruct (Ascii.eqb d2 "."); discriminate. }
  destruct (is_quote c); [apply tok_of_ok in H as (a & Ha & _); discriminate|].
  destruct (Ascii.eqb c "\"); [discriminate|]. destruct (unsupported c); [discriminate|].
  destruct (negb (printable c)); [discriminate|].
  unfold tok_op in H. destruct (scan_op c r). discriminate.
Qed.

Lemma head_ren m t c :
  ident_range m = true -> wf_tok t = true -> head (snd (ren m t)) = Some c ->
  head (snd t) = Some c \/ is_ident_start c = true.
Proof.
  intros Hm Ht Hh. destruct t as [k v]. destruct k; try (left; exact Hh). simpl in Hh.
  destruct (assoc v m) as [w|] eqn:E; [|left; exact Hh]. right.
  pose proof (assoc_range _ _ _ Hm E) as Hw. destruct w as [|c' r]; [discriminate|].
  simpl in Hh. injection Hh as <-. simpl in Hw. now apply andb_true_iff in Hw as [Hw _].
Qed.

Lemma ops_safe_ren m ts :
  ident_range m = true -> Forall (fun t => wf_tok t = true) ts -> ops_safe ts = true ->
  ops_safe (map (ren m) ts) = true.
Proof.
  intros Hm. induction ts as [|t1 ts IH]; intros HF HO; [reflexivity|].
  inversion HF as [|? ? Hw1 HF1]; subst.
  destruct ts as [|t2 ts]; [reflexivity|].
  inversion HF1 as [|? ? Hw2 _]; subst.
  cbn [ops_safe] in HO. apply andb_true_iff in HO as [H1 H2].
  change (map (ren m) (t1 :: t2 :: ts)) with (ren m t1 :: ren m t2 :: map (ren m) ts).
  cbn [ops_safe]. apply andb_true_iff. split.
  - rewrite ren_kind. destruct (fst t1) eqn:K; try reflexivity.
    rewrite (ren_other m t1) by congruence.
    destruct (head (snd (ren m t2))) as [c|] eqn:Eh; [|reflexivity].
    destruct (head_ren _ _ _ Hm Hw2 Eh) as [E|E]; [now rewrite <- E|now apply op_follow_ident].
  - apply (IH HF1 H2).
Qed.

Lemma depth_step_ren m d t : depth_step d (ren m t) = depth_step d t.
Proof. destruct t as [[] v]; simpl; try reflexivity. destruct (assoc v m); reflexivity. Qed.

Lemma depth_run_ren m ts d : depth_run d (map (ren m) ts) = depth_run d ts.
Proof.
  revert d. induction ts as [|t ts IH]; intros d; [reflexivity|].
  cbn [map depth_run]. rewrite depth_step_ren. destruct (depth_step d t); auto.
Qed.

Lemma wf_body_ren m body : ident_range m = true -> wf_body body = true -> wf_body (map (ren m) body) = true.
Proof.
  unfold wf_body. intros Hm H. apply andb_true_iff in H as [H HD]. apply andb_true_iff in H as [HF HO].
  assert (HF' : Forall (fun t => wf_tok t = true) body) by (apply Forall_forall; exact (proj1 (forallb_forall _ _) HF)).
  rewrite depth_run_ren, HD, (ops_safe_ren _ _ Hm HF' HO), !andb_true_r.
  apply forallb_forall. intros t Ht. apply in_map_iff in Ht as (t0 & <- & Ht0).
  apply wf_tok_ren; [exact Hm|]. exact (proj1 (forallb_forall _ _) HF t0 Ht0).
Qed.

Lemma map_ren_line m body cmt : map (ren m) (line body cmt) = line (map (ren m) body) cmt.
Proof.
  unfold line. destruct body as [|t b].
  - destruct cmt; reflexivity.
  - cbn [map]. rewrite !map_app. destruct cmt; reflexivity.
Qed.

(** Re-lexing the untokenized renamed line gives the renamed line. *)
Theorem relex_renamed m body cmt :
  wf_body body = true -> wf_comment cmt = true -> ident_range m = true ->
  lex (untok (map (ren m) (line body cmt))) = Ok (map (ren m) (line body cmt)).
Proof.
  intros HB HC Hm. rewrite map_ren_line. apply relex_line; [|exact HC]. now apply wf_body_ren.
Qed.

(* ---- the shape of what [lex] returns; indentation bookkeeping is invisible to untokenize ---- *)
Definition body_kind (k : tkind) : Prop := content_kind k \/ k = COMMENT.

Lemma next_token_kind s t rest : next_token s = Ok (t, rest) -> content_kind (fst t).
Proof.
  unfold next_token, content_kind. destruct s as [|c r]; [discriminate|].
  destruct (is_blank c || Ascii.eqb c "#"); [discriminate|].
  destruct (is_ident_start c).
  { unfold tok_ident. destruct (span is_ident_char (String c r)) as [n rest'].
    destruct rest' as [|q r'].
    - intros H. injection H as <- _. simpl. auto.
    - destruct (is_quote q); [|intros H; injection H as <- _; simpl; auto].
      destruct (prefix_kind n) as [[|]|]; [discriminate| |intros H; injection H as <- _; simpl; auto].
      intros H. apply tok_of_ok in H as (a & -> & _). simpl. auto. }
  destruct (is_digit c).
  { unfold tok_number. intros H. apply tok_of_ok in H as (a & -> & _). simpl. auto. }
  destruct (Ascii.eqb c ".").
  { unfold tok_dot. destruct r as [|d r2]; [intros H; injection H as <- _; simpl; auto|].
    destruct (is_digit d); [intros H; apply tok_of_ok in H as (a & -> & _); simpl; auto|].
    destruct (Ascii.eqb d "."); [|intros H; injection H as <- _; simpl; auto].
    destruct r2 as [|d2 r3]; [intros H; injection H as <- _; simpl; auto|].
    destruct (Ascii.eqb d2 "."); intros H; injection H as <- _; simpl; auto. }
  destruct (is_quote c); [intros H; apply tok_of_ok in H as (a & -> & _); simpl; auto|].
  destruct (Ascii.eqb c "\"); [discriminate|]. destruct (unsupported c); [discriminate|].
  destruct (negb (printable c)); [discriminate|].
  unfold tok_op. destruct (scan_op c r). intros H. injection H as <- _. simpl. auto.
Qed.

Lemma lex_body_kinds : forall fuel d s ts, lex_body fuel d s = Ok ts -> Forall (fun t => body_kind (fst t)) ts.
Proof.
  induction fuel as [|f IH]; intros d s ts H; [discriminate|].
  cbn [lex_body] in H. destruct (skip_blank s) as [|c r] eqn:E.
  - unfold at_eol in H. destruct (Nat.eqb d 0); [|discriminate]. injection H as <-. constructor.
  - destruct (Ascii.eqb c "#").
    + destruct (all_chars _ _); [|discriminate]. unfold at_eol in H.
      destruct (Nat.eqb d 0); [|discriminate]. injection H as <-. constructor; [right; reflexivity|constructor].
    + destruct (next_token (String c r)) as [[t rest]|e] eqn:En; [|discriminate].
      destruct (depth_step d t) as [d'|]; [|discriminate].
      destruct (lex_body f d' rest) as [l|e] eqn:El; [|discriminate]. simpl in H. injection H as <-.
      constructor; [left; eapply next_token_kind; eauto|eapply IH; eauto].
Qed.

Inductive lex_shape (ts : list token) : Prop :=
| shape_empty : ts = [(ENDMARKER, "")] -> lex_shape ts
| shape_blank : ts = [(NL, ""); (ENDMARKER, "")] -> lex_shape ts
| shape_comment c : ts = [(COMMENT, c); (NL, ""); (ENDMARKER, "")] -> lex_shape ts
| shape_line l : Forall (fun t => body_kind (fst t)) l ->
    ts = (l ++ [(NEWLINE, ""); (ENDMARKER, "")])%list -> lex_shape ts
| shape_indented ws l : Forall (fun t => body_kind (fst t)) l ->
    ts = ((INDENT, ws) :: l ++ [(NEWLINE, ""); (DEDENT, ""); (ENDMARKER, "")])%list -> lex_shape ts.

Lemma lex_has_shape s ts : lex s = Ok ts -> lex_shape ts.
Proof.
  unfold lex. destruct (span is_blank s) as [ws body]. destruct body as [|c r].
  - intros H. injection H as <-. destruct ws; [now apply shape_empty|now apply shape_blank].
  - destruct (Ascii.eqb c "#").
    + destruct (all_chars _ _); [|discriminate]. intros H. injection H as <-. now eapply shape_comment.
    + destruct (lex_body _ 0 (String c r)) as [l|e] eqn:E; [|discriminate].
      pose proof (lex_body_kinds _ _ _ _ E) as K. intros H. injection H as <-.
      destruct (indented ws); [eapply shape_indented; [exact K|reflexivity]|eapply shape_line; [exact K|reflexivity]].
Qed.

Lemma untok_go_kinds : forall body ind ps rest,
  Forall (fun t => body_kind (fst t)) body ->
  untok_go ind false ps (body ++ rest) = spell ps body ++ untok_go ind false (ps_after ps body) rest.
Proof.
  induction body as [|[k v] body IH]; intros ind ps rest HF; [reflexivity|].
  inversion HF as [|? ? K HF']; subst. simpl in K.
  destruct K as [[->|[->|[->| ->]]]| ->]; cbn [untok_go spell ps_after app fst]; rewrite (IH _ _ _ HF');
    rewrite ?app_assoc_s; reflexivity.
Qed.

Lemma strip_kinds l : Forall (fun t => body_kind (fst t)) l -> strip l = l.
Proof.
  unfold strip. induction l as [|[k v] l IH]; intros H; [reflexivity|].
  inversion H as [|? ? K H']; subst. simpl in K. cbn [filter]. rewrite (IH H').
  destruct K as [[->|[->|[->| ->]]]| ->]; reflexivity.
Qed.

Lemma map_ren_kinds m l : Forall (fun t => body_kind (fst t)) l -> Forall (fun t => body_kind (fst t)) (map (ren m) l).
Proof. intros H. apply Forall_map. eapply Forall_impl; [|exact H]. intros t Ht. now rewrite ren_kind. Qed.

Lemma strip_app l rest : Forall (fun t => body_kind (fst t)) l -> strip (l ++ rest) = (l ++ strip rest)%list.
Proof.
  unfold strip. induction l as [|[k v] l IH]; intros H; [reflexivity|].
  inversion H as [|? ? K H']; subst. simpl in K. cbn [filter app]. rewrite (IH H').
  destruct K as [[->|[->|[->| ->]]]| ->]; reflexivity.
Qed.

(** For a token list [lex] produced, INDENT/DEDENT do not reach the output of untokenize. *)
Lemma untok_strip m ts : lex_shape ts -> untok (map (ren m) ts) = untok (map (ren m) (strip ts)).
Proof.
  intros [->| ->|c ->|l K ->|ws l K ->]; try reflexivity.
  - rewrite (strip_app _ _ K). reflexivity.
  - change (strip ((INDENT, ws) :: l ++ [(NEWLINE, ""); (DEDENT, ""); (ENDMARKER, "")]))
      with (strip (l ++ [(NEWLINE, ""); (DEDENT, ""); (ENDMARKER, "")])).
    rewrite (strip_app _ _ K). change (strip [(NEWLINE, ""); (DEDENT, ""); (ENDMARKER, "")]) with [(NEWLINE, ""); (ENDMARKER, "")].
    unfold untok. cbn [map ren]. rewrite !map_app. cbn [untok_go map ren].
    rewrite !(untok_go_kinds _ _ _ _ (map_ren_kinds m _ K)). reflexivity.
Qed.

(** The corollary for the implementation's function: if the line [s] lexes to a well-formed,
    operator-safe token list (indentation aside) and the new names are identifiers, the text
    returned by [replace_token_from_lookup] lexes to exactly the renamed token list. *)
Theorem relex_replace s ts body cmt m :
  lex s = Ok ts -> strip ts = line body cmt ->
  wf_body body = true -> wf_comment cmt = true -> ident_range m = true ->
  exists out, replace_lookup m s = Ok out /\ lex out = Ok (map (ren m) (line body cmt)).
Proof.
  intros Hl Hs HB HC Hm. unfold replace_lookup. rewrite Hl. eexists. split; [reflexivity|].
  rewrite (untok_strip m ts (lex_has_shape _ _ Hl)), Hs. now apply relex_renamed.
Qed.
