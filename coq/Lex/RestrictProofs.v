(** Restriction: the token the lexer cuts off the input is what the lexer reads from the
    token's own text ("every token [lex] reports is [wf_tok]"); hence for a lexed line the
    only hypothesis the re-lexing theorem needs is [ops_safe]. *)
From Coq Require Import List String Ascii Bool Arith NArith Lia.
From SFC.Base Require Import Res.
From SFC.Lex Require Import Lexer Untok Wf LexProofs RelexProofs HygieneProofs FuelProofs.
Import ListNotations.
Local Open Scope string_scope.

(* ---- numbers ---- *)
Lemma exp_step_go la q : exp_step la = Go q -> q = ExpE.
Proof. unfold exp_step. destruct la as [d|]; [destruct (is_digit d || is_sign d)|]; congruence. Qed.

(** Only the step into [ExpE] depends on the lookahead, and [ExpE] is not final. *)
Lemma num_step_final q c la q' :
  num_step q c la = Go q' -> num_final q' = true -> num_step q c None = Go q'.
Proof.
  intros H F.
  assert (G : forall la', exp_step la' = Go q' -> False).
  { intros la' E. apply exp_step_go in E. subst q'. discriminate F. }
  destruct q; simpl in *; unfold dec_like in *;
    repeat match type of H with
           | context [match ?c with Ascii _ _ _ _ _ _ _ _ => _ end] => fail
           | context [if ?b then _ else _] => destruct b
           end; try exact H; try discriminate H; try (exfalso; eapply G; exact H).
  (* Z0 : the letter dispatch *)
  destruct c as [[] [] [] [] [] [] [] []]; simpl in *; try exact H; try discriminate H; try (exfalso; eapply G; exact H).
Qed.

Lemma num_run_nil q s rest : num_run q s = Ok ("", rest) -> num_final q = true.
Proof.
  destruct s as [|c r]; simpl.
  - unfold num_fin. destruct (num_final q); [reflexivity|discriminate].
  - destruct (num_step q c (head r)).
    + intros H. apply cons_fst_ok in H as (a' & Ha & _). discriminate.
    + unfold num_fin. destruct (num_final q); [reflexivity|discriminate].
    + discriminate.
Qed.

Lemma num_run_restrict : forall s q a rest, num_run q s = Ok (a, rest) -> num_run q a = Ok (a, "").
Proof.
  induction s as [|c s IH]; intros q a rest H; simpl in H.
  - unfold num_fin in H. destruct (num_final q) eqn:F; [|discriminate]. injection H as <- <-.
    simpl. unfold num_fin. now rewrite F.
  - destruct (num_step q c (head s)) as [q'| |] eqn:E.
    + apply cons_fst_ok in H as (a' & -> & H). pose proof (num_run_split _ _ _ _ H) as Hs.
      simpl. assert (E' : num_step q c (head a') = Go q').
      { destruct a' as [|x a'].
        - simpl. eapply num_step_final; [exact E|]. eapply num_run_nil; exact H.
        - rewrite Hs in E. exact E. }
      rewrite E', (IH _ _ _ H). reflexivity.
    + unfold num_fin in H. destruct (num_final q) eqn:F; [|discriminate]. injection H as <- <-.
      simpl. unfold num_fin. now rewrite F.
    + discriminate.
Qed.

(* ---- strings ---- *)
Local Opaque Nat.eqb.
Lemma scan_q_restrict : forall s q size n esc a rest,
  scan_q q size n esc s = Ok (a, rest) -> scan_q q size n esc a = Ok (a, "").
Proof.
  induction s as [|c s IH]; intros q size n esc a rest H; simpl in H; [discriminate|].
  destruct (unsupported c) eqn:U; [discriminate|].
  destruct esc.
  - apply cons_fst_ok in H as (a' & -> & H). simpl. rewrite U, (IH _ _ _ _ _ _ H). reflexivity.
  - destruct (Ascii.eqb c q) eqn:Q.
    + destruct (Nat.eqb (S n) size) eqn:N.
      * injection H as <- <-. simpl. now rewrite U, Q, N.
      * apply cons_fst_ok in H as (a' & -> & H). simpl. rewrite U, Q, N, (IH _ _ _ _ _ _ H). reflexivity.
    + destruct (Ascii.eqb c "\") eqn:B; apply cons_fst_ok in H as (a' & -> & H); simpl;
        rewrite U, Q, B, (IH _ _ _ _ _ _ H); reflexivity.
Qed.
Local Transparent Nat.eqb.

Local Opaque Nat.eqb.
Lemma scan_q_nonempty s q size n esc a rest : scan_q q size n esc s = Ok (a, rest) -> a <> "".
Proof.
  destruct s as [|c s]; simpl; [discriminate|].
  destruct (unsupported c); [discriminate|].
  destruct esc; [intros H; apply cons_fst_ok in H as (? & -> & _); discriminate|].
  destruct (Ascii.eqb c q).
  - destruct (Nat.eqb (S n) size); [intros H; injection H as <- _; discriminate|].
    intros H; apply cons_fst_ok in H as (? & -> & _); discriminate.
  - destruct (Ascii.eqb c "\"); intros H; apply cons_fst_ok in H as (? & -> & _); discriminate.
Qed.
Local Transparent Nat.eqb.

Local Opaque scan_q.
Lemma scan_string_restrict s a rest : scan_string s = Ok (a, rest) -> scan_string a = Ok (a, "").
Proof.
  unfold scan_string. destruct s as [|q r]; [discriminate|]. destruct r as [|c2 r2]; [discriminate|].
  destruct (Ascii.eqb c2 q) eqn:E2.
  - destruct r2 as [|c3 r3].
    + intros H. injection H as <- <-. now rewrite Ascii.eqb_refl.
    + destruct (Ascii.eqb c3 q) eqn:E3.
      * intros H. apply cons_fst_ok in H as (a1 & -> & H). apply cons_fst_ok in H as (a2 & -> & H).
        apply cons_fst_ok in H as (a3 & -> & H). rewrite !Ascii.eqb_refl.
        now rewrite (scan_q_restrict _ _ _ _ _ _ _ H).
      * intros H. injection H as <- <-. now rewrite Ascii.eqb_refl.
  - intros H. apply cons_fst_ok in H as (a1 & -> & H).
    pose proof (scan_q_split _ _ _ _ _ _ _ H) as Hs. pose proof (scan_q_nonempty _ _ _ _ _ _ _ H) as Hne.
    destruct a1 as [|x a1]; [congruence|].
    simpl in Hs. injection Hs as <- _. rewrite E2.
    now rewrite (scan_q_restrict _ _ _ _ _ _ _ H).
Qed.
Local Transparent scan_q.

Lemma scan_op_restrict c r o rest : scan_op c r = (o, rest) ->
  exists r', o = String c r' /\ scan_op c r' = (o, "").
Proof.
  unfold scan_op. destruct r as [|c2 r2].
  - intros H. injection H as <- <-. exists "". auto.
  - destruct (two_char c c2) eqn:T2.
    + destruct r2 as [|c3 r3].
      * intros H. injection H as <- <-. exists (String c2 ""). now rewrite T2.
      * destruct (three_char c c2 c3) eqn:T3; intros H; injection H as <- <-.
        -- exists (String c2 (String c3 "")). now rewrite T2, T3.
        -- exists (String c2 ""). now rewrite T2.
    + intros H. injection H as <- <-. exists "". auto.
Qed.

(* ---- one token ---- *)
Lemma span_self p a : all_chars p a = true -> span p a = (a, "").
Proof. intros H. pose proof (span_app p a "" H I) as E. now rewrite app_nil_r_s in E. Qed.

Lemma next_token_restrict s k v rest : next_token s = Ok ((k, v), rest) -> next_token v = Ok ((k, v), "").
Proof.
  unfold next_token at 1. destruct s as [|c r]; [discriminate|].
  destruct (is_blank c || Ascii.eqb c "#") eqn:B; [discriminate|].
  destruct (is_ident_start c) eqn:Is.
  { unfold tok_ident. destruct (span is_ident_char (String c r)) as [n rest'] eqn:E.
    pose proof (span_all _ _ _ _ E) as Ea. pose proof (span_stop _ _ _ _ E) as Est.
    assert (Hn : exists n', n = String c n').
    { simpl in E. unfold is_ident_char in E. rewrite Is in E. simpl in E.
      destruct (span _ r). injection E as <- _. eauto. }
    destruct Hn as [n' ->].
    assert (Name : next_token (String c n') = Ok ((NAME, String c n'), "")).
    { unfold next_token. rewrite B, Is. unfold tok_ident. now rewrite (span_self _ _ Ea). }
    destruct rest' as [|q r'].
    - intros H. injection H as <- <- _. exact Name.
    - destruct (is_quote q) eqn:Q; [|intros H; injection H as <- <- _; exact Name].
      destruct (prefix_kind (String c n')) as [[|]|] eqn:P; [discriminate| |intros H; injection H as <- <- _; exact Name].
      intros H. apply tok_of_ok in H as (a & Ha & H). injection Ha as -> ->.
      apply pre_fst_ok in H as (a' & -> & H).
      pose proof (scan_string_restrict _ _ _ H) as Hr.
      pose proof (scan_string_split _ _ _ H) as [Hs Hne].
      destruct a' as [|q' a'']; [congruence|]. simpl in Hs. injection Hs as <- _.
      change (String c n' ++ String q a'') with (String c (n' ++ String q a'')).
      unfold next_token. rewrite B, Is. unfold tok_ident.
      change (String c (n' ++ String q a'')) with (String c n' ++ String q a'').
      rewrite (span_app is_ident_char (String c n') (String q a'') Ea Est), Q, P, Hr. reflexivity. }
  destruct (is_digit c) eqn:D.
  { unfold tok_number. intros H. apply tok_of_ok in H as (a & Ha & H). injection Ha as -> ->.
    apply cons_fst_ok in H as (a' & -> & H).
    unfold next_token. rewrite B, Is, D. unfold tok_number. now rewrite (num_run_restrict _ _ _ _ H). }
  destruct (Ascii.eqb c ".") eqn:Ec.
  { assert (c = "."%char) by now apply Ascii.eqb_eq. subst c. unfold tok_dot.
    destruct r as [|d r2]; [intros H; injection H as <- <- _; reflexivity|].
    destruct (is_digit d) eqn:Dd.
    { intros H. apply tok_of_ok in H as (a & Ha & H). injection Ha as -> ->.
      apply cons_fst_ok in H as (a' & -> & H).
      pose proof (num_run_restrict _ _ _ _ H) as Hr. pose proof (num_run_split _ _ _ _ H) as Hs.
      assert (Ha' : exists a'', a' = String d a'').
      { simpl in H. rewrite Dd in H. apply cons_fst_ok in H as (a'' & -> & _). eauto. }
      destruct Ha' as [a'' ->].
      change (next_token (String "." (String d a''))) with (tok_dot (String d a'')).
      unfold tok_dot. rewrite Dd, Hr. reflexivity. }
    destruct (Ascii.eqb d ".") eqn:Ed; [|intros H; injection H as <- <- _; reflexivity].
    destruct r2 as [|d2 r3]; [intros H; injection H as <- <- _; reflexivity|].
    destruct (Ascii.eqb d2 "."); intros H; injection H as <- <- _; reflexivity. }
  destruct (is_quote c) eqn:Q.
  { intros H. apply tok_of_ok in H as (a & Ha & H). injection Ha as -> ->.
    pose proof (scan_string_restrict _ _ _ H) as Hr.
    pose proof (scan_string_split _ _ _ H) as [Hs Hne].
    destruct a as [|c' a']; [congruence|]. simpl in Hs. injection Hs as <- _.
    unfold next_token. rewrite B, Is, D, Ec, Q, Hr. reflexivity. }
  destruct (Ascii.eqb c "\") eqn:Bs; [discriminate|]. destruct (unsupported c) eqn:U; [discriminate|].
  destruct (negb (printable c)) eqn:Pr; [discriminate|].
  unfold tok_op. destruct (scan_op c r) as [o rest'] eqn:E. intros H. injection H as <- <- _.
  apply scan_op_restrict in E as (r' & -> & E).
  unfold next_token. rewrite B, Is, D, Ec, Q, Bs, U, Pr. unfold tok_op. now rewrite E.
Qed.

Lemma next_token_wf s t rest : next_token s = Ok (t, rest) -> wf_tok t = true.
Proof.
  intros H. pose proof (next_token_kind _ _ _ H) as K. destruct t as [k v].
  apply next_token_restrict in H. unfold wf_tok. simpl in *. rewrite H, tok_eqb_refl.
  destruct K as [->|[->|[->| ->]]]; reflexivity.
Qed.

(* ---- the line ---- *)
Lemma lex_body_wf : forall fuel d s ts, lex_body fuel d s = Ok ts ->
  exists body cmt, ts = (body ++ comment_toks cmt)%list /\
    forallb wf_tok body = true /\ depth_run d body = Some 0 /\ wf_comment cmt = true.
Proof.
  induction fuel as [|f IH]; intros d s ts H; [discriminate|].
  cbn [lex_body] in H. destruct (skip_blank s) as [|c r] eqn:E.
  - unfold at_eol in H. destruct (Nat.eqb d 0) eqn:D0; [|discriminate]. injection H as <-.
    apply Nat.eqb_eq in D0. subst d. exists [], None. auto.
  - destruct (Ascii.eqb c "#") eqn:Hh.
    + destruct (all_chars _ _) eqn:A; [|discriminate]. unfold at_eol in H.
      destruct (Nat.eqb d 0) eqn:D0; [|discriminate]. injection H as <-.
      apply Nat.eqb_eq in D0. subst d. apply Ascii.eqb_eq in Hh. subst c.
      exists [], (Some (String "#" r)). auto.
    + destruct (next_token (String c r)) as [[t rest]|e] eqn:En; [|discriminate].
      destruct (depth_step d t) as [d'|] eqn:Ed; [|discriminate].
      destruct (lex_body f d' rest) as [l|e] eqn:El; [|discriminate]. simpl in H. injection H as <-.
      destruct (IH _ _ _ El) as (body & cmt & -> & HF & HD & HC).
      exists (t :: body), cmt. split; [reflexivity|]. split; [|split; [|exact HC]].
      * cbn [forallb]. now rewrite (next_token_wf _ _ _ En), HF.
      * cbn [depth_run]. now rewrite Ed.
Qed.

Definition is_content (t : token) : bool :=
  match fst t with NAME | NUMBER | STRING | OP => true | _ => false end.
Definition content (ts : list token) : list token := filter is_content ts.

(** [strip], with the NL of a blank-only line dropped as well (untokenize writes nothing for
    such a line and the empty text lexes to the ENDMARKER alone). *)
Definition norm (ts : list token) : list token :=
  match ts with
  | [(NL, _); e] => [e]
  | _ => strip ts
  end.

Lemma norm_indent ws l : norm ((INDENT, ws) :: l) = strip l.
Proof. reflexivity. Qed.

Lemma norm_content t l : content_kind (fst t) -> norm (t :: l) = strip (t :: l).
Proof. destruct t as [k v]. simpl. intros [->|[->|[->| ->]]]; reflexivity. Qed.

Lemma content_wf body : forallb wf_tok body = true -> content body = body.
Proof.
  unfold content. induction body as [|t b IH]; [reflexivity|]. cbn [forallb filter]. intros H.
  apply andb_true_iff in H as [Ht Hb]. apply wf_tok_spec in Ht as [_ K].
  rewrite (IH Hb). unfold is_content. destruct K as [->|[->|[->| ->]]]; reflexivity.
Qed.

Lemma content_app a b : content (a ++ b) = (content a ++ content b)%list.
Proof. apply filter_app. Qed.

Lemma wf_kinds body : forallb wf_tok body = true -> Forall (fun t => body_kind (fst t)) body.
Proof.
  intros H. apply Forall_forall. intros t Ht. left.
  exact (proj2 (wf_tok_spec _ (proj1 (forallb_forall _ _) H t Ht))).
Qed.

Lemma comment_kinds cmt : Forall (fun t => body_kind (fst t)) (comment_toks cmt).
Proof. destruct cmt; simpl; constructor; [right; reflexivity|constructor]. Qed.

(** What [lex] returns is, indentation aside, a [line] whose content tokens are well formed
    and whose brackets close. *)
Lemma lex_line s ts : lex s = Ok ts ->
  exists body cmt, norm ts = line body cmt /\ content ts = body /\
    forallb wf_tok body = true /\ depth_run 0 body = Some 0 /\ wf_comment cmt = true.
Proof.
  unfold lex. destruct (span is_blank s) as [ws b] eqn:Es. destruct b as [|c r].
  - intros H. injection H as <-. exists [], None. destruct ws; auto.
  - pose proof (span_stop _ _ _ _ Es) as Hb. destruct (Ascii.eqb c "#") eqn:Hh.
    + destruct (all_chars _ _) eqn:A; [|discriminate]. intros H. injection H as <-.
      apply Ascii.eqb_eq in Hh. subst c. exists [], (Some (String "#" r)). auto.
    + cbn [lex_body]. rewrite (skip_blank_nonblank _ _ Hb), Hh.
      destruct (next_token (String c r)) as [[t rest]|e] eqn:En; [|discriminate].
      destruct (depth_step 0 t) as [d'|] eqn:Ed; [|discriminate].
      destruct (lex_body _ d' rest) as [l|e] eqn:El; [|discriminate]. cbn [cons_tok].
      destruct (lex_body_wf _ _ _ _ El) as (body & cmt & -> & HF & HD & HC).
      pose proof (next_token_wf _ _ _ En) as Hw.
      assert (HF' : forallb wf_tok (t :: body) = true) by (cbn [forallb]; now rewrite Hw, HF).
      assert (K : Forall (fun x => body_kind (fst x)) (t :: body ++ comment_toks cmt)).
      { change (t :: body ++ comment_toks cmt) with ((t :: body) ++ comment_toks cmt)%list.
        apply Forall_app. split; [now apply wf_kinds|apply comment_kinds]. }
      assert (Kt : content_kind (fst t)) by (eapply next_token_kind; eauto).
      intros H. injection H as <-. exists (t :: body), cmt.
      assert (Hc : forall tl, content tl = [] -> content ((t :: body ++ comment_toks cmt) ++ tl) = t :: body).
      { intros tl Htl. change (t :: body ++ comment_toks cmt) with ((t :: body) ++ comment_toks cmt)%list.
        rewrite !content_app, Htl, (content_wf _ HF'). destruct cmt; simpl; now rewrite !app_nil_r. }
      assert (Hl : forall tl, ((t :: body ++ comment_toks cmt) ++ tl = (t :: body) ++ comment_toks cmt ++ tl)%list)
        by (intros tl; cbn [app]; now rewrite <- app_assoc).
      split; [|split; [|split; [exact HF'|split; [|exact HC]]]].
      * destruct (indented ws).
        -- rewrite norm_indent.
           change (t :: (body ++ comment_toks cmt) ++ [(NEWLINE, ""); (DEDENT, ""); (ENDMARKER, "")])%list
             with ((t :: body ++ comment_toks cmt) ++ [(NEWLINE, ""); (DEDENT, ""); (ENDMARKER, "")])%list.
           rewrite (strip_app _ _ K). unfold line. cbn [strip filter is_layout fst negb]. apply Hl.
        -- change ((t :: body ++ comment_toks cmt) ++ [(NEWLINE, ""); (ENDMARKER, "")])%list
             with (t :: (body ++ comment_toks cmt) ++ [(NEWLINE, ""); (ENDMARKER, "")])%list.
           rewrite (norm_content _ _ Kt).
           change (t :: (body ++ comment_toks cmt) ++ [(NEWLINE, ""); (ENDMARKER, "")])%list
             with ((t :: body ++ comment_toks cmt) ++ [(NEWLINE, ""); (ENDMARKER, "")])%list.
           rewrite (strip_app _ _ K). unfold line. cbn [strip filter is_layout fst negb]. apply Hl.
      * destruct (indented ws).
        -- change (content ((INDENT, ws) :: (t :: body ++ comment_toks cmt) ++ [(NEWLINE, ""); (DEDENT, ""); (ENDMARKER, "")]))
             with (content ((t :: body ++ comment_toks cmt) ++ [(NEWLINE, ""); (DEDENT, ""); (ENDMARKER, "")])).
           now apply Hc.
        -- now apply Hc.
      * cbn [depth_run]. now rewrite Ed.
Qed.

Lemma untok_norm m ts : lex_shape ts -> untok (map (ren m) ts) = untok (map (ren m) (norm ts)).
Proof.
  intros Hs. pose proof (untok_strip m ts Hs) as E.
  destruct Hs as [->| ->|c ->|l K ->|ws l K ->]; try reflexivity; try exact E.
  - (* an unindented line: [norm] is [strip] unless the list is [NL; e] *)
    rewrite E. destruct l as [|[k v] l]; [reflexivity|].
    inversion K as [|? ? Kk _]; subst. simpl in Kk.
    destruct Kk as [[->|[->|[->| ->]]]| ->]; reflexivity.
Qed.

(** Re-lexing for lexed lines: [ops_safe] is the only hypothesis on the token list. *)
Theorem relex_lexed s ts m :
  lex s = Ok ts -> ops_safe (content ts) = true -> ident_range m = true ->
  exists out, replace_lookup m s = Ok out /\ lex out = Ok (map (ren m) (norm ts)).
Proof.
  intros Hl HO Hm. destruct (lex_line _ _ Hl) as (body & cmt & Hn & Hc & HF & HD & HC).
  unfold replace_lookup. rewrite Hl. eexists. split; [reflexivity|].
  rewrite (untok_norm m ts (lex_has_shape _ _ Hl)), Hn. apply relex_renamed; [|exact HC|exact Hm].
  unfold wf_body. rewrite HF, HD, <- Hc, HO. reflexivity.
Qed.
