(** Lemmas about the scanners of Lexer.v: every scanner that accepted a text on its own
    accepts the same text when more input follows, provided the following character does
    not continue the token ("maximal munch is stable under well-separated extension"). *)
From Coq Require Import List String Ascii Bool Arith NArith Lia.
From SFC.Base Require Import Res.
From SFC.Lex Require Import Lexer.
Import ListNotations.
Local Open Scope string_scope.

(* ---- strings ---- *)
Lemma app_assoc_s (a b c : string) : (a ++ b) ++ c = a ++ (b ++ c).
Proof. induction a as [|x a IH]; simpl; [reflexivity|]. now rewrite IH. Qed.

Lemma app_nil_r_s (a : string) : a ++ "" = a.
Proof. induction a as [|x a IH]; simpl; [reflexivity|]. now rewrite IH. Qed.

Lemma length_app_s (a b : string) : String.length (a ++ b) = String.length a + String.length b.
Proof. induction a as [|x a IH]; simpl; [reflexivity|]. now rewrite IH. Qed.

Lemma app_inv_head_s (a b c : string) : a ++ b = a ++ c -> b = c.
Proof. induction a as [|x a IH]; simpl; intros H; [assumption|]. injection H as H. auto. Qed.

Lemma head_app (a b : string) : a <> "" -> head (a ++ b) = head a.
Proof. destruct a; [congruence|reflexivity]. Qed.

(* ---- span ---- *)
Lemma span_eq p s a b : span p s = (a, b) -> s = a ++ b.
Proof.
  revert a b. induction s as [|c s IH]; simpl; intros a b H.
  - injection H as <- <-. reflexivity.
  - destruct (p c).
    + destruct (span p s) as [a' b'] eqn:E. injection H as <- <-. simpl. f_equal. now apply IH.
    + injection H as <- <-. reflexivity.
Qed.

Lemma span_all p s a b : span p s = (a, b) -> all_chars p a = true.
Proof.
  revert a b. induction s as [|c s IH]; simpl; intros a b H.
  - injection H as <- <-. reflexivity.
  - destruct (p c) eqn:Pc.
    + destruct (span p s) as [a' b'] eqn:E. injection H as <- <-. simpl. rewrite Pc. simpl. eapply IH; eauto.
    + injection H as <- <-. reflexivity.
Qed.

Lemma span_stop p s a b : span p s = (a, b) -> match b with String c _ => p c = false | EmptyString => True end.
Proof.
  revert a b. induction s as [|c s IH]; simpl; intros a b H.
  - injection H as <- <-. exact I.
  - destruct (p c) eqn:Pc.
    + destruct (span p s) as [a' b'] eqn:E. injection H as <- <-. eapply IH; eauto.
    + injection H as <- <-. exact Pc.
Qed.

(** [span] of a run followed by something that does not continue it. *)
Lemma span_app p a r :
  all_chars p a = true -> match r with String c _ => p c = false | EmptyString => True end ->
  span p (a ++ r) = (a, r).
Proof.
  induction a as [|c a IH]; simpl; intros Ha Hr.
  - destruct r as [|c r]; simpl; [reflexivity|]. now rewrite Hr.
  - apply andb_true_iff in Ha as [Pc Ha]. rewrite Pc, IH; auto.
Qed.

Lemma span_first_false p c r : p c = false -> span p (String c r) = ("", String c r).
Proof. intros H. simpl. now rewrite H. Qed.

(* ---- results ---- *)
Lemma cons_fst_ok c r a rest : cons_fst c r = Ok (a, rest) -> exists a', a = String c a' /\ r = Ok (a', rest).
Proof. destruct r as [[a' rest']|e]; simpl; intros H; [|discriminate]. injection H as <- <-. eauto. Qed.

Lemma tok_of_ok k r t rest : tok_of k r = Ok (t, rest) -> exists a, t = (k, a) /\ r = Ok (a, rest).
Proof. destruct r as [[a rest']|e]; simpl; intros H; [|discriminate]. injection H as <- <-. eauto. Qed.

Lemma pre_fst_ok p r a rest : pre_fst p r = Ok (a, rest) -> exists a', a = p ++ a' /\ r = Ok (a', rest).
Proof. destruct r as [[a' rest']|e]; simpl; intros H; [|discriminate]. injection H as <- <-. eauto. Qed.

(* ---- numbers ---- *)
Lemma num_step_space q la : num_final q = true -> num_step q " " la = Halt.
Proof. destruct q; simpl; intros H; try discriminate; reflexivity. Qed.

Lemma exp_step_la : exp_step None = exp_step (Some " "%char).
Proof. reflexivity. Qed.

Lemma num_step_la q c : num_step q c None = num_step q c (Some " "%char).
Proof.
  destruct q; simpl; unfold dec_like; rewrite ?exp_step_la; reflexivity.
Qed.

Lemma num_run_ext : forall s q R,
  num_run q s = Ok (s, "") -> num_run q (s ++ String " " R) = Ok (s, String " " R).
Proof.
  induction s as [|c s IH]; intros q R H.
  - simpl in *. unfold num_fin in *. destruct (num_final q) eqn:F; [|discriminate].
    rewrite (num_step_space _ _ F). reflexivity.
  - simpl in H. simpl.
    assert (Hh : num_step q c (head (s ++ String " " R)) = num_step q c (head s)).
    { destruct s; simpl; [symmetry; apply num_step_la|reflexivity]. }
    rewrite Hh. destruct (num_step q c (head s)) as [q'| |].
    + apply cons_fst_ok in H as (a' & Ha & Hr). injection Ha as <-. rewrite (IH _ _ Hr). reflexivity.
    + unfold num_fin in H. destruct (num_final q); discriminate.
    + discriminate.
Qed.

(* ---- string bodies ---- *)
Local Opaque Nat.eqb.
Lemma scan_q_ext : forall s q size n esc R,
  scan_q q size n esc s = Ok (s, "") -> scan_q q size n esc (s ++ R) = Ok (s, R).
Proof.
  induction s as [|c s IH]; intros q size n esc R H; [discriminate|].
  simpl in *. destruct (unsupported c); [discriminate|].
  destruct esc.
  - apply cons_fst_ok in H as (a' & Ha & Hr). injection Ha as <-. now rewrite (IH _ _ _ _ R Hr).
  - destruct (Ascii.eqb c q).
    + destruct (Nat.eqb (S n) size).
      * injection H as H1 H2. subst. reflexivity.
      * apply cons_fst_ok in H as (a' & Ha & Hr). injection Ha as <-. now rewrite (IH _ _ _ _ R Hr).
    + destruct (Ascii.eqb c "\");
      apply cons_fst_ok in H as (a' & Ha & Hr); injection Ha as <-; now rewrite (IH _ _ _ _ R Hr).
Qed.

Local Transparent Nat.eqb.
Local Opaque scan_q.

Lemma scan_string_ext : forall q s R,
  scan_string (String q s) = Ok (String q s, "") -> head R <> Some q ->
  scan_string (String q s ++ R) = Ok (String q s, R).
Proof.
  intros q s R H HR. simpl in *.
  destruct s as [|c2 r2]; [discriminate|]. simpl.
  destruct (Ascii.eqb c2 q) eqn:E2.
  - assert (c2 = q) by (now apply Ascii.eqb_eq). subst c2.
    destruct r2 as [|c3 r3].
    + (* the empty string literal *)
      clear H. simpl. destruct R as [|c R]; [reflexivity|].
      destruct (Ascii.eqb c q) eqn:E3; [|reflexivity].
      apply Ascii.eqb_eq in E3. subst. simpl in HR. congruence.
    + simpl. destruct (Ascii.eqb c3 q).
      * apply cons_fst_ok in H as (a1 & Ha1 & H). injection Ha1 as <-.
        apply cons_fst_ok in H as (a2 & Ha2 & H). injection Ha2 as <-.
        apply cons_fst_ok in H as (a3 & Ha3 & H). injection Ha3 as Hc <-.
        rewrite (scan_q_ext _ _ _ _ _ R H). subst c3. reflexivity.
      * injection H as H1 H2. discriminate.
  - apply cons_fst_ok in H as (a1 & Ha1 & H). injection Ha1 as <-.
    change (String c2 (r2 ++ R)) with (String c2 r2 ++ R). now rewrite (scan_q_ext _ _ _ _ _ R H).
Qed.
Local Transparent scan_q.
