(** C13 - Name substitution is hygienic and simultaneous.  Property theorems only.
    Model: Lexer.v (one logical line of ASCII Python 3.12 as [tokenize] reports it), Untok.v
    (compat-mode [untokenize]; [list_tokens], [replace_token], [replace_lookup] =
    [utils.replace_token_from_lookup]), Wf.v (decidable well-formedness for re-lexing).
    Proofs: LexProofs.v, RelexProofs.v, HygieneProofs.v, FuelProofs.v, RestrictProofs.v, ValueProofs.v.

    Why [ops_safe] holds for syntactically valid expressions: two operator tokens that the
    lexer would fuse when abutted ([*] [*], [<] [=], [.] [.] [.], [-] [>], [:] [=], [!] [=], and
    an operator followed by [=]) never stand next to each other in Python's expression grammar,
    and a period directly before a digit-initial NUMBER is not an attribute access; the
    check measures it on every generated input (coverage key ops_unsafe).
    Trusted, not proved: Python's parser is a function of the token sequence, so the renamed
    text parses to the renamed AST (C13_value is stated on the AST of Base/Expr.v). *)
From Coq Require Import List String Ascii Bool PrimFloat Reals.
From SFC.Base Require Import Res Expr.
From SFC.Lex Require Import Lexer Untok Wf LexProofs RelexProofs HygieneProofs ValueProofs FuelProofs RestrictProofs.
Import ListNotations.
Local Open Scope string_scope.

(** The names reported for a text are exactly its NAME tokens, in order of appearance. *)
Theorem C13_list : forall s,
  list_tokens s = match lex s with Ok ts => Ok (map snd (filter is_name ts)) | Err e => Err e end.
Proof. reflexivity. Qed.
Print Assumptions C13_list.

(** Maximal munch: an identifier-shaped text [n] followed by nothing or by a character that
    cannot continue an identifier is read as the single token NAME [n]; in particular a name
    is never split, and [n] followed by identifier characters is a different, longer name.
    (A quote directly after r, b, u, br, rb, f, ... starts a prefixed string instead.) *)
Theorem C13_munch : forall n X ts,
  ident_shaped n = true ->
  match X with
  | EmptyString => True
  | String c _ => is_ident_char c = false /\ (is_quote c = true -> prefix_kind n = None)
  end ->
  next_token (n ++ X) = Ok ((NAME, n), X) /\
  (lex (n ++ X) = Ok ts -> exists ts', ts = (NAME, n) :: ts').
Proof. intros n X ts Hn HX. split; [now apply name_munch|now apply lex_starts_with_name]. Qed.
Print Assumptions C13_munch.

(** Every token is cut out of the input: its text is a non-empty prefix of what was left to
    read (so token texts are substrings of the line, in order), and the fuel of the main loop
    is never exhausted ([OutOfFuel] is not an outcome of [lex]). *)
Theorem C13_token_prefix : forall s k v rest, next_token s = Ok ((k, v), rest) -> s = v ++ rest /\ v <> "".
Proof. exact next_token_split. Qed.
Print Assumptions C13_token_prefix.

Theorem C13_fuel : forall s, lex s <> Err OutOfFuel.
Proof. exact lex_fuel. Qed.
Print Assumptions C13_fuel.

(** Hygiene and simultaneity at token level: the result is the untokenized token list in which
    exactly the NAME tokens whose text is a key are replaced, each once (the replacement is not
    looked up again, so a swap swaps); NUMBER/STRING/OP/COMMENT tokens and names that are not
    keys - longer names included - are untouched. *)
Theorem C13_hygiene : forall m s,
  replace_lookup m s = match lex s with Ok ts => Ok (untok (map (ren m) ts)) | Err e => Err e end.
Proof. reflexivity. Qed.
Print Assumptions C13_hygiene.

Theorem C13_ren_exact : forall m,
  (forall t, fst (ren m t) = fst t) /\
  (forall t, fst t <> NAME -> ren m t = t) /\
  (forall v, assoc v m = None -> ren m (NAME, v) = (NAME, v)) /\
  (forall v w, assoc v m = Some w -> ren m (NAME, v) = (NAME, w)) /\
  (forall ts, names_of (map (ren m) ts) = map (mfun m) (names_of ts)).
Proof.
  intros m. repeat split.
  - apply ren_kind.
  - apply ren_other.
  - apply ren_name_out.
  - apply ren_name_in.
  - apply names_of_ren.
Qed.
Print Assumptions C13_ren_exact.

Theorem C13_swap : forall a b, a <> b ->
  ren [(a, b); (b, a)] (NAME, a) = (NAME, b) /\ ren [(a, b); (b, a)] (NAME, b) = (NAME, a).
Proof. exact ren_swap. Qed.
Print Assumptions C13_swap.

Theorem C13_single : forall s a b, replace_token s a b = replace_lookup [(a, b)] s.
Proof. exact replace_token_single. Qed.
Print Assumptions C13_single.

(** Re-lexing.  [line body cmt] is the token list of an unindented line with content tokens
    [body] and optional trailing comment; [wf_body]: every token is what the lexer reads from
    its own text, no operator fuses with its successor ([ops_safe]), brackets close. *)
Theorem C13_relex : forall body cmt,
  wf_body body = true -> wf_comment cmt = true -> lex (untok (line body cmt)) = Ok (line body cmt).
Proof. exact relex_line. Qed.
Print Assumptions C13_relex.

Theorem C13_relex_renamed : forall m body cmt,
  wf_body body = true -> wf_comment cmt = true -> ident_range m = true ->
  lex (untok (map (ren m) (line body cmt))) = Ok (map (ren m) (line body cmt)).
Proof. exact relex_renamed. Qed.
Print Assumptions C13_relex_renamed.

(** For the implementation's function: a line that lexes to a well-formed operator-safe token
    list (INDENT/DEDENT aside) is rewritten to a text that lexes to exactly the renamed list. *)
Theorem C13_relex_replace : forall s ts body cmt m,
  lex s = Ok ts -> strip ts = line body cmt ->
  wf_body body = true -> wf_comment cmt = true -> ident_range m = true ->
  exists out, replace_lookup m s = Ok out /\ lex out = Ok (map (ren m) (line body cmt)).
Proof. exact relex_replace. Qed.
Print Assumptions C13_relex_replace.

(** What [lex] returns is always such a line: with INDENT/DEDENT (and the NL of a blank-only
    line) removed ([norm]) it is [line body cmt] where [body] are its content tokens, every one
    of them [wf_tok], brackets closed, the comment well formed. *)
Theorem C13_lexed_wf : forall s ts, lex s = Ok ts ->
  exists body cmt, norm ts = line body cmt /\ content ts = body /\
    forallb wf_tok body = true /\ depth_run 0 body = Some 0 /\ wf_comment cmt = true.
Proof. exact lex_line. Qed.
Print Assumptions C13_lexed_wf.

(** Hence, for every line the implementation can tokenize: if no operator token of the line
    fuses with its successor and the new names are identifiers, the text returned by
    [replace_token_from_lookup] lexes to exactly the line's tokens with the NAME tokens in the
    lookup's domain replaced, simultaneously - nothing else changes. *)
Theorem C13_relex_lexed : forall s ts m,
  lex s = Ok ts -> ops_safe (content ts) = true -> ident_range m = true ->
  exists out, replace_lookup m s = Ok out /\ lex out = Ok (map (ren m) (norm ts)).
Proof. exact relex_lexed. Qed.
Print Assumptions C13_relex_lexed.

(** [ops_safe] is genuinely needed: the operators of [a* *b] fuse in the output. *)
Theorem C13_ops_safe_needed :
  let body := [(NAME, "a"); (OP, "*"); (OP, "*"); (NAME, "b")] in
  lex "a* *b" = Ok (line body None) /\
  forallb wf_tok body = true /\ ops_safe body = false /\
  replace_lookup [] "a* *b" = Ok "a **b " /\
  lex "a **b " = Ok (line [(NAME, "a"); (OP, "**"); (NAME, "b")] None).
Proof. vm_compute. repeat split. Qed.
Print Assumptions C13_ops_safe_needed.

(** Value: a renaming that does not merge two names of the expression admits a renamed
    environment, and under any environment that agrees through the renaming the renamed
    expression has the original's value (reals and IEEE doubles with Python's exceptions). *)
Theorem C13_value : forall (L : Type) (lit : L -> R) (m : list (string * string)) (e : expr L),
  inj_on (mfun m) (names e) ->
  names (rename (mfun m) e) = map (mfun m) (names e) /\
  (forall rho : string -> R, exists rho', forall x, List.In x (names e) -> rho' (mfun m x) = rho x) /\
  (forall rho rho' : string -> R, (forall x, List.In x (names e) -> rho' (mfun m x) = rho x) ->
     evalR lit rho' (rename (mfun m) e) = evalR lit rho e).
Proof.
  intros L lit m e Hinj. split; [apply names_rename|]. split.
  - intros rho. now apply env_exists.
  - intros rho rho'. apply value_R.
Qed.
Print Assumptions C13_value.

Theorem C13_value_float : forall (m : list (string * string)) (e : expr float),
  inj_on (mfun m) (names e) ->
  (forall rho : string -> option float, exists rho', forall x, List.In x (names e) -> rho' (mfun m x) = rho x) /\
  (forall rho rho' : string -> option float, (forall x, List.In x (names e) -> rho' (mfun m x) = rho x) ->
     evalF rho' (rename (mfun m) e) = evalF rho e).
Proof.
  intros m e Hinj. split.
  - intros rho. now apply env_exists.
  - intros rho rho'. apply value_F.
Qed.
Print Assumptions C13_value_float.

(** The non-merging hypothesis is needed: x - y under x := y. *)
Theorem C13_merge_refuted :
  let e : expr unit := ESub (EVar "x") (EVar "y") in
  let f := mfun [("x", "y")] in
  let rho := fun v : string => if String.eqb v "x" then 1%R else 0%R in
  ~ inj_on f (names e) /\ forall rho', evalR (fun _ => 0%R) rho' (rename f e) <> evalR (fun _ => 0%R) rho e.
Proof. exact merge_changes_value. Qed.
Print Assumptions C13_merge_refuted.

(** Non-vacuity: the doctest strings of utils.py, and a realistic equation line whose token
    list satisfies every hypothesis of C13_relex_replace. *)
Example C13_doctests :
  replace_token "m_x =(x - x_1)" "x" "b" = Ok "m_x =(b -x_1 )" /\
  replace_token "Little Bunny Foofoo says foo to you" "foo" "hello" = Ok "Little Bunny Foofoo says hello to you " /\
  replace_token "a = ""a fool and his money""" "a" "x" = Ok "x =""a fool and his money""" /\
  replace_lookup [("y", "H_y"); ("x", "H_x")] "y = x" = Ok "H_y =H_x " /\
  list_tokens "x = foo + cat()" = Ok ["x"; "foo"; "cat"] /\
  list_tokens "2 + 3" = Ok [].
Proof. vm_compute. repeat split. Qed.
Print Assumptions C13_doctests.

Example C13_realistic :
  let s := "  HH__F = LAG_F(k-1)+0.8*(x1 - e5)/max(x, 1e-5, 0x1f) ** 2 >= [1.0, .5j]*20 # note" in
  let body := [(NAME, "HH__F"); (OP, "="); (NAME, "LAG_F"); (OP, "("); (NAME, "k"); (OP, "-"); (NUMBER, "1"); (OP, ")");
               (OP, "+"); (NUMBER, "0.8"); (OP, "*"); (OP, "("); (NAME, "x1"); (OP, "-"); (NAME, "e5"); (OP, ")");
               (OP, "/"); (NAME, "max"); (OP, "("); (NAME, "x"); (OP, ","); (NUMBER, "1e-5"); (OP, ","); (NUMBER, "0x1f");
               (OP, ")"); (OP, "**"); (NUMBER, "2"); (OP, ">="); (OP, "["); (NUMBER, "1.0"); (OP, ","); (NUMBER, ".5j");
               (OP, "]"); (OP, "*"); (NUMBER, "20")] in
  let m := [("x", "e5"); ("e5", "x"); ("x1", "HH__x1"); ("k", "t"); ("LAG", "nope"); ("e", "nope")] in
  (exists ts, lex s = Ok ts /\ strip ts = line body (Some "# note") /\ content ts = body /\
              ops_safe (content ts) = true) /\
  wf_body body = true /\ wf_comment (Some "# note") = true /\ ident_range m = true /\
  replace_lookup m s =
    Ok "HH__F =LAG_F (t -1 )+0.8 *(HH__x1 -x )/max (e5 ,1e-5 ,0x1f )**2 >=[1.0 ,.5j ]*20 # note".
Proof. vm_compute. repeat split. eexists. repeat split; reflexivity. Qed.
Print Assumptions C13_realistic.
