From Coq Require Import List String.
From SFC.Base Require Import Res.
From SFC.Lex Require Import Lexer Untok.
Import ListNotations.
Local Open Scope string_scope.

Example C13_doctest_1 : replace_token "m_x =(x - x_1)" "x" "b" = Ok "m_x =(b -x_1 )".
Proof. vm_compute. reflexivity. Qed.
Print Assumptions C13_doctest_1.
