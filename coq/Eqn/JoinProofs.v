(** [create_equation_from_terms] (with D12b repaired): for signed elements without interior sign
    characters the result is the concatenation with the right signs, the independent reader gets
    the elements back, and the caller's list is returned as it was passed. *)
From Coq Require Import List String Ascii Bool ZArith Reals Lra.
From SFC.Base Require Import Res Str.
From SFC.Eqn Require Import Lexer LexerProofs Term TermProofs Equation Semantics EquationProofs.
Import ListNotations.
Local Open Scope string_scope.

(** an element: optional explicit sign, then a body *)
Definition elem (e : sg * string) : string := sg_str (fst e) ++ snd e.
Definition chunk_e (e : sg * string) : bool * string :=
  (match fst e with SMinus => false | _ => true end, snd e).
(** body: no whitespace, no sign characters, not empty *)
Definition core_ok (s : string) : bool := no_ws s && no_sign s && negb (String.eqb s "").

Lemma norm_elem_spec e : core_ok (snd e) = true -> norm_elem (elem e) = Ok (render_chunk (chunk_e e)).
Proof.
  destruct e as [o core]. unfold core_ok. simpl. intros H.
  apply andb_true_iff in H as [H Hne]. apply andb_true_iff in H as [Hw Hs]. apply negb_true_iff in Hne.
  unfold norm_elem, elem, chunk_e, render_chunk. simpl.
  assert (Hst : strip (sg_str o ++ core) = sg_str o ++ core).
  { apply strip_id. unfold no_ws in *. destruct o; simpl; rewrite ?Hw; reflexivity. }
  rewrite Hst. destruct o; simpl; try reflexivity.
  destruct core as [|c r]; [discriminate Hne|]. rewrite no_sign_cons in Hs. apply andb_true_iff in Hs as [Hc _].
  unfold is_sign in Hc. apply negb_true_iff in Hc. now rewrite Hc.
Qed.

Lemma norm_loop_spec es : forallb (fun e => core_ok (snd e)) es = true ->
  norm_loop (map elem es) = (map render_chunk (map chunk_e es), None).
Proof.
  induction es as [|e es IH]; simpl; [reflexivity|]. intros H. apply andb_true_iff in H as [He Hes].
  rewrite (norm_elem_spec e He), (IH Hes). reflexivity.
Qed.

Lemma chunk_e_ok es : forallb (fun e => core_ok (snd e)) es = true -> forallb chunk_ok (map chunk_e es) = true.
Proof.
  induction es as [|e es IH]; simpl; [reflexivity|]. intros H. apply andb_true_iff in H as [He Hes].
  rewrite (IH Hes), andb_true_r. unfold core_ok in He. apply andb_true_iff in He as [He Hne].
  apply andb_true_iff in He as [_ Hs]. unfold chunk_ok, chunk_e. simpl. now rewrite Hs, Hne.
Qed.

Theorem join_spec es : es <> [] -> forallb (fun e => core_ok (snd e)) es = true ->
  exists r, join (map elem es) = (Ok r, map elem es) /\ read_rhs r = map chunk_e es.
Proof.
  intros Hne H. exists (drop_plus (cat_all (map render_chunk (map chunk_e es)))).
  destruct (read_rhs_chunks (map chunk_e es)) as [_ Hr];
    [destruct es; [contradiction|discriminate]|apply chunk_e_ok, H|]. cbv zeta in Hr.
  split; [|exact Hr].
  unfold join, join_with. rewrite (norm_loop_spec es H).
  destruct es as [|[o c] es']; [contradiction|]. cbn [map fst snd]. rewrite concat_empty_sep.
  destruct o; reflexivity.
Qed.

Definition elem_val (av : string -> R) (e : sg * string) : R :=
  (match fst e with SMinus => - chain_val av (snd e) | _ => chain_val av (snd e) end)%R.

Theorem join_sum av es r : join (map elem es) = (Ok r, map elem es) -> read_rhs r = map chunk_e es ->
  chunks_val av (read_rhs r) = fold_right (fun e acc => (elem_val av e + acc)%R) 0%R es.
Proof.
  intros _ ->. induction es as [|[o c] es IH]; simpl; [reflexivity|]. rewrite IH.
  unfold chunk_val, chunk_e, elem_val. simpl. destruct o; reflexivity.
Qed.
