(** Facts about [Term.__init__]: what an accepted term looks like, and the sign computed for
    every accepted spelling. *)
From Coq Require Import List String Ascii Bool ZArith Lia.
From SFC.Base Require Import Res Str.
From SFC.Eqn Require Import Lexer LexerProofs Term.
Import ListNotations.
Local Open Scope string_scope.

(** ---- what [parse_term] guarantees ---- *)
Definition no_sign (s : string) : bool := negb (contains_char "+" s) && negb (contains_char "-" s).

(** a well-formed parsed term: not opaque, body non-empty and free of sign characters *)
Definition wf_term (t : term) : bool :=
  negb (blob t) && no_sign (text t) && negb (String.eqb (text t) "").

Lemma parse_term_inv s t : parse_term s = Ok t ->
  wf_term t = true /\ accept_core (text t) = Ok tt /\ simple_text (text t) = true /\
  exists z, peel (squeeze s) = Ok (z, text t) /\ coef t = z.
Proof.
  unfold parse_term. destruct (peel (squeeze s)) as [[z b]|] eqn:Hp; [|discriminate]. simpl.
  destruct (contains_char "+" b) eqn:H1; [discriminate|].
  destruct (contains_char "-" b) eqn:H2; [discriminate|].
  destruct (String.eqb b "") eqn:H3; [discriminate|].
  destruct (accept_core b) as [[]|] eqn:H4; [|discriminate]. intros H. injection H as <-. simpl.
  unfold wf_term, no_sign. simpl. rewrite H1, H2, H3.
  split; [reflexivity|]. split; [exact H4|]. split.
  - apply accept_simple; [|exact H4]. intros ->. discriminate H3.
  - exists z. split; reflexivity.
Qed.

(** ---- string helpers ---- *)
Definition no_ws (s : string) : bool := all_chars (fun c => negb (is_space c)) s.

Lemma rstrip_id s : no_ws s = true -> rstrip s = s.
Proof.
  induction s as [|c s IH]; simpl; [reflexivity|]. intros H. apply andb_true_iff in H as [Hc Hs].
  rewrite (IH Hs). destruct s; [|reflexivity]. apply negb_true_iff in Hc. now rewrite Hc.
Qed.

Lemma strip_id s : no_ws s = true -> strip s = s.
Proof.
  intros H. unfold strip. rewrite (rstrip_id _ H). destruct s as [|c s]; [reflexivity|].
  simpl in *. apply andb_true_iff in H as [Hc _]. apply negb_true_iff in Hc. now rewrite Hc.
Qed.

Lemma remove_space_id s : no_ws s = true -> remove_char " " s = s.
Proof.
  induction s as [|c s IH]; simpl; [reflexivity|]. intros H. apply andb_true_iff in H as [Hc Hs].
  rewrite (IH Hs). destruct (Ascii.eqb_spec c " ") as [->|]; [discriminate Hc|reflexivity].
Qed.

Lemma squeeze_id s : no_ws s = true -> squeeze s = s.
Proof. intros H. unfold squeeze. rewrite (strip_id _ H). apply remove_space_id, H. Qed.

Lemma no_ws_app a b : no_ws (a ++ b) = no_ws a && no_ws b.
Proof. apply all_chars_app. Qed.

Lemma body_char_facts c : (atom_char c || is_muldiv c) = true ->
  is_space c = false /\ Ascii.eqb c "+" = false /\ Ascii.eqb c "-" = false /\ Ascii.eqb c "(" = false
  /\ Ascii.eqb c "#" = false /\ Ascii.eqb c "=" = false.
Proof. ascii_cases c; repeat split. Qed.

Lemma simple_no_ws t : simple_text t = true -> no_ws t = true.
Proof.
  intros H. apply simple_chars in H. unfold no_ws. revert H. apply all_chars_impl.
  intros c Hc. destruct (body_char_facts c Hc) as [-> _]. reflexivity.
Qed.

Lemma all_chars_contains p x s :
  (forall c, p c = true -> Ascii.eqb c x = false) -> all_chars p s = true -> contains_char x s = false.
Proof.
  intros Hp. induction s as [|c s IH]; simpl; [reflexivity|]. intros H. apply andb_true_iff in H as [Hc Hs].
  rewrite (Hp _ Hc). exact (IH Hs).
Qed.

Lemma simple_no_char t x :
  (forall c, (atom_char c || is_muldiv c) = true -> Ascii.eqb c x = false) ->
  simple_text t = true -> contains_char x t = false.
Proof. intros Hx H. apply simple_chars in H. exact (all_chars_contains _ _ _ Hx H). Qed.

Lemma simple_no_plus t : simple_text t = true -> contains_char "+" t = false.
Proof. apply simple_no_char. intros c Hc. apply (body_char_facts c Hc). Qed.
Lemma simple_no_minus t : simple_text t = true -> contains_char "-" t = false.
Proof. apply simple_no_char. intros c Hc. apply (body_char_facts c Hc). Qed.
Lemma simple_no_hash t : simple_text t = true -> contains_char "#" t = false.
Proof. apply simple_no_char. intros c Hc. apply (body_char_facts c Hc). Qed.
Lemma simple_no_eq t : simple_text t = true -> contains_char "=" t = false.
Proof. apply simple_no_char. intros c Hc. apply (body_char_facts c Hc). Qed.

Lemma simple_nonempty t : simple_text t = true -> String.eqb t "" = false.
Proof. unfold simple_text. destruct (String.eqb t ""); [discriminate|reflexivity]. Qed.

Lemma strip_sign_simple t : simple_text t = true -> strip_sign t = (1%Z, t).
Proof.
  intros H. destruct (simple_first _ H) as (c & r & -> & Hc).
  assert (Hc' : (atom_char c || is_muldiv c) = true) by (destruct Hc as [-> | ->]; [reflexivity|apply orb_true_r]).
  destruct (body_char_facts c Hc') as (_ & H1 & H2 & _). simpl. now rewrite H1, H2.
Qed.

Lemma simple_not_paren t : simple_text t = true ->
  match t with String c _ => Ascii.eqb c "(" = false | EmptyString => True end.
Proof.
  intros H. destruct (simple_first _ H) as (c & r & -> & Hc).
  assert (Hc' : (atom_char c || is_muldiv c) = true) by (destruct Hc as [-> | ->]; [reflexivity|apply orb_true_r]).
  apply (body_char_facts c Hc').
Qed.

Lemma ends_with_app x a : ends_with_char x (a ++ String x "") = true.
Proof.
  induction a as [|c a IH]; simpl; [apply Ascii.eqb_refl|].
  destruct (a ++ String x "") eqn:E; [destruct a; discriminate E|exact IH].
Qed.

Lemma remove_last_app x a : remove_last (a ++ String x "") = a.
Proof.
  induction a as [|c a IH]; simpl; [reflexivity|].
  destruct (a ++ String x "") eqn:E; [destruct a; discriminate E|]. now rewrite IH.
Qed.

(** ---- the sign of every accepted spelling ---- *)
Inductive sg := SNone | SPlus | SMinus.
Definition sg_str (s : sg) : string := match s with SNone => "" | SPlus => "+" | SMinus => "-" end.
Definition sg_val (s : sg) : Z := match s with SMinus => (-1)%Z | _ => 1%Z end.

(** [o t], or [o ( i t )] : outer sign, optional bracket pair with inner sign *)
Definition spell (o : sg) (br : option sg) (t : string) : string :=
  sg_str o ++ match br with None => t | Some i => "(" ++ sg_str i ++ t ++ ")" end.
Definition spell_val (o : sg) (br : option sg) : Z :=
  (sg_val o * match br with None => 1 | Some i => sg_val i end)%Z.

Lemma peel_plain t : simple_text t = true -> peel t = Ok (1%Z, t).
Proof.
  intros H. unfold peel. rewrite (strip_sign_simple _ H). simpl.
  pose proof (simple_not_paren _ H) as Hp. destruct t as [|c r]; [reflexivity|]. now rewrite Hp.
Qed.

Lemma peel_signed c z t : simple_text t = true -> strip_sign (String c t) = (z, t) ->
  peel (String c t) = Ok (z, t).
Proof.
  intros H Hs. unfold peel. rewrite Hs. simpl.
  pose proof (simple_not_paren _ H) as Hp. destruct t as [|c' r]; [reflexivity|]. now rewrite Hp.
Qed.

Lemma peel_bracket (pre : string) z1 z2 inner t :
  strip_sign (pre ++ "(" ++ inner ++ t ++ ")") = (z1, "(" ++ inner ++ t ++ ")") ->
  strip_sign (inner ++ t) = (z2, t) ->
  peel (pre ++ "(" ++ inner ++ t ++ ")") = Ok ((z1 * z2)%Z, t).
Proof.
  intros H1 H2. unfold peel. rewrite H1. simpl snd. simpl fst.
  change ("(" ++ inner ++ t ++ ")") with (String "(" (inner ++ t ++ ")")).
  cbv iota beta. rewrite Ascii.eqb_refl.
  replace (String "(" (inner ++ t ++ ")")) with ((String "(" (inner ++ t)) ++ ")")
    by (simpl; now rewrite append_assoc).
  rewrite ends_with_app.
  replace (inner ++ t ++ ")") with ((inner ++ t) ++ ")") by (now rewrite append_assoc).
  rewrite remove_last_app, H2. reflexivity.
Qed.

Lemma parse_after_peel s z t :
  peel (squeeze s) = Ok (z, t) -> simple_text t = true -> accept_core t = Ok tt ->
  parse_term s = Ok (mkTerm z t false).
Proof.
  intros Hp Hs Ha. unfold parse_term. rewrite Hp. simpl.
  now rewrite (simple_no_plus _ Hs), (simple_no_minus _ Hs), (simple_nonempty _ Hs), Ha.
Qed.

Theorem spelling_sign (o : sg) (br : option sg) (t : string) :
  t <> "" -> accept_core t = Ok tt ->
  parse_term (spell o br t) = Ok (mkTerm (spell_val o br) t false).
Proof.
  intros Hne Ha. pose proof (accept_simple _ Hne Ha) as Hs.
  pose proof (simple_no_ws _ Hs) as Hw. pose proof (strip_sign_simple _ Hs) as Hss.
  apply parse_after_peel; [|exact Hs|exact Ha].
  assert (Hsq : squeeze (spell o br t) = spell o br t).
  { apply squeeze_id. unfold spell, no_ws in *.
    destruct o, br as [[]|]; simpl; rewrite ?all_chars_app, ?Hw; reflexivity. }
  rewrite Hsq. unfold spell, spell_val.
  destruct br as [i|].
  - apply (peel_bracket (sg_str o) (sg_val o) (sg_val i) (sg_str i) t).
    + destruct o; reflexivity.
    + destruct i; simpl; try reflexivity; exact Hss.
  - rewrite Z.mul_1_r. destruct o; simpl.
    + apply peel_plain, Hs.
    + apply peel_signed; [exact Hs|reflexivity].
    + apply peel_signed; [exact Hs|reflexivity].
Qed.
