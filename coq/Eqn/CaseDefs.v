(** Boolean comparison helpers used by the generated correspondence cases (C12, C06). *)
From Coq Require Import List String Ascii Bool ZArith.
From SFC.Base Require Import Res Str.
From SFC.Eqn Require Import Lexer Term Equation Ledger.
Import ListNotations.
Local Open Scope string_scope.

Fixpoint list_eqb {A} (eqb : A -> A -> bool) (a b : list A) : bool :=
  match a, b with
  | [], [] => true
  | x :: a', y :: b' => eqb x y && list_eqb eqb a' b'
  | _, _ => false
  end.

Definition opt_eqb {A} (eqb : A -> A -> bool) (a b : option A) : bool :=
  match a, b with Some x, Some y => eqb x y | None, None => true | _, _ => false end.

Definition res_eqb {A} (eqb : A -> A -> bool) (a b : result A) : bool :=
  match a, b with Ok x, Ok y => eqb x y | Err e, Err f => err_eqb e f | _, _ => false end.

Definition term_eqb (a b : term) : bool :=
  Z.eqb (coef a) (coef b) && String.eqb (text a) (text b) && Bool.eqb (blob a) (blob b).

(** [Term(s)] / [Term(s, is_blob=True)]: (Constant, Term, IsBlob) or the exception class *)
Definition c12_term_case (s : string) (as_blob : bool) (expected : result term) : bool :=
  res_eqb term_eqb (if as_blob then Ok (mk_blob s) else parse_term s) expected.

Definition out_eqb (a b : option err * string) : bool :=
  opt_eqb err_eqb (fst a) (fst b) && String.eqb (snd a) (snd b).

(** [Equation(l, d, rhs)] then a history of [AddTerm] calls: the constructor's outcome
    ([str(eq)] or the exception class) and, after every call, the exception class and [str(eq)] *)
Definition c12_hist_case (l d : string) (rhs : rhs_arg) (args : list targ)
           (exp_init : result string) (exp_trace : list (option err * string)) : bool :=
  match equation_init l d rhs, exp_init with
  | Err e, Err f => err_eqb e f
  | Ok q, Ok s => String.eqb (str_eqn q) s && list_eqb out_eqb (trace_with add_nb q args) exp_trace
  | _, _ => false
  end.

(** [create_equation_from_terms(l)]: result and the caller's list after the call *)
Definition c12_join_case (l : list string) (exp : result string) (after : list string) : bool :=
  let r := join l in
  res_eqb String.eqb (fst r) exp && list_eqb String.eqb (snd r) after.

(** one sector history: after every op the exception class and [str(eq)] of every variable
    (sorted by name on the Python side; here: same key set, same rendering per key) *)
Definition view_eqb (s : sector) (exp : list (string * string)) : bool :=
  Nat.eqb (List.length (block s)) (List.length exp) &&
  forallb (fun kv => match lookup (fst kv) (block s) with
                     | Some q => String.eqb (str_eqn q) (snd kv)
                     | None => false
                     end) exp.

Fixpoint c06_trace (s : sector) (ops : list op) (exp : list (option err * list (string * string))) : bool :=
  match ops, exp with
  | [], [] => true
  | o :: r, (e, v) :: r' =>
      let se := step o s in
      opt_eqb err_eqb (snd se) e && view_eqb (fst se) v && c06_trace (fst se) r r'
  | _, _ => false
  end.

Definition c06_case (ops : list op) (exp : list (option err * list (string * string))) : bool :=
  c06_trace fresh ops exp.
