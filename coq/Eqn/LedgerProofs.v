(** Proofs about the sector ledger: F and INC equal the running signed sums over every history
    of in-scope operations; the definition rule of [AddCashFlow]; rejected registrations. *)
From Coq Require Import List String Ascii Bool ZArith Reals Lra Lia.
From SFC.Base Require Import Res Str.
From SFC.Eqn Require Import Lexer LexerProofs Term TermProofs Equation Semantics EquationProofs Ledger LedgerSpec.
Import ListNotations.
Local Open Scope string_scope.
Local Open Scope R_scope.

(** ---- association list ---- *)
Lemma lookup_set_same n q b : lookup n (set_eq n q b) = Some q.
Proof.
  induction b as [|[k q0] r IH]; simpl; [now rewrite String.eqb_refl|].
  destruct (String.eqb n k) eqn:E; simpl; rewrite E; [reflexivity|exact IH].
Qed.

Lemma lookup_set_other n m q b : n <> m -> lookup n (set_eq m q b) = lookup n b.
Proof.
  intros Hne. induction b as [|[k q0] r IH]; simpl.
  - destruct (String.eqb_spec n m); [contradiction|reflexivity].
  - destruct (String.eqb m k) eqn:E; simpl.
    + apply String.eqb_eq in E. subst k. destruct (String.eqb_spec n m); [contradiction|reflexivity].
    + destruct (String.eqb n k); [reflexivity|exact IH].
Qed.

(** ---- Equation.__init__ on the argument shapes the sector uses ---- *)
Lemma init_core_lhs add l d r q : init_core_with add l d r = Ok q ->
  lhs q = if contains_char "=" l then strip (fst (split_first "=" l)) else l.
Proof.
  unfold init_core_with. destruct (contains_char "=" l); simpl;
    match goal with |- match ?X with _ => _ end = _ -> _ => destruct X; [|discriminate] end;
    intros H; injection H as <-; reflexivity.
Qed.

Lemma equation_init_lhs n d r q : equation_init n d r = Ok q -> lhs q = init_lhs n.
Proof.
  unfold equation_init, equation_init_with, init_lhs. destruct (contains_char "#" n); apply init_core_lhs.
Qed.

Lemma init_lhs_simple t : simple_text t = true -> init_lhs t = t.
Proof. intros H. unfold init_lhs. now rewrite (simple_no_hash _ H), (simple_no_eq _ H). Qed.

Lemma equation_init_blob t d e : simple_text t = true ->
  equation_init t d (RList [TObj (mk_blob e)]) = Ok (mkEqn t d [mk_blob e]).
Proof.
  intros H. unfold equation_init, equation_init_with, init_core_with.
  rewrite (simple_no_hash _ H), (simple_no_eq _ H). reflexivity.
Qed.

(** ---- frame facts of the single operations ---- *)
Lemma add_variable_frame n d e s k : k <> init_lhs n ->
  lookup k (block (fst (add_variable n d e s))) = lookup k (block s).
Proof.
  intros Hk. unfold add_variable. destruct (has_substring "__" n); [reflexivity|].
  destruct (equation_init n d (RList [TObj (mk_blob e)])) as [q|] eqn:E; [|reflexivity].
  simpl. apply lookup_set_other. now rewrite (equation_init_lhs _ _ _ _ E).
Qed.

Lemma add_variable_excl n d e s : excl (fst (add_variable n d e s)) = excl s.
Proof.
  unfold add_variable. destruct (has_substring "__" n); [reflexivity|].
  destruct (equation_init n d (RList [TObj (mk_blob e)])); reflexivity.
Qed.

Lemma set_rhs_frame n e s k : k <> n -> lookup k (block (fst (set_rhs n e s))) = lookup k (block s).
Proof.
  intros Hk. unfold set_rhs. destruct (lookup n (block s)); [|reflexivity]. simpl. now apply lookup_set_other.
Qed.

Lemma set_rhs_excl n e s : excl (fst (set_rhs n e s)) = excl s.
Proof. unfold set_rhs. destruct (lookup n (block s)); reflexivity. Qed.

Lemma add_to_frame n t s k : k <> n -> lookup k (block (fst (add_to n t s))) = lookup k (block s).
Proof.
  intros Hk. unfold add_to. destruct (lookup n (block s)); [|reflexivity].
  destruct (add_term t (terms e)); [|reflexivity]. simpl. now apply lookup_set_other.
Qed.

Lemma add_to_excl n t s : excl (fst (add_to n t s)) = excl s.
Proof.
  unfold add_to. destruct (lookup n (block s)); [|reflexivity]. destruct (add_term t (terms e)); reflexivity.
Qed.

Lemma add_to_hit n t s q : blob t = false -> lookup n (block s) = Some q ->
  add_to n t s = (mkSector (set_eq n (mkEqn (lhs q) (desc q) (add_nb t (terms q))) (block s)) (excl s), None).
Proof.
  intros Hb Hl. unfold add_to. rewrite Hl. unfold add_term, add_term_with. now rewrite Hb, andb_false_r.
Qed.

Lemma protected_neq n : protected n = false -> n <> "F" /\ n <> "INC".
Proof.
  unfold protected. intros H. apply orb_false_iff in H as [H1 H2].
  split; intros ->; discriminate.
Qed.

(** ---- the ledger part of AddCashFlow ---- *)
Lemma book_spec tm inc s qF qI : blob tm = false ->
  lookup "F" (block s) = Some qF -> lookup "INC" (block s) = Some qI ->
  exists s2, book tm inc s = (s2, None) /\ excl s2 = excl s /\
    lookup "F" (block s2) = Some (mkEqn (lhs qF) (desc qF) (add_nb tm (terms qF))) /\
    lookup "INC" (block s2) =
      Some (if inc && negb (mem (text tm) (excl s))
            then mkEqn (lhs qI) (desc qI) (add_nb tm (terms qI)) else qI) /\
    (forall k, protected k = false -> lookup k (block s2) = lookup k (block s)).
Proof.
  intros Hb HF HI. unfold book. rewrite (add_to_hit "F" tm s qF Hb HF).
  set (s1 := mkSector (set_eq "F" _ (block s)) (excl s)).
  assert (HI1 : lookup "INC" (block s1) = Some qI) by (subst s1; simpl; rewrite lookup_set_other; [exact HI|discriminate]).
  assert (HF1 : lookup "F" (block s1) = Some (mkEqn (lhs qF) (desc qF) (add_nb tm (terms qF))))
    by (subst s1; simpl; apply lookup_set_same).
  change (excl s1) with (excl s).
  destruct (inc && negb (mem (text tm) (excl s))) eqn:Hinc.
  - rewrite (add_to_hit "INC" tm s1 qI Hb HI1). eexists. split; [reflexivity|]. simpl.
    split; [reflexivity|]. split; [rewrite lookup_set_other; [exact HF1|discriminate]|].
    split; [apply lookup_set_same|].
    intros k Hk. destruct (protected_neq _ Hk) as [K1 K2].
    rewrite lookup_set_other by exact K2. subst s1. simpl. now apply lookup_set_other.
  - exists s1. split; [reflexivity|]. split; [reflexivity|]. split; [exact HF1|]. split; [exact HI1|].
    intros k Hk. destruct (protected_neq _ Hk) as [K1 K2]. subst s1. simpl. now apply lookup_set_other.
Qed.

Lemma define_frame nm ex s k : simple_text nm = true -> k <> nm ->
  lookup k (block (fst (define nm ex s))) = lookup k (block s).
Proof.
  intros Hs Hk. unfold define. destruct (lookup nm (block s)) as [q|].
  - destruct (is_zero_rhs (render_rhs (terms q))); [now apply set_rhs_frame|reflexivity].
  - apply add_variable_frame. now rewrite (init_lhs_simple _ Hs).
Qed.

Lemma define_excl nm ex s : excl (fst (define nm ex s)) = excl s.
Proof.
  unfold define. destruct (lookup nm (block s)) as [q|]; [|apply add_variable_excl].
  destruct (is_zero_rhs (render_rhs (terms q))); [apply set_rhs_excl|reflexivity].
Qed.

(** ---- one step preserves the ledger invariant ---- *)
Lemma flow_of_wf o tm : flow_of o = Some tm -> wf_term tm = true /\ simple_text (text tm) = true.
Proof.
  destruct o; try discriminate. simpl. destruct (String.eqb (strip t) ""); [discriminate|].
  destruct (parse_term (strip t)) as [tm'|] eqn:E; [|discriminate]. intros H. injection H as <-.
  destruct (parse_term_inv _ _ E) as (H1 & _ & H2 & _). split; assumption.
Qed.

Lemma wf_blob tm : wf_term tm = true -> blob tm = false.
Proof.
  unfold wf_term. intros H. apply andb_true_iff in H as [H _]. apply andb_true_iff in H as [H _].
  now apply negb_true_iff in H.
Qed.

Lemma step_ledger v o s qF qI : op_ok o = true ->
  lookup "F" (block s) = Some qF -> lookup "INC" (block s) = Some qI ->
  exists qF' qI',
    lookup "F" (block (fst (step o s))) = Some qF' /\
    lookup "INC" (block (fst (step o s))) = Some qI' /\
    excl (fst (step o s)) = excl_after o (excl s) /\
    denote v (terms qF') = denote v (terms qF) + dF v o /\
    denote v (terms qI') = denote v (terms qI) + dINC v (excl s) o.
Proof.
  intros Hok HF HI.
  assert (Same : forall s', lookup "F" (block s') = Some qF -> lookup "INC" (block s') = Some qI ->
                 excl s' = excl s -> dF v o = 0 -> dINC v (excl s) o = 0 -> excl_after o (excl s) = excl s ->
                 exists qF' qI', lookup "F" (block s') = Some qF' /\ lookup "INC" (block s') = Some qI' /\
                   excl s' = excl_after o (excl s) /\
                   denote v (terms qF') = denote v (terms qF) + dF v o /\
                   denote v (terms qI') = denote v (terms qI) + dINC v (excl s) o).
  { intros s' H1 H2 H3 H4 H5 H6. exists qF, qI. rewrite H4, H5, H6. repeat split; try assumption; lra. }
  destruct o as [n d e|n e|n t|name|name|t e inc]; simpl in Hok; simpl step.
  - (* AddVariable *)
    apply negb_true_iff in Hok. destruct (protected_neq _ Hok) as [K1 K2].
    apply Same; try reflexivity.
    + rewrite add_variable_frame; [exact HF|congruence].
    + rewrite add_variable_frame; [exact HI|congruence].
    + apply add_variable_excl.
  - (* SetRHS *)
    apply negb_true_iff in Hok. destruct (protected_neq _ Hok) as [K1 K2].
    apply Same; try reflexivity.
    + rewrite set_rhs_frame; [exact HF|congruence].
    + rewrite set_rhs_frame; [exact HI|congruence].
    + apply set_rhs_excl.
  - (* AddTermToEquation *)
    apply negb_true_iff in Hok. destruct (protected_neq _ Hok) as [K1 K2].
    destruct (parse_term t) as [tm|]; [|apply Same; try reflexivity; assumption].
    apply Same; try reflexivity.
    + rewrite add_to_frame; [exact HF|congruence].
    + rewrite add_to_frame; [exact HI|congruence].
    + apply add_to_excl.
  - (* AddExclusion *)
    exists qF, qI. simpl. unfold dF. simpl. repeat split; try assumption; lra.
  - (* exclusion for another sector *)
    apply Same; try reflexivity; assumption.
  - (* AddCashFlow *)
    unfold add_cash_flow.
    destruct (String.eqb (strip t) "") eqn:Ee.
    { apply Same; try reflexivity; try assumption; unfold dF, dINC; simpl; now rewrite Ee. }
    destruct (parse_term (strip t)) as [tm|x] eqn:Ep.
    2:{ apply Same; try reflexivity; try assumption; unfold dF, dINC; simpl; now rewrite Ee, Ep. }
    assert (EdF : dF v (OAddCashFlow t e inc) = flow_val v tm) by (unfold dF; simpl; now rewrite Ee, Ep).
    assert (EdI : dINC v (excl s) (OAddCashFlow t e inc) =
                  if inc && negb (mem (text tm) (excl s)) then flow_val v tm else 0)
      by (unfold dINC; simpl; now rewrite Ee, Ep).
    rewrite EdF, EdI. cbn [excl_after].
    destruct (parse_term_inv _ _ Ep) as (Hw & _ & Hs & _). pose proof (wf_blob _ Hw) as Hb.
    destruct (book_spec tm inc s qF qI Hb HF HI) as (s2 & B0 & B1 & B2 & B3 & B4). rewrite B0.
    assert (Done : exists qF' qI', lookup "F" (block s2) = Some qF' /\ lookup "INC" (block s2) = Some qI' /\
              excl s2 = excl s /\
              denote v (terms qF') = denote v (terms qF) + flow_val v tm /\
              denote v (terms qI') = denote v (terms qI) +
                 (if inc && negb (mem (text tm) (excl s)) then flow_val v tm else 0)).
    { eexists. eexists. split; [exact B2|]. split; [exact B3|]. split; [exact B1|]. simpl. split.
      - apply add_nb_denote, Hb.
      - destruct (inc && negb (mem (text tm) (excl s))); simpl; [apply add_nb_denote, Hb|lra]. }
    destruct e as [ex|]; [|exact Done].
    apply negb_true_iff in Hok. destruct (protected_neq _ Hok) as [K1 K2].
    destruct Done as (qF' & qI' & D1 & D2 & D3 & D4 & D5). exists qF', qI'.
    split; [rewrite define_frame; [exact D1|exact Hs|congruence]|].
    split; [rewrite define_frame; [exact D2|exact Hs|congruence]|].
    split; [now rewrite define_excl|]. split; assumption.
Qed.

Theorem run_ledger v ops : forall s qF qI, forallb op_ok ops = true ->
  lookup "F" (block s) = Some qF -> lookup "INC" (block s) = Some qI ->
  exists qF' qI',
    lookup "F" (block (run ops s)) = Some qF' /\ lookup "INC" (block (run ops s)) = Some qI' /\
    denote v (terms qF') = denote v (terms qF) + sum_F v ops /\
    denote v (terms qI') = denote v (terms qI) + sum_INC v (excl s) ops.
Proof.
  unfold run. induction ops as [|o r IH]; intros s qF qI Hok HF HI; simpl.
  - exists qF, qI. repeat split; try assumption; lra.
  - simpl in Hok. apply andb_true_iff in Hok as [Ho Hr].
    destruct (step_ledger v o s qF qI Ho HF HI) as (qF1 & qI1 & S1 & S2 & S3 & S4 & S5).
    destruct (IH _ _ _ Hr S1 S2) as (qF' & qI' & R1 & R2 & R3 & R4).
    exists qF', qI'. split; [exact R1|]. split; [exact R2|]. rewrite R3, R4, S3, S4, S5. split; lra.
Qed.

(** ---- the definition rule ---- *)
Theorem cash_flow_def s t e inc tm qF qI :
  String.eqb (strip t) "" = false -> parse_term (strip t) = Ok tm -> protected (text tm) = false ->
  lookup "F" (block s) = Some qF -> lookup "INC" (block s) = Some qI ->
  let r := step (OAddCashFlow t (Some e) inc) s in
  (match lookup (text tm) (block s) with
   | Some q =>
       if is_zero_rhs (render_rhs (terms q))
       then lookup (text tm) (block (fst r)) = Some (mkEqn (lhs q) (desc q) [mk_blob e])
       else lookup (text tm) (block (fst r)) = Some q
   | None =>
       if has_substring "__" (text tm)
       then lookup (text tm) (block (fst r)) = None /\ snd r = Some ValueError
       else lookup (text tm) (block (fst r)) = Some (mkEqn (text tm) "" [mk_blob e])
   end) /\
  (forall k, k <> text tm -> protected k = false -> lookup k (block (fst r)) = lookup k (block s)).
Proof.
  intros Ee Ep Hp HF HI r. subst r. simpl step. unfold add_cash_flow. rewrite Ee, Ep.
  destruct (parse_term_inv _ _ Ep) as (Hw & _ & Hs & _). pose proof (wf_blob _ Hw) as Hb.
  destruct (book_spec tm inc s qF qI Hb HF HI) as (s2 & B0 & B1 & B2 & B3 & B4). rewrite B0.
  split.
  - rewrite <- (B4 _ Hp). unfold define. destruct (lookup (text tm) (block s2)) as [q|] eqn:El.
    + destruct (is_zero_rhs (render_rhs (terms q))); [|exact El].
      unfold set_rhs. rewrite El. simpl. apply lookup_set_same.
    + unfold add_variable. destruct (has_substring "__" (text tm)); [split; [exact El|reflexivity]|].
      rewrite (equation_init_blob _ "" e Hs). simpl. apply lookup_set_same.
  - intros k Hk Hpk. rewrite define_frame; [now apply B4|exact Hs|exact Hk].
Qed.

(** ---- a registration [Term] rejects ---- *)
Theorem cash_flow_reject s t e inc x :
  String.eqb (strip t) "" = false -> parse_term (strip t) = Err x ->
  step (OAddCashFlow t e inc) s = (s, Some x).
Proof. intros Ee Ep. simpl. unfold add_cash_flow. now rewrite Ee, Ep. Qed.

Theorem cash_flow_empty s t e inc : String.eqb (strip t) "" = true ->
  step (OAddCashFlow t e inc) s = (s, None).
Proof. intros Ee. simpl. unfold add_cash_flow. now rewrite Ee. Qed.
