(** What the C06 theorems say about a history of sector operations: the running sums the ledger
    equations must equal, and which operations are inside the property (user code that overwrites
    F / INC itself is not a cash-flow registration). *)
From Coq Require Import List String Ascii Bool ZArith Reals.
From SFC.Base Require Import Res Str.
From SFC.Eqn Require Import Lexer Term Equation Semantics Ledger.
Import ListNotations.
Local Open Scope string_scope.
Local Open Scope R_scope.

(** the term a registration books, when [Term] accepts its spelling *)
Definition flow_of (o : op) : option term :=
  match o with
  | OAddCashFlow t _ _ =>
      let s := strip t in
      if String.eqb s "" then None
      else match parse_term s with Ok tm => Some tm | Err _ => None end
  | _ => None
  end.

Definition flow_val (v : string -> R) (tm : term) : R := IZR (coef tm) * v (text tm).

(** contribution of one operation to F *)
Definition dF (v : string -> R) (o : op) : R :=
  match flow_of o with Some tm => flow_val v tm | None => 0 end.

(** contribution to INC, given the exclusions in force when the operation is executed *)
Definition dINC (v : string -> R) (ex : list string) (o : op) : R :=
  match o with
  | OAddCashFlow _ _ inc =>
      match flow_of o with
      | Some tm => if inc && negb (mem (text tm) ex) then flow_val v tm else 0
      | None => 0
      end
  | _ => 0
  end.

Definition excl_after (o : op) (ex : list string) : list string :=
  match o with OAddExclusion n => (ex ++ [n])%list | _ => ex end.

Fixpoint sum_F (v : string -> R) (ops : list op) : R :=
  match ops with [] => 0 | o :: r => dF v o + sum_F v r end.

Fixpoint sum_INC (v : string -> R) (ex : list string) (ops : list op) : R :=
  match ops with [] => 0 | o :: r => dINC v ex o + sum_INC v (excl_after o ex) r end.

Definition protected (n : string) : bool := String.eqb n "F" || String.eqb n "INC".

(** operations inside the property: nothing overwrites or edits F / INC directly, and no flow
    that carries a definition is itself called F or INC *)
Definition op_ok (o : op) : bool :=
  match o with
  | OAddVariable n _ _ => negb (protected (init_lhs n))
  | OSetRHS n _ => negb (protected n)
  | OAddTermToEq n _ => negb (protected n)
  | OAddCashFlow _ (Some _) _ =>
      match flow_of o with Some tm => negb (protected (text tm)) | None => true end
  | _ => true
  end.
