(** Model of [sfc_models.equation.Equation] ([__init__], [ParseString], [AddTerm],
    [GetRightHandSide], [__str__]) and of [sfc_models.utils.create_equation_from_terms].
    Main definitions describe the code with the proposed fixes D12a / D12b applied; the
    behaviour of the unchanged code is kept as [add_nb_orig] / [join_orig]. *)
From Coq Require Import List String Ascii Bool ZArith.
From SFC.Base Require Import Res Str.
From SFC.Eqn Require Import Lexer Term.
Import ListNotations.
Local Open Scope string_scope.

(** ---- AddTerm ---- *)

(** the merge-or-append loop, for a term that passed the blob test.
    Fixed (D12a): an opaque term never absorbs a later term. *)
Fixpoint add_nb (t : term) (l : list term) : list term :=
  match l with
  | [] => [t]
  | o :: r =>
      if negb (blob o) && String.eqb (text t) (text o)
      then mkTerm (coef o + coef t) (text o) (blob o) :: r
      else o :: add_nb t r
  end.

(** unchanged code: the first term with equal text absorbs the coefficient, blob or not. *)
Fixpoint add_nb_orig (t : term) (l : list term) : list term :=
  match l with
  | [] => [t]
  | o :: r =>
      if String.eqb (text t) (text o)
      then mkTerm (coef o + coef t) (text o) (blob o) :: r
      else o :: add_nb_orig t r
  end.

Definition is_nil {A} (l : list A) : bool := match l with [] => true | _ => false end.

Definition add_term_with (add : term -> list term -> list term) (t : term) (l : list term)
  : result (list term) :=
  if negb (is_nil l) && blob t then Err LogicError else Ok (add t l).
Definition add_term := add_term_with add_nb.
Definition add_term_orig := add_term_with add_nb_orig.

(** the argument of [AddTerm]: a string (parsed as a non-blob term) or a [Term] object (copied) *)
Inductive targ := TStr (s : string) | TObj (t : term).
Definition to_term (a : targ) : result term :=
  match a with TStr s => parse_term s | TObj t => Ok t end.
Definition add_arg_with add (a : targ) (l : list term) : result (list term) :=
  match to_term a with Err e => Err e | Ok t => add_term_with add t l end.
Definition add_arg := add_arg_with add_nb.
Definition add_arg_orig := add_arg_with add_nb_orig.

(** ---- rendering ---- *)
Definition drop_plus (s : string) : string :=
  match s with String c r => if Ascii.eqb c "+" then r else s | EmptyString => s end.

Definition render_rhs (l : list term) : string :=
  let out := drop_plus (String.concat "" (map render_term l)) in
  if String.eqb out "" then "0.0" else out.

(** ---- Equation.__init__ ---- *)
Record eqn := mkEqn { lhs : string; desc : string; terms : list term }.

Inductive rhs_arg := RStr (s : string) | RList (l : list targ).

(** [Equation.ParseString]: one parsed term, or one blob when [Term] raises LogicError,
    SyntaxError or NotImplementedError; a TokenError propagates. *)
Definition parse_string (s : string) : result (list term) :=
  match parse_term s with
  | Ok t => Ok [t]
  | Err LogicError | Err SyntaxError | Err NotImplemented => Ok [mk_blob s]
  | Err e => Err e
  end.

Fixpoint add_all_with add (args : list targ) (acc : list term) : result (list term) :=
  match args with
  | [] => Ok acc
  | a :: r => match add_arg_with add a acc with Err e => Err e | Ok acc' => add_all_with add r acc' end
  end.

(** text before / after the first occurrence of a character *)
Fixpoint split_first (x : ascii) (s : string) : string * string :=
  match s with
  | EmptyString => ("", "")
  | String c r => if Ascii.eqb c x then ("", r)
                  else let ab := split_first x r in (String c (fst ab), snd ab)
  end.

Definition init_core_with add (l d : string) (rhs : rhs_arg) : result eqn :=
  let lr := if contains_char "=" l
            then let ab := split_first "=" l in (strip (fst ab), RStr (snd ab))
            else (l, rhs) in
  match (match snd lr with
         | RStr s => match parse_string s with
                     | Err e => Err e
                     | Ok ts => add_all_with add (map TObj ts) []
                     end
         | RList args => add_all_with add args []
         end) with
  | Err e => Err e
  | Ok ts => Ok (mkEqn (fst lr) d ts)
  end.

Definition equation_init_with add (l d : string) (rhs : rhs_arg) : result eqn :=
  if contains_char "#" l
  then let ab := split_first "#" l in init_core_with add (strip (fst ab)) (strip (snd ab)) rhs
  else init_core_with add l d rhs.
Definition equation_init := equation_init_with add_nb.
Definition equation_init_orig := equation_init_with add_nb_orig.

(** the left-hand side [Equation(l, …)] ends up with *)
Definition init_lhs (l : string) : string :=
  let l1 := if contains_char "#" l then strip (fst (split_first "#" l)) else l in
  if contains_char "=" l1 then strip (fst (split_first "=" l1)) else l1.

(** [str(equation)] *)
Definition str_eqn (q : eqn) : string :=
  if String.eqb (desc q) "" then lhs q ++ "=" ++ render_rhs (terms q)
  else lhs q ++ "=" ++ render_rhs (terms q) ++ " # " ++ desc q.

(** ---- histories of AddTerm calls: a rejected call raises and leaves the equation as it was ---- *)
Definition hist_step_with add (l : list term) (a : targ) : list term :=
  match add_arg_with add a l with Ok l' => l' | Err _ => l end.
Definition run_adds_with add (args : list targ) (l : list term) : list term :=
  fold_left (hist_step_with add) args l.
Definition run_adds := run_adds_with add_nb.

(** outcomes of a history, for the correspondence: after each call the exception class (if any)
    and [str(eq)] *)
Fixpoint trace_with add (q : eqn) (args : list targ) : list (option err * string) :=
  match args with
  | [] => []
  | a :: r =>
      match add_arg_with add a (terms q) with
      | Ok l' => let q' := mkEqn (lhs q) (desc q) l' in (None, str_eqn q') :: trace_with add q' r
      | Err e => (Some e, str_eqn q) :: trace_with add q r
      end
  end.

(** ---- create_equation_from_terms ---- *)
Definition norm_elem (s : string) : result string :=
  match strip s with
  | EmptyString => Err IndexError
  | String c r => if Ascii.eqb c "+" || Ascii.eqb c "-" then Ok (String c r) else Ok (String "+" (String c r))
  end.

(** the normalising loop with write-back: on an [IndexError] at position i the first i elements
    have already been replaced. *)
Fixpoint norm_loop (l : list string) : list string * option err :=
  match l with
  | [] => ([], None)
  | s :: r =>
      match norm_elem s with
      | Err e => (l, Some e)
      | Ok s' => let re := norm_loop r in (s' :: fst re, snd re)
      end
  end.

(** returns (result, the list the caller passed in, after the call).
    [fixed = true]: D12b repaired (works on a copy, drops only the leading '+'). *)
Definition join_with (fixed : bool) (l : list string) : result string * list string :=
  match l with
  | [] => (Ok "", [])
  | _ =>
      let le := norm_loop l in
      match snd le with
      | Some e => (Err e, if fixed then l else fst le)
      | None =>
          match fst le with
          | [] => (Ok "", [])
          | f :: r =>
              let f' := match f with
                        | String c rest =>
                            if Ascii.eqb c "+" then (if fixed then rest else remove_char "+" f) else f
                        | EmptyString => f
                        end in
              (Ok (String.concat "" (f' :: r)), if fixed then l else f' :: r)
          end
      end
  end.
Definition join := join_with true.
Definition join_orig := join_with false.
