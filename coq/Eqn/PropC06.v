(** C06 — Sector ledgers reflect exactly the cash flows recorded on them.  Property theorems only;
    proofs are in LedgerProofs.v (on top of EquationProofs.v: the C12 merge lemma).
    Model: Ledger.v (Sector.__init__ with has_F, AddVariable, SetEquationRightHandSide,
    AddTermToEquation, AddCashFlow, Model.AddCashFlowIncomeExclusion restricted to one sector);
    specification functions: LedgerSpec.v ([sum_F], [sum_INC], [op_ok]). *)
From Coq Require Import List String Ascii Bool ZArith Reals Lra.
From SFC.Base Require Import Res Str.
From SFC.Eqn Require Import Lexer Term TermProofs Equation Semantics EquationProofs Ledger LedgerSpec LedgerProofs.
Import ListNotations.
Local Open Scope string_scope.

(** After ANY history of in-scope operations on a fresh sector (registrations in any spelling,
    accepted or rejected, with or without definitions; exclusions before or after the flows they
    name; variable definitions, right-hand-side changes and term additions on other variables),
    under every assignment [v] of reals to the term texts:
    F = last period's assets + the signed sum of all registered flows. *)
Theorem C06_F : forall (v : string -> R) (ops : list op), forallb op_ok ops = true ->
  exists qF, lookup "F" (block (run ops fresh)) = Some qF /\
             denote v (terms qF) = (v "LAG_F" + sum_F v ops)%R.
Proof.
  intros v ops Hok.
  destruct (run_ledger v ops fresh _ _ Hok eq_refl eq_refl) as (qF & qI & H1 & _ & H3 & _).
  exists qF. split; [exact H1|]. rewrite H3. unfold denote, term_val. simpl. lra.
Qed.
Print Assumptions C06_F.

(** INC = the signed sum of exactly those flows registered as income whose text was not excluded
    for this sector at the time of the registration. *)
Theorem C06_INC : forall (v : string -> R) (ops : list op), forallb op_ok ops = true ->
  exists qI, lookup "INC" (block (run ops fresh)) = Some qI /\
             denote v (terms qI) = sum_INC v [] ops.
Proof.
  intros v ops Hok.
  destruct (run_ledger v ops fresh _ _ Hok eq_refl eq_refl) as (qF & qI & _ & H2 & _ & H4).
  exists qI. split; [exact H2|]. rewrite H4. unfold denote. simpl. lra.
Qed.
Print Assumptions C06_INC.

(** The same from any sector state that has F and INC (e.g. a sector a subclass constructor has
    already written to). *)
Theorem C06_ledger_any_state : forall (v : string -> R) ops s qF qI, forallb op_ok ops = true ->
  lookup "F" (block s) = Some qF -> lookup "INC" (block s) = Some qI ->
  exists qF' qI',
    lookup "F" (block (run ops s)) = Some qF' /\ lookup "INC" (block (run ops s)) = Some qI' /\
    denote v (terms qF') = (denote v (terms qF) + sum_F v ops)%R /\
    denote v (terms qI') = (denote v (terms qI) + sum_INC v (excl s) ops)%R.
Proof. intros v ops. exact (run_ledger v ops). Qed.
Print Assumptions C06_ledger_any_state.

(** Registering a flow with a defining expression: the flow variable is defined (as the opaque
    expression [e]) when it was absent, or rendered '' / '0.0'; any other existing definition is
    left as it is; an absent variable whose name contains "__" cannot be created (ValueError, after
    the ledger has been updated); no other variable changes (F and INC receive the term). *)
Theorem C06_def : forall s t e inc tm qF qI,
  String.eqb (strip t) "" = false -> parse_term (strip t) = Ok tm -> protected (text tm) = false ->
  lookup "F" (block s) = Some qF -> lookup "INC" (block s) = Some qI ->
  let r := step (OAddCashFlow t (Some e) inc) s in
  (match lookup (text tm) (block s) with
   | Some q =>
       if is_zero_rhs (render_rhs (terms q))
       then lookup (text tm) (block (fst r)) = Some (mkEqn (lhs q) (desc q) [mk_blob e])
       else lookup (text tm) (block (fst r)) = Some q
   | None =>
       if has_substring "__" (text tm)
       then lookup (text tm) (block (fst r)) = None /\ snd r = Some ValueError
       else lookup (text tm) (block (fst r)) = Some (mkEqn (text tm) "" [mk_blob e])
   end) /\
  (forall k, k <> text tm -> protected k = false -> lookup k (block (fst r)) = lookup k (block s)).
Proof. exact cash_flow_def. Qed.
Print Assumptions C06_def.

(** A registration the Term parser rejects raises that error and leaves the sector unchanged; an
    empty term is a no-op. *)
Theorem C06_reject : forall s t e inc x,
  String.eqb (strip t) "" = false -> parse_term (strip t) = Err x ->
  step (OAddCashFlow t e inc) s = (s, Some x).
Proof. exact cash_flow_reject. Qed.
Print Assumptions C06_reject.

Theorem C06_empty_term : forall s t e inc, String.eqb (strip t) "" = true ->
  step (OAddCashFlow t e inc) s = (s, None).
Proof. exact cash_flow_empty. Qed.
Print Assumptions C06_empty_term.

(** ---- non-vacuity: a history with repeats, cancellation, exclusions before and after, a
    rejected registration, definitions that are and are not applied ---- *)
Definition ex_ops : list op :=
  [OAddCashFlow "+DEM_GOOD" None true; OAddCashFlow "-( DEM_GOOD )" None true;
   OAddCashFlow "WAGES" (Some "A*B") true; OAddExclusion "T"; OAddCashFlow "-T" (Some "0.2*INC") true;
   OAddCashFlow "(-T)" (Some "other") true; OAddCashFlow "a+b" (Some "x") true;
   OAddVariable "Z" "" "0."; OAddCashFlow "Z*W" None false; OAddCashFlow "Z" (Some "never") true;
   OAddExclusion "WAGES"; OAddCashFlow "WAGES" None true; OAddExclusionOther "Z";
   OSetRHS "WAGES" "C"; OAddTermToEq "Z" "-q"].

Example C06_example_ok : forallb op_ok ex_ops = true.
Proof. vm_compute. reflexivity. Qed.
Print Assumptions C06_example_ok.

Example C06_example_state :
  map (fun kq => (fst kq, render_rhs (terms (snd kq)))) (block (run ex_ops fresh)) =
  [("F", "LAG_F+2.0*WAGES-2.0*T+Z*W+Z"); ("INC", "WAGES+Z"); ("LAG_F", "F(k-1)");
   ("WAGES", "C"); ("T", "0.2*INC"); ("Z", "0.-q")].
Proof. vm_compute. reflexivity. Qed.
Print Assumptions C06_example_state.

(** ---- why [op_ok] is there: user code that writes F / INC itself is not a registration ---- *)
Theorem C06_overwrite_F_refuted : exists (v : string -> R) ops,
  forallb op_ok ops = false /\
  forall qF, lookup "F" (block (run ops fresh)) = Some qF ->
             denote v (terms qF) <> (v "LAG_F" + sum_F v ops)%R.
Proof.
  exists (fun s => if String.eqb s "LAG_F" then 1%R else 0%R), [OAddVariable "F" "" "0"].
  split; [reflexivity|]. intros qF H. vm_compute in H. injection H as <-.
  unfold denote, term_val, sum_F, dF. simpl. lra.
Qed.
Print Assumptions C06_overwrite_F_refuted.

(** a flow that is itself called INC, not counted as income, carrying a definition, redefines INC *)
Theorem C06_flow_named_INC_refuted : exists (v : string -> R) ops,
  forallb op_ok ops = false /\
  forall qI, lookup "INC" (block (run ops fresh)) = Some qI ->
             denote v (terms qI) <> sum_INC v [] ops.
Proof.
  exists (fun _ => 1%R), [OAddCashFlow "INC" (Some "x") false].
  split; [reflexivity|]. intros qI H. vm_compute in H. injection H as <-.
  assert (E : sum_INC (fun _ => 1%R) [] [OAddCashFlow "INC" (Some "x") false] = 0%R).
  { unfold sum_INC, dINC. simpl andb. destruct (flow_of _); lra. }
  rewrite E. unfold denote, term_val. simpl. lra.
Qed.
Print Assumptions C06_flow_named_INC_refuted.
