(** Model of [sfc_models.equation.Term]: construction from a string ([Term.__init__], blob and
    non-blob) and [Term.__str__].  Coefficients are integers: every coefficient the library
    produces is a sum of +1.0/-1.0, which Python floats represent exactly (|c| < 2^53), and an
    integer-valued float [c] prints as the decimal digits of |c| followed by ".0"
    (no exponent form below 1e16). *)
From Coq Require Import List String Ascii Bool ZArith NArith DecimalString.
From SFC.Base Require Import Res Str.
From SFC.Eqn Require Import Lexer.
Import ListNotations.
Local Open Scope string_scope.

Record term := mkTerm { coef : Z; text : string; blob : bool }.

(** [str(term).strip().replace(' ', '')] *)
Definition squeeze (s : string) : string := remove_char " " (strip s).

(** [Term(s, is_blob=True)] *)
Definition mk_blob (s : string) : term := mkTerm 1 (squeeze s) true.

Definition strip_sign (s : string) : Z * string :=
  match s with
  | String c r =>
      if Ascii.eqb c "+" then (1%Z, r) else if Ascii.eqb c "-" then ((-1)%Z, r) else (1%Z, s)
  | EmptyString => (1%Z, s)
  end.

Fixpoint ends_with_char (x : ascii) (s : string) : bool :=
  match s with
  | EmptyString => false
  | String c EmptyString => Ascii.eqb c x
  | String _ r => ends_with_char x r
  end.

Fixpoint remove_last (s : string) : string :=
  match s with
  | EmptyString => EmptyString
  | String _ EmptyString => EmptyString
  | String c r => String c (remove_last r)
  end.

(** Rule 1 (leading sign) and rule 2 (one matched bracket pair with an inner sign). *)
Definition peel (s : string) : result (Z * string) :=
  let cs := strip_sign s in
  match snd cs with
  | String c r =>
      if Ascii.eqb c "(" then
        if ends_with_char ")" (snd cs) then
          let cs2 := strip_sign (remove_last r) in Ok ((fst cs * fst cs2)%Z, snd cs2)
        else Err SyntaxError
      else Ok cs
  | EmptyString => Ok cs
  end.

(** [Term(s)] for a string [s] (non-blob). *)
Definition parse_term (s0 : string) : result term :=
  match peel (squeeze s0) with
  | Err e => Err e
  | Ok ct =>
      let t := snd ct in
      if contains_char "+" t then Err LogicError
      else if contains_char "-" t then Err LogicError
      else if String.eqb t "" then Err LogicError
      else match accept_core t with
           | Err e => Err e
           | Ok _ => Ok (mkTerm (fst ct) t false)
           end
  end.

(** [str(float(n))] for a natural number n (< 1e16). *)
Definition coef_lit (n : N) : string := NilZero.string_of_uint (N.to_uint n) ++ ".0".

(** [Term.__str__] *)
Definition render_term (t : term) : string :=
  if blob t then text t
  else match coef t with
       | Z0 => ""
       | Zpos xH => "+" ++ text t
       | Zneg xH => "-" ++ text t
       | Zpos p => "+" ++ coef_lit (Npos p) ++ "*" ++ text t
       | Zneg p => "-" ++ coef_lit (Npos p) ++ "*" ++ text t
       end.
