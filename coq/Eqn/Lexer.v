(** Model of what [Term.__init__] needs from Python 3.12's [tokenize] on a term body
    (a string from which every space and every '+'/'-' has already been removed or rejected):
    - NAME  : [A-Za-z_][A-Za-z0-9_]*           (keywords are NAME tokens)
    - NUMBER: the C tokenizer's number scanner in "extra tokens" mode (tokenize module): decimal
      with single underscores between digits, fraction, exponent, imaginary suffix, 0x/0o/0b
      literals; an underscore not followed by a digit, a radix prefix without digits and a
      decimal digit right after an octal/binary literal raise [TokenError]; a letter right after
      a number does NOT (verify_end_of_number is switched off in this mode), it starts a NAME;
    - OP    : maximal munch over the 1/2/3-character operators; brackets keep a nesting level,
      a closing bracket at level 0 is an ordinary token, a positive level at end of input raises
      [TokenError] ("unexpected EOF in multi-line statement");
    - COMMENT: '#' swallows the rest of the input.
    Characters the model does not cover (quotes, backslash, control characters, non-ASCII) give
    [Err OtherError], an outcome [Term] never produces, so a generator that strays outside the
    modelled alphabet shows up as a disagreement, never as an agreement.
    '+'/'-' never reach the tokenizer ([Term] rejects them first); they are lexed as operators
    here (the exponent-sign branch of the number scanner is therefore not modelled). *)
From Coq Require Import List String Ascii Bool Arith.
From SFC.Base Require Import Res Str.
Import ListNotations.
Local Open Scope string_scope.

Inductive tkind := TName | TNumber | TOp | TComment.
Record tok := mkTok { tk : tkind; ttext : string }.

Definition between (lo hi : nat) (c : ascii) : bool :=
  let n := nat_of_ascii c in Nat.leb lo n && Nat.leb n hi.
Definition is_digit (c : ascii) : bool := between 48 57 c.
Definition is_odigit (c : ascii) : bool := between 48 55 c.
Definition is_bdigit (c : ascii) : bool := between 48 49 c.
Definition is_alpha (c : ascii) : bool := between 65 90 c || between 97 122 c.
Definition is_xdigit (c : ascii) : bool := is_digit c || between 65 70 c || between 97 102 c.
Definition ident_start (c : ascii) : bool := is_alpha c || Ascii.eqb c "_".
Definition ident_char (c : ascii) : bool := ident_start c || is_digit c.
(** characters that can occur inside a NAME or NUMBER token *)
Definition atom_char (c : ascii) : bool := ident_char c || Ascii.eqb c ".".

Definition is_e (c : ascii) : bool := Ascii.eqb c "e" || Ascii.eqb c "E".
Definition is_j (c : ascii) : bool := Ascii.eqb c "j" || Ascii.eqb c "J".
Definition is_muldiv (c : ascii) : bool := Ascii.eqb c "*" || Ascii.eqb c "/".

Fixpoint span (p : ascii -> bool) (s : string) : string * string :=
  match s with
  | String c r => if p c then let ab := span p r in (String c (fst ab), snd ab) else ("", s)
  | EmptyString => ("", "")
  end.

(** [tok_decimal_tail] and the digit loops of the radix literals: digits, with single
    underscores each of which must be followed by a digit. *)
Fixpoint rdigits (isd : ascii -> bool) (s : string) : result (string * string) :=
  match s with
  | String c r =>
      if isd c then
        match rdigits isd r with Ok ab => Ok (String c (fst ab), snd ab) | Err e => Err e end
      else if Ascii.eqb c "_" then
        match r with
        | String d _ =>
            if isd d then
              match rdigits isd r with Ok ab => Ok (String c (fst ab), snd ab) | Err e => Err e end
            else Err TokenError
        | EmptyString => Err TokenError
        end
      else Ok ("", s)
  | EmptyString => Ok ("", "")
  end.

(** after "0x" / "0o" / "0b": at least one digit group; [strict] = a decimal digit right after
    the literal is an error (octal, binary). *)
Definition radix (isd : ascii -> bool) (strict : bool) (s : string) : result (string * string) :=
  match s with
  | String c _ =>
      if isd c || Ascii.eqb c "_" then
        match rdigits isd s with
        | Ok ab =>
            match snd ab with
            | String d _ => if strict && is_digit d then Err TokenError else Ok ab
            | EmptyString => Ok ab
            end
        | Err e => Err e
        end
      else Err TokenError
  | EmptyString => Err TokenError
  end.

(** fraction digits after the '.' *)
Definition scan_frac (s : string) : result (string * string) :=
  match s with
  | String c _ => if is_digit c then rdigits is_digit s else Ok ("", s)
  | EmptyString => Ok ("", "")
  end.

(** exponent: 'e' followed by a digit; otherwise the number ends before the 'e'. *)
Definition scan_exp (s : string) : result (string * string) :=
  match s with
  | String e r =>
      if is_e e then
        match r with
        | String d _ =>
            if is_digit d then
              match rdigits is_digit r with Ok ab => Ok (String e (fst ab), snd ab) | Err x => Err x end
            else Ok ("", s)
        | EmptyString => Ok ("", s)
        end
      else Ok ("", s)
  | EmptyString => Ok ("", "")
  end.

Definition scan_imag (s : string) : string * string :=
  match s with
  | String c r => if is_j c then (String c "", r) else ("", s)
  | EmptyString => ("", "")
  end.

(** optional ".digits", optional exponent, optional 'j' *)
Definition scan_after_int (s : string) : result (string * string) :=
  match (match s with
         | String c r =>
             if Ascii.eqb c "." then
               match scan_frac r with Ok ab => Ok (String c (fst ab), snd ab) | Err x => Err x end
             else Ok ("", s)
         | EmptyString => Ok ("", "")
         end) with
  | Err x => Err x
  | Ok fb =>
      match scan_exp (snd fb) with
      | Err x => Err x
      | Ok eb => let jb := scan_imag (snd eb) in Ok (fst fb ++ fst eb ++ fst jb, snd jb)
      end
  end.

Definition scan_decimal (s : string) : result (string * string) :=
  match rdigits is_digit s with
  | Err x => Err x
  | Ok ab =>
      match scan_after_int (snd ab) with
      | Err x => Err x
      | Ok cd => Ok (fst ab ++ fst cd, snd cd)
      end
  end.

Definition prefix2 (a b : ascii) (r : result (string * string)) : result (string * string) :=
  match r with Ok ab => Ok (String a (String b (fst ab)), snd ab) | Err x => Err x end.

(** [s] starts with a digit *)
Definition scan_number (s : string) : result (string * string) :=
  match s with
  | String z (String x r) =>
      if Ascii.eqb z "0" then
        if Ascii.eqb x "x" || Ascii.eqb x "X" then prefix2 z x (radix is_xdigit false r)
        else if Ascii.eqb x "o" || Ascii.eqb x "O" then prefix2 z x (radix is_odigit true r)
        else if Ascii.eqb x "b" || Ascii.eqb x "B" then prefix2 z x (radix is_bdigit true r)
        else scan_decimal s
      else scan_decimal s
  | _ => scan_decimal s
  end.

Definition ops3 : list string := ["**="; "..."; "//="; "<<="; ">>="].
Definition ops2 : list string :=
  ["!="; "%="; "&="; "**"; "*="; "+="; "-="; "->"; "//"; "/="; ":="; "<<"; "<="; "<>"; "==";
   ">="; ">>"; "@="; "^="; "|="].
Definition op_len (s : string) : nat :=
  if existsb (fun p => String.prefix p s) ops3 then 3
  else if existsb (fun p => String.prefix p s) ops2 then 2 else 1.

Definition is_open (c : ascii) : bool := Ascii.eqb c "(" || Ascii.eqb c "[" || Ascii.eqb c "{".
Definition is_close (c : ascii) : bool := Ascii.eqb c ")" || Ascii.eqb c "]" || Ascii.eqb c "}".

(** single characters the tokenize module returns as an OP token (3.12: '$', '?', '!' and the
    backquote included) *)
Definition op_char (c : ascii) : bool :=
  existsb (Ascii.eqb c)
    ["%"; "&"; "("; ")"; "*"; "+"; ","; "-"; "."; "/"; ":"; ";"; "<"; "="; ">"; "@"; "["; "]";
     "^"; "{"; "|"; "}"; "~"; "!"; "$"; "?"; "`"]%char.

Fixpoint lex (fuel : nat) (level : nat) (s : string) : result (list tok) :=
  match fuel with
  | 0 => Err OutOfFuel
  | S f =>
      match s with
      | EmptyString => if Nat.eqb level 0 then Ok [] else Err TokenError
      | String c r =>
          if ident_start c then
            let ab := span ident_char s in
            match lex f level (snd ab) with Ok ts => Ok (mkTok TName (fst ab) :: ts) | Err x => Err x end
          else if is_digit c then
            match scan_number s with
            | Err x => Err x
            | Ok ab =>
                match lex f level (snd ab) with Ok ts => Ok (mkTok TNumber (fst ab) :: ts) | Err x => Err x end
            end
          else if Ascii.eqb c "." && (match r with String d _ => is_digit d | EmptyString => false end) then
            match scan_after_int s with
            | Err x => Err x
            | Ok ab =>
                match lex f level (snd ab) with Ok ts => Ok (mkTok TNumber (fst ab) :: ts) | Err x => Err x end
            end
          else if Ascii.eqb c "#" then
            if Nat.eqb level 0 then Ok [mkTok TComment s] else Err TokenError
          else if op_char c then
            let n := op_len s in
            let level' := if is_open c then S level else if is_close c then Nat.pred level else level in
            match lex f level' (drop n s) with Ok ts => Ok (mkTok TOp (take n s) :: ts) | Err x => Err x end
          else Err OtherError
      end
  end.

Definition tokenize (s : string) : result (list tok) := lex (S (String.length s)) 0 s.

Definition name_or_num (t : tok) : bool :=
  match tk t with TName | TNumber => true | _ => false end.
Definition is_op_tok (t : tok) : bool := match tk t with TOp => true | _ => false end.

(** The acceptance test of [Term.__init__]: exactly [NAME|NUMBER] or
    [NAME|NUMBER, '*'|'/', NAME|NUMBER]; anything else [NotImplementedError]; tokenizer errors
    propagate. *)
Definition accept_core (s : string) : result unit :=
  match tokenize s with
  | Err x => Err x
  | Ok [t] => if name_or_num t then Ok tt else Err NotImplemented
  | Ok [a; o; b] =>
      if name_or_num a && is_op_tok o && (String.eqb (ttext o) "*" || String.eqb (ttext o) "/")
         && name_or_num b
      then Ok tt else Err NotImplemented
  | Ok _ => Err NotImplemented
  end.

(** Shape of an accepted body, as a boolean on the string alone (see LexerProofs.accept_simple). *)
Fixpoint all_chars (p : ascii -> bool) (s : string) : bool :=
  match s with EmptyString => true | String c r => p c && all_chars p r end.

Fixpoint split_op (s : string) : option (string * ascii * string) :=
  match s with
  | EmptyString => None
  | String c r =>
      if is_muldiv c then Some ("", c, r)
      else match split_op r with
           | Some (a, o, b) => Some (String c a, o, b)
           | None => None
           end
  end.

Definition simple_text (s : string) : bool :=
  negb (String.eqb s "") &&
  match split_op s with
  | None => all_chars atom_char s
  | Some (a, _, b) => all_chars atom_char a && all_chars atom_char b
  end.
