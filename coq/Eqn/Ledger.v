(** Model of one [Sector]'s equation block and of the calls that change it:
    [Sector.__init__] (has_F), [AddVariable], [SetEquationRightHandSide], [AddTermToEquation],
    [AddCashFlow] and [Model.AddCashFlowIncomeExclusion] (the exclusion pairs are kept per
    sector: [excl] is the list of flow names excluded for THIS sector; a pair registered for
    another sector is an operation without effect here). *)
From Coq Require Import List String Ascii Bool ZArith.
From SFC.Base Require Import Res Str.
From SFC.Eqn Require Import Lexer Term Equation.
Import ListNotations.
Local Open Scope string_scope.

Record sector := mkSector { block : list (string * eqn); excl : list string }.

Fixpoint lookup (n : string) (b : list (string * eqn)) : option eqn :=
  match b with
  | [] => None
  | (k, q) :: r => if String.eqb n k then Some q else lookup n r
  end.

(** [EquationBlock.AddEquation]: dict assignment (replace in place, else append) *)
Fixpoint set_eq (n : string) (q : eqn) (b : list (string * eqn)) : list (string * eqn) :=
  match b with
  | [] => [(n, q)]
  | (k, q0) :: r => if String.eqb n k then (k, q) :: r else (k, q0) :: set_eq n q r
  end.

Inductive op :=
| OAddVariable (n d e : string)
| OSetRHS (n e : string)
| OAddTermToEq (n t : string)
| OAddExclusion (name : string)
| OAddExclusionOther (name : string)
| OAddCashFlow (t : string) (e : option string) (is_income : bool).

Definition fresh : sector :=
  mkSector
    [("F", mkEqn "F" "Financial assets" [mkTerm 1 "LAG_F" false]);
     ("INC", mkEqn "INC" "Income (PreTax)" []);
     ("LAG_F", mkEqn "LAG_F" "Previous periods financial assets." [mk_blob "F(k-1)"])]
    [].

Definition add_variable (n d e : string) (s : sector) : sector * option err :=
  if has_substring "__" n then (s, Some ValueError)
  else match equation_init n d (RList [TObj (mk_blob e)]) with
       | Ok q => (mkSector (set_eq (lhs q) q (block s)) (excl s), None)
       | Err x => (s, Some x)
       end.

Definition set_rhs (n e : string) (s : sector) : sector * option err :=
  match lookup n (block s) with
  | None => (s, Some KeyError)
  | Some q => (mkSector (set_eq n (mkEqn (lhs q) (desc q) [mk_blob e]) (block s)) (excl s), None)
  end.

(** [EquationBlock[n].AddTerm(t)] *)
Definition add_to (n : string) (t : term) (s : sector) : sector * option err :=
  match lookup n (block s) with
  | None => (s, Some KeyError)
  | Some q =>
      match add_term t (terms q) with
      | Err x => (s, Some x)
      | Ok l => (mkSector (set_eq n (mkEqn (lhs q) (desc q) l) (block s)) (excl s), None)
      end
  end.

Definition is_zero_rhs (r : string) : bool := String.eqb r "" || String.eqb r "0.0".

(** the ledger part of [AddCashFlow]: the term goes into F, and into INC when it is income and
    not excluded for this sector *)
Definition book (tm : term) (is_income : bool) (s : sector) : sector * option err :=
  match add_to "F" tm s with
  | (s1, Some x) => (s1, Some x)
  | (s1, None) =>
      if is_income && negb (mem (text tm) (excl s1)) then add_to "INC" tm s1 else (s1, None)
  end.

(** the definition part: an existing variable is redefined only when it renders '' or '0.0' *)
Definition define (nm ex : string) (s : sector) : sector * option err :=
  match lookup nm (block s) with
  | Some q => if is_zero_rhs (render_rhs (terms q)) then set_rhs nm ex s else (s, None)
  | None => add_variable nm "" ex s
  end.

Definition add_cash_flow (t0 : string) (e : option string) (is_income : bool) (s : sector)
  : sector * option err :=
  let t := strip t0 in
  if String.eqb t "" then (s, None)
  else match parse_term t with
       | Err x => (s, Some x)
       | Ok tm =>
           match book tm is_income s with
           | (s2, Some x) => (s2, Some x)
           | (s2, None) =>
               match e with
               | None => (s2, None)
               | Some ex => define (text tm) ex s2
               end
           end
       end.

Definition step (o : op) (s : sector) : sector * option err :=
  match o with
  | OAddVariable n d e => add_variable n d e s
  | OSetRHS n e => set_rhs n e s
  | OAddTermToEq n t =>
      match parse_term t with
      | Err x => (s, Some x)
      | Ok tm => add_to n tm s
      end
  | OAddExclusion name => (mkSector (block s) (excl s ++ [name]), None)
  | OAddExclusionOther _ => (s, None)
  | OAddCashFlow t e inc => add_cash_flow t e inc s
  end.

Definition run (ops : list op) (s : sector) : sector := fold_left (fun s o => fst (step o s)) ops s.
