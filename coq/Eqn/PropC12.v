(** C12 — Equation-building arithmetic preserves value.  Property theorems only; proofs are in
    LexerProofs.v / TermProofs.v / EquationProofs.v / JoinProofs.v.
    Models: Lexer.v (tokenize), Term.v (Term.__init__, __str__), Equation.v (Equation.__init__,
    ParseString, AddTerm, GetRightHandSide, create_equation_from_terms), Semantics.v (meaning).
    Main definitions describe the code with the proposed fixes D12a/D12b applied; [_orig]
    definitions describe the unchanged code. *)
From Coq Require Import List String Ascii Bool ZArith NArith Reals Lra.
From SFC.Base Require Import Res Str.
From SFC.Eqn Require Import Lexer LexerProofs Term TermProofs Equation Semantics EquationProofs JoinProofs.
Import ListNotations.
Local Open Scope string_scope.

(** Value preservation over ALL histories: for every starting term list [l] (empty, or with an
    opaque leading expression, or anything else) and every sequence of [AddTerm] arguments
    (strings in any spelling, accepted or rejected, and non-opaque Term objects), the value of
    the equation afterwards is its value before plus the signed sum of the accepted terms, under
    every assignment [v] of reals to the term texts. *)
Theorem C12_merge : forall (v : string -> R) (args : list targ) (l : list term),
  forallb nb_arg args = true ->
  denote v (run_adds args l) = (denote v l + sum_args v args)%R.
Proof. intros v args l. exact (run_adds_denote v args l). Qed.
Print Assumptions C12_merge.

(** A call that raises leaves the equation as it was; otherwise the new list is the merge. *)
Theorem C12_rejected_unchanged : forall l a,
  (exists e, add_arg a l = Err e /\ hist_step_with add_nb l a = l) \/
  (exists l', add_arg a l = Ok l' /\ hist_step_with add_nb l a = l').
Proof. exact hist_step_cases. Qed.
Print Assumptions C12_rejected_unchanged.

(** Like terms combine: a non-opaque text never occurs twice, and the coefficient of each text
    is the sum of what was added to it. *)
Theorem C12_like_terms_combine : forall t l, blob t = false ->
  (NoDup (nb_texts l) -> NoDup (nb_texts (add_nb t l))) /\
  (forall x, coef_of x (add_nb t l) = (coef_of x l + (if String.eqb (text t) x then coef t else 0))%Z).
Proof. intros t l Hb. split; [apply add_nb_nodup, Hb|intros x; apply add_nb_coef, Hb]. Qed.
Print Assumptions C12_like_terms_combine.

(** A cancelled term renders nothing; an empty or fully cancelled sum renders exactly "0.0". *)
Theorem C12_zero_renders_nothing : forall t, blob t = false -> coef t = 0%Z -> render_term t = "".
Proof. exact render_zero_coef. Qed.
Print Assumptions C12_zero_renders_nothing.

Theorem C12_empty_sum_renders_zero : forall l,
  Forall (fun t => blob t = false /\ coef t = 0%Z) l -> render_rhs l = "0.0".
Proof. exact render_all_zero. Qed.
Print Assumptions C12_empty_sum_renders_zero.

(** What [Term] accepts is a name/number or a product/quotient of two of them. *)
Theorem C12_accepted_shape : forall s t, parse_term s = Ok t ->
  wf_term t = true /\ simple_text (text t) = true.
Proof. intros s t H. destruct (parse_term_inv s t H) as (H1 & _ & H2 & _). split; assumption. Qed.
Print Assumptions C12_accepted_shape.

(** A sign in front of, or inside, one pair of enclosing parentheses is honoured: for every body
    [t] the tokenizer test accepts, each spelling parses to [t] with the mathematically right
    sign. *)
Theorem C12_signs : forall t, t <> "" -> accept_core t = Ok tt ->
  let ok (s : string) (z : Z) := parse_term s = Ok (mkTerm z t false) in
  ok t 1%Z /\ ok ("+" ++ t) 1%Z /\ ok ("-" ++ t) (-1)%Z /\
  ok ("(" ++ t ++ ")") 1%Z /\ ok ("(-" ++ t ++ ")") (-1)%Z /\ ok ("(+" ++ t ++ ")") 1%Z /\
  ok ("-(" ++ t ++ ")") (-1)%Z /\ ok ("-(-" ++ t ++ ")") 1%Z /\ ok ("-(+" ++ t ++ ")") (-1)%Z /\
  ok ("+(" ++ t ++ ")") 1%Z /\ ok ("+(-" ++ t ++ ")") (-1)%Z /\ ok ("+(+" ++ t ++ ")") 1%Z.
Proof.
  intros t Hne Ha ok. unfold ok.
  repeat split;
    [ exact (spelling_sign SNone None t Hne Ha) | exact (spelling_sign SPlus None t Hne Ha)
    | exact (spelling_sign SMinus None t Hne Ha) | exact (spelling_sign SNone (Some SNone) t Hne Ha)
    | exact (spelling_sign SNone (Some SMinus) t Hne Ha) | exact (spelling_sign SNone (Some SPlus) t Hne Ha)
    | exact (spelling_sign SMinus (Some SNone) t Hne Ha) | exact (spelling_sign SMinus (Some SMinus) t Hne Ha)
    | exact (spelling_sign SMinus (Some SPlus) t Hne Ha) | exact (spelling_sign SPlus (Some SNone) t Hne Ha)
    | exact (spelling_sign SPlus (Some SMinus) t Hne Ha) | exact (spelling_sign SPlus (Some SPlus) t Hne Ha) ].
Qed.
Print Assumptions C12_signs.

(** Rendering is faithful: reading the rendered right-hand side of a blob-free equation back with
    an independent reader of the format (signed chunks of factor chains) gives the value of the
    term list, for every assignment [av] of the factors that gives the coefficient literals
    "n.0" their numeric value. *)
Theorem C12_render_terms : forall (av : string -> R) (l : list term),
  lit_ok av -> forallb wf_term l = true ->
  chunks_val av (read_rhs (render_rhs l)) = denote (chain_val av) l.
Proof. exact render_faithful. Qed.
Print Assumptions C12_render_terms.

(** ... and every equation built from nothing by AddTerm calls (strings, well-formed Term objects)
    is such an equation; so its rendering reads back as the signed sum of the accepted terms. *)
Theorem C12_render_history : forall (av : string -> R) (args : list targ),
  lit_ok av -> forallb wf_arg args = true -> forallb nb_arg args = true ->
  chunks_val av (read_rhs (render_rhs (run_adds args []))) = sum_args (chain_val av) args.
Proof.
  intros av args Hl Hw Hn.
  rewrite (render_faithful av _ Hl (run_adds_wf args [] Hw eq_refl)), (run_adds_denote _ args [] Hn).
  simpl. lra.
Qed.
Print Assumptions C12_render_history.

(** Joining signed elements (D12b repaired): the caller's list comes back unchanged, the reader
    gets the elements back with their signs, so the signed sum is preserved. *)
Theorem C12_join : forall es, es <> [] -> forallb (fun e => core_ok (snd e)) es = true ->
  exists r, join (map elem es) = (Ok r, map elem es) /\ read_rhs r = map chunk_e es.
Proof. exact join_spec. Qed.
Print Assumptions C12_join.

Theorem C12_join_sum : forall av es r,
  join (map elem es) = (Ok r, map elem es) -> read_rhs r = map chunk_e es ->
  chunks_val av (read_rhs r) = fold_right (fun e acc => (elem_val av e + acc)%R) 0%R es.
Proof. exact join_sum. Qed.
Print Assumptions C12_join_sum.

Theorem C12_join_empty : join [] = (Ok "", []).
Proof. reflexivity. Qed.
Print Assumptions C12_join_empty.

(** An opaque leading expression (D12a repaired): later terms never merge into it, so the value
    is the leading expression (as an atom, valued at its squeezed text) plus the signed sum; and
    the rendering is its text followed by the rendered terms. *)
Theorem C12_blob_merge : forall (v : string -> R) (b : string) (args : list targ),
  forallb nb_arg args = true ->
  denote v (run_adds args [mk_blob b]) = (v (squeeze b) + sum_args v args)%R.
Proof.
  intros v b args H. rewrite (run_adds_denote v args _ H). unfold denote, term_val. simpl. lra.
Qed.
Print Assumptions C12_blob_merge.

Theorem C12_blob_render : forall b l, blob b = true ->
  match text b with String c _ => Ascii.eqb c "+" = false | EmptyString => False end ->
  render_rhs (b :: l) = text b ++ cat_all (map render_term l).
Proof. exact render_blob_first. Qed.
Print Assumptions C12_blob_render.

(** ---- non-vacuity ---- *)
Definition ex_args : list targ :=
  [TStr "a"; TStr " -( - a )"; TStr "(-b*c)"; TStr "a+b"; TStr "-a"; TStr "-a"; TStr "-a"; TStr "+2.5/y";
   TObj (mkTerm 3 "b*c" false); TStr "((a))"; TStr "-(2.5/y)"].

Example C12_example_hyps : forallb nb_arg ex_args = true /\ forallb wf_arg ex_args = true.
Proof. split; vm_compute; reflexivity. Qed.
Print Assumptions C12_example_hyps.

Example C12_example_render :
  render_rhs (run_adds ex_args []) = "-a+2.0*b*c" /\
  render_rhs (run_adds ex_args [mk_blob "a"]) = "a-a+2.0*b*c" /\
  read_rhs "-a+2.0*b*c" = [(false, "a"); (true, "2.0*b*c")].
Proof. repeat split; vm_compute; reflexivity. Qed.
Print Assumptions C12_example_render.

Example C12_example_join :
  join ["a+b"; "c"] = (Ok "a+b+c", ["a+b"; "c"]) /\
  join (map elem [(SNone, "x"); (SMinus, "y*z"); (SPlus, "2")]) = (Ok "x-y*z+2", ["x"; "-y*z"; "+2"]).
Proof. split; vm_compute; reflexivity. Qed.
Print Assumptions C12_example_join.

(** ---- the unchanged code, and the recorded findings ---- *)

(** D12a: [AddTerm] merged a later term into an opaque first term with equal text. *)
Theorem C12_merge_orig_refuted : exists (v : string -> R) (args : list targ) (l : list term),
  forallb nb_arg args = true /\
  denote v (run_adds_with add_nb_orig args l) <> (denote v l + sum_args v args)%R.
Proof.
  exists (fun _ => 1%R), [TStr "c"], [mk_blob "c"]. split; [reflexivity|].
  assert (E1 : run_adds_with add_nb_orig [TStr "c"] [mk_blob "c"] = [mkTerm 2 "c" true]) by (vm_compute; reflexivity).
  assert (E2 : to_term (TStr "c") = Ok (mkTerm 1 "c" false)) by (vm_compute; reflexivity).
  assert (E3 : arg_val (fun _ => 1%R) (TStr "c") = 1%R) by (unfold arg_val; rewrite E2; simpl; lra).
  rewrite E1. unfold sum_args. cbn [fold_right]. rewrite E3. unfold denote, term_val. simpl. lra.
Qed.
Print Assumptions C12_merge_orig_refuted.

(** D12b: every '+' of the first element was deleted and the argument was overwritten. *)
Theorem C12_join_orig_refuted :
  join_orig ["a+b"; "c"] = (Ok "ab+c", ["ab"; "+c"]) /\
  exists l, snd (join_orig l) <> l.
Proof. split; [vm_compute; reflexivity|]. exists ["x"; "y"]. vm_compute. discriminate. Qed.
Print Assumptions C12_join_orig_refuted.

(** D12c (recorded): a leading expression loses its spaces -- a keyword expression collapses into
    one name (and is then even taken for a plain term), or into an opaque text that no longer
    parses. *)
Theorem C12_blob_spaces_refuted :
  equation_init "x" "" (RStr "a if b else c") = Ok (mkEqn "x" "" [mkTerm 1 "aifbelsec" false]) /\
  equation_init "x" "" (RStr "(a if b else c)*2") = Ok (mkEqn "x" "" [mkTerm 1 "(aifbelsec)*2" true]).
Proof. split; vm_compute; reflexivity. Qed.
Print Assumptions C12_blob_spaces_refuted.

(** D12d (recorded): a leading expression that binds looser than '+' is not parenthesised, the
    appended term attaches to its last operand. *)
Theorem C12_blob_looser_refuted : exists q,
  equation_init "x" "" (RStr "a<b") = Ok q /\ render_rhs (run_adds [TStr "c"] (terms q)) = "a<b+c".
Proof. eexists. split; vm_compute; reflexivity. Qed.
Print Assumptions C12_blob_looser_refuted.
