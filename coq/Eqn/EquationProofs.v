(** Proofs about [Equation.AddTerm] and rendering: value preservation over all histories, like
    terms combine, zero renders nothing, and the rendered text read back by an independent
    reader determines the same signed sum. *)
From Coq Require Import List String Ascii Bool ZArith NArith Reals Lra Lia DecimalString.
From SFC.Base Require Import Res Str.
From SFC.Eqn Require Import Lexer LexerProofs Term TermProofs Equation Semantics.
Import ListNotations.
Local Open Scope string_scope.
Local Open Scope R_scope.

(** ---- A. value preservation ---- *)
Lemma add_nb_denote v t l : blob t = false ->
  denote v (add_nb t l) = denote v l + IZR (coef t) * v (text t).
Proof.
  intros Hb. induction l as [|o r IH]; simpl.
  - unfold term_val. rewrite Hb. lra.
  - destruct (negb (blob o) && String.eqb (text t) (text o)) eqn:E.
    + apply andb_true_iff in E as [E1 E2]. apply negb_true_iff in E1. apply String.eqb_eq in E2.
      simpl. unfold term_val. simpl. rewrite E1, plus_IZR, E2. lra.
    + simpl. rewrite IH. lra.
Qed.

Lemma add_term_denote v t l l' : add_term t l = Ok l' -> denote v l' = denote v l + term_val v t.
Proof.
  unfold add_term, add_term_with. destruct (negb (is_nil l) && blob t) eqn:E; [discriminate|].
  intros H. injection H as <-. destruct (blob t) eqn:Hb.
  - rewrite andb_true_r in E. apply negb_false_iff in E. destruct l; [|discriminate]. simpl. lra.
  - rewrite (add_nb_denote v t l Hb). unfold term_val. now rewrite Hb.
Qed.

Lemma nb_arg_term a t : nb_arg a = true -> to_term a = Ok t -> blob t = false.
Proof.
  destruct a as [s|t0]; simpl; intros Hn H.
  - apply parse_term_inv in H as [Hw _]. unfold wf_term in Hw.
    apply andb_true_iff in Hw as [Hw _]. apply andb_true_iff in Hw as [Hw _]. now apply negb_true_iff in Hw.
  - injection H as <-. now apply negb_true_iff in Hn.
Qed.

Lemma hist_step_denote v l a : nb_arg a = true ->
  denote v (hist_step_with add_nb l a) = denote v l + arg_val v a.
Proof.
  intros Hn. unfold hist_step_with, add_arg_with, arg_val.
  destruct (to_term a) as [t|e] eqn:Ht; [|lra].
  pose proof (nb_arg_term _ _ Hn Ht) as Hb. unfold add_term_with. rewrite Hb, andb_false_r.
  apply add_nb_denote, Hb.
Qed.

Theorem run_adds_denote v args : forall l, forallb nb_arg args = true ->
  denote v (run_adds args l) = denote v l + sum_args v args.
Proof.
  unfold run_adds, run_adds_with. induction args as [|a r IH]; intros l H; simpl; [lra|].
  apply andb_true_iff in H as [Ha Hr]. rewrite (IH _ Hr), (hist_step_denote v l a Ha). lra.
Qed.

(** a rejected call leaves the equation as it was; an accepted one is the merge *)
Lemma hist_step_cases l a :
  (exists e, add_arg a l = Err e /\ hist_step_with add_nb l a = l) \/
  (exists l', add_arg a l = Ok l' /\ hist_step_with add_nb l a = l').
Proof.
  unfold hist_step_with, add_arg. destruct (add_arg_with add_nb a l) as [l'|e]; [right|left]; eauto.
Qed.

(** ---- like terms combine ---- *)
Definition nb_texts (l : list term) : list string := map text (filter (fun t => negb (blob t)) l).

Definition coef_of (x : string) (l : list term) : Z :=
  fold_right (fun t acc => if negb (blob t) && String.eqb (text t) x then (coef t + acc)%Z else acc) 0%Z l.

Lemma add_nb_texts t l : blob t = false ->
  nb_texts (add_nb t l) = if mem (text t) (nb_texts l) then nb_texts l else (nb_texts l ++ [text t])%list.
Proof.
  intros Hb. unfold nb_texts. induction l as [|o r IH]; simpl.
  - now rewrite Hb.
  - destruct (blob o) eqn:Ho; simpl.
    + rewrite ?Ho. simpl. exact IH.
    + destruct (String.eqb (text t) (text o)) eqn:E; simpl; rewrite ?Ho; simpl; [reflexivity|].
      rewrite IH. destruct (mem (text t) _); reflexivity.
Qed.

Lemma NoDup_snoc (x : string) l : NoDup l -> ~ List.In x l -> NoDup (l ++ [x]).
Proof.
  induction l as [|y l IH]; simpl; intros Hn Hx; [repeat constructor; auto|].
  inversion Hn as [|? ? Hy Hl]; subst. constructor.
  - rewrite in_app_iff. simpl. intros [H|[H|[]]]; [contradiction|subst; tauto].
  - apply IH; [exact Hl|tauto].
Qed.

Theorem add_nb_nodup t l : blob t = false -> NoDup (nb_texts l) -> NoDup (nb_texts (add_nb t l)).
Proof.
  intros Hb Hn. rewrite (add_nb_texts t l Hb). destruct (mem (text t) (nb_texts l)) eqn:E; [exact Hn|].
  apply NoDup_snoc; [exact Hn|]. intros Hin. apply mem_In in Hin. congruence.
Qed.

Theorem add_nb_coef t l x : blob t = false ->
  coef_of x (add_nb t l) = (coef_of x l + (if String.eqb (text t) x then coef t else 0))%Z.
Proof.
  intros Hb. induction l as [|o r IH]; simpl.
  - rewrite Hb. simpl. destruct (String.eqb (text t) x); lia.
  - destruct (blob o) eqn:Ho; simpl.
    + rewrite ?Ho. simpl. exact IH.
    + destruct (String.eqb (text t) (text o)) eqn:E; simpl; rewrite ?Ho; simpl.
      * apply String.eqb_eq in E. rewrite E. destruct (String.eqb (text o) x); lia.
      * rewrite IH. destruct (String.eqb (text o) x), (String.eqb (text t) x); lia.
Qed.

(** ---- zero renders nothing ---- *)
Definition cat_all (l : list string) : string := fold_right append "" l.

Lemma concat_empty_sep l : String.concat "" l = cat_all l.
Proof.
  induction l as [|x [|y r] IH]; simpl in *; [reflexivity|now rewrite append_nil_r|now rewrite IH].
Qed.

Lemma cat_all_app a b : cat_all (a ++ b) = cat_all a ++ cat_all b.
Proof. induction a as [|x a IH]; simpl; [reflexivity|]. now rewrite IH, append_assoc. Qed.

Lemma render_zero_coef t : blob t = false -> coef t = 0%Z -> render_term t = "".
Proof. unfold render_term. intros -> ->. reflexivity. Qed.

Theorem render_all_zero l :
  Forall (fun t => blob t = false /\ coef t = 0%Z) l -> render_rhs l = "0.0".
Proof.
  intros H. unfold render_rhs. rewrite concat_empty_sep.
  assert (E : cat_all (map render_term l) = "").
  { induction H as [|t r [Hb Hc] _ IH]; simpl; [reflexivity|]. now rewrite (render_zero_coef t Hb Hc), IH. }
  rewrite E. reflexivity.
Qed.

(** ---- B. the rendered text determines the same signed sum ---- *)
Definition chunk_of (t : term) : list (bool * string) :=
  match coef t with
  | Z0 => []
  | Zpos xH => [(true, text t)]
  | Zneg xH => [(false, text t)]
  | Zpos p => [(true, coef_lit (Npos p) ++ "*" ++ text t)]
  | Zneg p => [(false, coef_lit (Npos p) ++ "*" ++ text t)]
  end.
Definition chunks_of (l : list term) : list (bool * string) := flat_map chunk_of l.
Definition render_chunk (c : bool * string) : string := String (if fst c then "+" else "-")%char (snd c).

Lemma render_term_chunks t : blob t = false -> render_term t = cat_all (map render_chunk (chunk_of t)).
Proof.
  intros Hb. unfold render_term, chunk_of. rewrite Hb.
  destruct (coef t) as [|[p|p|]|[p|p|]]; cbv [map cat_all fold_right render_chunk fst snd];
    rewrite ?append_nil_r; reflexivity.
Qed.

Lemma render_terms_chunks l : forallb (fun t => negb (blob t)) l = true ->
  cat_all (map render_term l) = cat_all (map render_chunk (chunks_of l)).
Proof.
  induction l as [|t r IH]; simpl; [reflexivity|]. intros H. apply andb_true_iff in H as [Ht Hr].
  apply negb_true_iff in Ht. rewrite map_app, cat_all_app, <- (render_term_chunks t Ht), (IH Hr). reflexivity.
Qed.

Lemma no_sign_app a b : no_sign (a ++ b) = no_sign a && no_sign b.
Proof.
  unfold no_sign. induction a as [|c a IH]; simpl; [reflexivity|].
  destruct (Ascii.eqb c "+"); [reflexivity|]. destruct (Ascii.eqb c "-"); [simpl; rewrite !andb_false_r; reflexivity|].
  exact IH.
Qed.

Lemma no_sign_cons c s : no_sign (String c s) = negb (is_sign c) && no_sign s.
Proof.
  unfold no_sign, is_sign. simpl. destruct (Ascii.eqb c "+"); [reflexivity|].
  destruct (Ascii.eqb c "-"); simpl; [now rewrite andb_false_r|reflexivity].
Qed.

Lemma split_signs_app a s : no_sign a = true ->
  split_signs (a ++ s) = (a ++ fst (split_signs s), snd (split_signs s)).
Proof.
  induction a as [|c a IH]; simpl; intros H; [now destruct (split_signs s)|].
  rewrite no_sign_cons in H. apply andb_true_iff in H as [Hc Ha]. unfold is_sign in Hc.
  apply negb_true_iff, orb_false_iff in Hc as [H1 H2]. rewrite H1, H2, (IH Ha). reflexivity.
Qed.

Lemma split_signs_chunks cs : forallb (fun c => no_sign (snd c)) cs = true ->
  split_signs (cat_all (map render_chunk cs)) = ("", cs).
Proof.
  induction cs as [|[sg b] cs IH]; simpl; [reflexivity|]. intros H. apply andb_true_iff in H as [Hb Hcs].
  rewrite (split_signs_app b _ Hb), (IH Hcs). simpl. rewrite append_nil_r. destruct sg; reflexivity.
Qed.

Definition chunk_ok (c : bool * string) : bool := no_sign (snd c) && negb (String.eqb (snd c) "").

Lemma chunk_ok_forall cs : forallb chunk_ok cs = true -> forallb (fun c => no_sign (snd c)) cs = true.
Proof.
  induction cs as [|c cs IH]; simpl; [reflexivity|]. intros H. apply andb_true_iff in H as [Hc Hcs].
  apply andb_true_iff in Hc as [Hc _]. now rewrite Hc, (IH Hcs).
Qed.

(** what [GetRightHandSide] does to the concatenated chunks, and what the reader gets back *)
Lemma read_rhs_chunks cs : cs <> [] -> forallb chunk_ok cs = true ->
  let out := drop_plus (cat_all (map render_chunk cs)) in
  String.eqb out "" = false /\ read_rhs out = cs.
Proof.
  intros Hne H. destruct cs as [|[sg b] cs]; [contradiction|]. simpl in H.
  apply andb_true_iff in H as [Hc Hcs]. unfold chunk_ok in Hc. simpl in Hc.
  apply andb_true_iff in Hc as [Hb Hbn]. apply negb_true_iff in Hbn.
  pose proof (split_signs_chunks cs (chunk_ok_forall _ Hcs)) as Hs.
  destruct sg; simpl.
  - split.
    + destruct b; [discriminate Hbn|reflexivity].
    + unfold read_rhs. rewrite (split_signs_app b _ Hb), Hs. simpl. rewrite append_nil_r, Hbn. reflexivity.
  - split; [reflexivity|]. unfold read_rhs. simpl. rewrite (split_signs_app b _ Hb), Hs. simpl.
    now rewrite append_nil_r.
Qed.

(** digits of the coefficient literal *)
Definition plain_char (c : ascii) : bool := negb (is_sign c) && negb (is_muldiv c).

Lemma uint_plain_ne u : all_chars plain_char (NilEmpty.string_of_uint u) = true.
Proof. induction u; simpl; try reflexivity; rewrite IHu; reflexivity. Qed.

Lemma uint_plain u : all_chars plain_char (NilZero.string_of_uint u) = true.
Proof. destruct u; try reflexivity; apply (uint_plain_ne (_ u)). Qed.

Lemma coef_lit_plain n : all_chars plain_char (coef_lit n) = true.
Proof. unfold coef_lit. rewrite all_chars_app, uint_plain. reflexivity. Qed.

Lemma plain_no_sign s : all_chars plain_char s = true -> no_sign s = true.
Proof.
  induction s as [|c s IH]; simpl; [reflexivity|]. intros H. apply andb_true_iff in H as [Hc Hs].
  rewrite no_sign_cons, (IH Hs). unfold plain_char in Hc. apply andb_true_iff in Hc as [Hc _]. now rewrite Hc.
Qed.

Lemma coef_lit_nonempty n : String.eqb (coef_lit n ++ "*") "" = false.
Proof. unfold coef_lit. destruct (NilZero.string_of_uint (N.to_uint n)); reflexivity. Qed.

Lemma chunk_of_ok t : wf_term t = true -> forallb chunk_ok (chunk_of t) = true.
Proof.
  unfold wf_term. intros H. apply andb_true_iff in H as [H Hne]. apply andb_true_iff in H as [_ Hns].
  assert (Hlit : forall n, chunk_ok (true, coef_lit n ++ "*" ++ text t) = true).
  { intros n. unfold chunk_ok. cbn [fst snd]. rewrite !no_sign_app, (plain_no_sign _ (coef_lit_plain n)), Hns. simpl.
    destruct (coef_lit n) eqn:E; [unfold coef_lit in E; destruct (NilZero.string_of_uint (N.to_uint n)); discriminate E|reflexivity]. }
  unfold chunk_of. destruct (coef t) as [|[p|p|]|[p|p|]]; simpl; rewrite ?andb_true_r;
    try reflexivity; try (unfold chunk_ok; simpl; now rewrite Hns, Hne);
    try exact (Hlit _).
Qed.

Lemma chunks_of_ok l : forallb wf_term l = true -> forallb chunk_ok (chunks_of l) = true.
Proof.
  induction l as [|t r IH]; simpl; [reflexivity|]. intros H. apply andb_true_iff in H as [Ht Hr].
  unfold chunks_of in *. simpl. rewrite forallb_app, (chunk_of_ok t Ht), (IH Hr). reflexivity.
Qed.

Lemma wf_nonblob l : forallb wf_term l = true -> forallb (fun t => negb (blob t)) l = true.
Proof.
  induction l as [|t r IH]; simpl; [reflexivity|]. intros H. apply andb_true_iff in H as [Ht Hr].
  rewrite (IH Hr). unfold wf_term in Ht. apply andb_true_iff in Ht as [Ht _]. apply andb_true_iff in Ht as [Ht _].
  now rewrite Ht.
Qed.

(** values *)
Lemma split_ops_app a o b : all_chars plain_char a = true -> is_muldiv o = true ->
  split_ops (a ++ String o b) = (a, (o, fst (split_ops b)) :: snd (split_ops b)).
Proof.
  intros Ha Ho. induction a as [|c a IH]; simpl; [now rewrite Ho|].
  simpl in Ha. apply andb_true_iff in Ha as [Hc Ha]. unfold plain_char in Hc.
  apply andb_true_iff in Hc as [_ Hc]. apply negb_true_iff in Hc. rewrite Hc, (IH Ha). reflexivity.
Qed.

Lemma fold_scale av tl : forall k acc,
  fold_left (apply_op av) tl (k * acc) = k * fold_left (apply_op av) tl acc.
Proof.
  induction tl as [|of tl IH]; intros k acc; simpl; [reflexivity|].
  unfold apply_op at 2 4. destruct (Ascii.eqb (fst of) "*").
  - replace (k * acc * av (snd of)) with (k * (acc * av (snd of))) by ring. apply IH.
  - replace (k * acc / av (snd of)) with (k * (acc / av (snd of))) by (unfold Rdiv; ring). apply IH.
Qed.

Lemma chain_val_scaled av n T : lit_ok av ->
  chain_val av (coef_lit n ++ "*" ++ T) = IZR (Z.of_N n) * chain_val av T.
Proof.
  intros Hl. unfold chain_val. change ("*" ++ T) with (String "*" T).
  rewrite (split_ops_app _ "*" T (coef_lit_plain n) eq_refl). simpl.
  unfold apply_op at 2. simpl. rewrite (Hl n). apply fold_scale.
Qed.

Lemma chunks_val_app av a b : chunks_val av (a ++ b) = chunks_val av a + chunks_val av b.
Proof. induction a as [|c a IH]; simpl; [lra|]. rewrite IH. lra. Qed.

Lemma chunk_of_val av t : lit_ok av -> blob t = false ->
  chunks_val av (chunk_of t) = term_val (chain_val av) t.
Proof.
  intros Hl Hb. unfold term_val, chunk_of. rewrite Hb.
  destruct (coef t) as [|p|p] eqn:Hc.
  - simpl. lra.
  - assert (G : chunks_val av [(true, coef_lit (Npos p) ++ "*" ++ text t)] = IZR (Zpos p) * chain_val av (text t)).
    { unfold chunks_val, chunk_val. cbn [fold_right fst snd].
      rewrite (chain_val_scaled av (Npos p) (text t) Hl). change (Z.of_N (N.pos p)) with (Zpos p). lra. }
    destruct p; try exact G. unfold chunks_val, chunk_val. cbn [fold_right fst snd]. lra.
  - assert (G : chunks_val av [(false, coef_lit (Npos p) ++ "*" ++ text t)] = IZR (Zneg p) * chain_val av (text t)).
    { unfold chunks_val, chunk_val. cbn [fold_right fst snd].
      rewrite (chain_val_scaled av (Npos p) (text t) Hl). change (Z.of_N (N.pos p)) with (Zpos p).
      change (Zneg p) with (- Zpos p)%Z. rewrite opp_IZR. ring. }
    destruct p; try exact G. unfold chunks_val, chunk_val. cbn [fold_right fst snd]. lra.
Qed.

Lemma chunks_of_val av l : lit_ok av -> forallb (fun t => negb (blob t)) l = true ->
  chunks_val av (chunks_of l) = denote (chain_val av) l.
Proof.
  intros Hl. induction l as [|t r IH]; simpl; [reflexivity|]. intros H. apply andb_true_iff in H as [Ht Hr].
  apply negb_true_iff in Ht. unfold chunks_of in *. simpl.
  rewrite chunks_val_app, (chunk_of_val av t Hl Ht), (IH Hr). reflexivity.
Qed.

Lemma render_rhs_chunks l : forallb (fun t => negb (blob t)) l = true ->
  render_rhs l = let out := drop_plus (cat_all (map render_chunk (chunks_of l))) in
                 if String.eqb out "" then "0.0" else out.
Proof. intros H. unfold render_rhs. now rewrite concat_empty_sep, (render_terms_chunks l H). Qed.

Theorem render_faithful av l : lit_ok av -> forallb wf_term l = true ->
  chunks_val av (read_rhs (render_rhs l)) = denote (chain_val av) l.
Proof.
  intros Hl Hw. pose proof (wf_nonblob l Hw) as Hnb.
  rewrite (render_rhs_chunks l Hnb), <- (chunks_of_val av l Hl Hnb). cbv zeta.
  destruct (chunks_of l) as [|c cs] eqn:E.
  - assert (H0 : av "0.0" = 0) by exact (Hl 0%N).
    simpl. unfold chunk_val, chain_val. simpl. rewrite H0. lra.
  - destruct (read_rhs_chunks (c :: cs)) as [H1 H2]; [discriminate|rewrite <- E; apply chunks_of_ok, Hw|].
    cbv zeta in H1, H2. rewrite H1, H2. reflexivity.
Qed.

(** the invariant [wf_term] holds along every history of string / well-formed object arguments *)
Definition wf_arg (a : targ) : bool := match a with TStr _ => true | TObj t => wf_term t end.

Lemma add_nb_wf t l : wf_term t = true -> forallb wf_term l = true -> forallb wf_term (add_nb t l) = true.
Proof.
  intros Ht. induction l as [|o r IH]; simpl; [now rewrite Ht|]. intros H. apply andb_true_iff in H as [Ho Hr].
  destruct (negb (blob o) && String.eqb (text t) (text o)); simpl.
  - rewrite Hr, andb_true_r. unfold wf_term in *. simpl. exact Ho.
  - now rewrite Ho, (IH Hr).
Qed.

Lemma wf_arg_term a t : wf_arg a = true -> to_term a = Ok t -> wf_term t = true.
Proof.
  destruct a as [s|t0]; simpl; intros Hw H; [apply parse_term_inv in H as [H _]; exact H|].
  injection H as <-. exact Hw.
Qed.

Theorem run_adds_wf args : forall l, forallb wf_arg args = true -> forallb wf_term l = true ->
  forallb wf_term (run_adds args l) = true.
Proof.
  unfold run_adds, run_adds_with. induction args as [|a r IH]; intros l Ha Hl; simpl; [exact Hl|].
  simpl in Ha. apply andb_true_iff in Ha as [Ha Hr]. apply IH; [exact Hr|].
  unfold hist_step_with, add_arg_with. destruct (to_term a) as [t|e] eqn:Ht; [|exact Hl].
  pose proof (wf_arg_term _ _ Ha Ht) as Hw. unfold add_term_with.
  destruct (negb (is_nil l) && blob t); [exact Hl|]. apply add_nb_wf; assumption.
Qed.

(** ---- D. an opaque leading expression ---- *)
Lemma render_blob_first b l : blob b = true ->
  match text b with String c _ => Ascii.eqb c "+" = false | EmptyString => False end ->
  render_rhs (b :: l) = text b ++ cat_all (map render_term l).
Proof.
  intros Hb Hc. unfold render_rhs. rewrite concat_empty_sep. simpl.
  assert (E : render_term b = text b) by (unfold render_term; now rewrite Hb). rewrite E.
  destruct (text b) as [|c r]; [contradiction|]. simpl. rewrite Hc. reflexivity.
Qed.
