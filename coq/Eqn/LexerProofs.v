(** Facts about the tokenizer model: an accepted body is one atom or [atom op atom] with
    op in {*, /}, atoms made of name/number characters only. *)
From Coq Require Import List String Ascii Bool Arith Lia.
From SFC.Base Require Import Res Str.
From SFC.Eqn Require Import Lexer.
Import ListNotations.
Local Open Scope string_scope.

Lemma all_chars_app p a b : all_chars p (a ++ b) = all_chars p a && all_chars p b.
Proof. induction a as [|c a IH]; simpl; [reflexivity|]. rewrite IH. now rewrite andb_assoc. Qed.

Lemma all_chars_impl (p q : ascii -> bool) s :
  (forall c, p c = true -> q c = true) -> all_chars p s = true -> all_chars q s = true.
Proof.
  intros Hpq. induction s as [|c s IH]; simpl; [reflexivity|].
  intros H. apply andb_true_iff in H as [H1 H2]. rewrite (Hpq _ H1), (IH H2). reflexivity.
Qed.

Ltac ascii_cases c :=
  destruct c as [[] [] [] [] [] [] [] []]; vm_compute; intros; try reflexivity; try discriminate.

Lemma digit_atom c : is_digit c = true -> atom_char c = true.
Proof. ascii_cases c. Qed.
Lemma xdigit_atom c : is_xdigit c = true -> atom_char c = true.
Proof. ascii_cases c. Qed.
Lemma odigit_atom c : is_odigit c = true -> atom_char c = true.
Proof. ascii_cases c. Qed.
Lemma bdigit_atom c : is_bdigit c = true -> atom_char c = true.
Proof. ascii_cases c. Qed.
Lemma ident_atom c : ident_char c = true -> atom_char c = true.
Proof. unfold atom_char. intros ->. reflexivity. Qed.
Lemma e_atom c : is_e c = true -> atom_char c = true.
Proof. ascii_cases c. Qed.
Lemma j_atom c : is_j c = true -> atom_char c = true.
Proof. ascii_cases c. Qed.
Lemma us_atom c : Ascii.eqb c "_" = true -> atom_char c = true.
Proof. ascii_cases c. Qed.
Lemma dot_atom c : Ascii.eqb c "." = true -> atom_char c = true.
Proof. ascii_cases c. Qed.
Lemma atom_not_muldiv c : atom_char c = true -> is_muldiv c = false.
Proof. ascii_cases c. Qed.
Lemma ox_atom c : (Ascii.eqb c "x" || Ascii.eqb c "X" || Ascii.eqb c "o" || Ascii.eqb c "O"
                   || Ascii.eqb c "b" || Ascii.eqb c "B") = true -> atom_char c = true.
Proof. ascii_cases c. Qed.

Lemma span_spec p s : fst (span p s) ++ snd (span p s) = s /\ all_chars p (fst (span p s)) = true.
Proof.
  induction s as [|c s [IH1 IH2]]; simpl; [split; reflexivity|].
  destruct (p c) eqn:Hc; simpl; [|split; reflexivity].
  rewrite IH1, Hc, IH2. split; reflexivity.
Qed.

(** a scanner result: consumed text [a], rest [b] *)
Definition scan_ok (s : string) (ab : string * string) : Prop :=
  fst ab ++ snd ab = s /\ all_chars atom_char (fst ab) = true.

Lemma rdigits_spec isd :
  (forall c, isd c = true -> atom_char c = true) ->
  forall s ab, rdigits isd s = Ok ab -> scan_ok s ab.
Proof.
  intros Hisd. induction s as [|c s IH]; intros ab H; simpl in H.
  - injection H as <-. split; reflexivity.
  - destruct (isd c) eqn:Hc.
    + destruct (rdigits isd s) as [ab'|] eqn:Hr; [|discriminate]. injection H as <-.
      destruct (IH _ eq_refl) as [H1 H2]. split; simpl; [now rewrite H1|]. now rewrite (Hisd _ Hc), H2.
    + destruct (Ascii.eqb c "_") eqn:Hu.
      * destruct s as [|d s']; [discriminate|]. destruct (isd d); [|discriminate].
        destruct (rdigits isd (String d s')) as [ab'|] eqn:Hr; [|discriminate]. injection H as <-.
        destruct (IH _ eq_refl) as [H1 H2]. split; simpl; [now rewrite H1|]. now rewrite (us_atom _ Hu), H2.
      * injection H as <-. split; reflexivity.
Qed.

Lemma radix_spec isd strict :
  (forall c, isd c = true -> atom_char c = true) ->
  forall s ab, radix isd strict s = Ok ab -> scan_ok s ab.
Proof.
  intros Hisd s ab H. unfold radix in H. destruct s as [|c s']; [discriminate|].
  destruct (isd c || Ascii.eqb c "_"); [|discriminate].
  destruct (rdigits isd (String c s')) as [ab'|] eqn:Hr; [|discriminate].
  pose proof (rdigits_spec isd Hisd _ _ Hr) as Hs.
  destruct (snd ab') as [|d r]; [injection H as <-; exact Hs|].
  destruct (strict && is_digit d); [discriminate|]. injection H as <-. exact Hs.
Qed.

Lemma scan_frac_spec s ab : scan_frac s = Ok ab -> scan_ok s ab.
Proof.
  unfold scan_frac. destruct s as [|c s']; intros H.
  - injection H as <-. split; reflexivity.
  - destruct (is_digit c); [exact (rdigits_spec _ digit_atom _ _ H)|]. injection H as <-. split; reflexivity.
Qed.

Lemma scan_exp_spec s ab : scan_exp s = Ok ab -> scan_ok s ab.
Proof.
  unfold scan_exp. destruct s as [|e r]; intros H.
  - injection H as <-. split; reflexivity.
  - destruct (is_e e) eqn:He; [|injection H as <-; split; reflexivity].
    destruct r as [|d r']; [injection H as <-; split; reflexivity|].
    destruct (is_digit d); [|injection H as <-; split; reflexivity].
    destruct (rdigits is_digit (String d r')) as [ab'|] eqn:Hr; [|discriminate]. injection H as <-.
    destruct (rdigits_spec _ digit_atom _ _ Hr) as [H1 H2]. split; simpl; [now rewrite H1|].
    now rewrite (e_atom _ He), H2.
Qed.

Lemma scan_imag_spec s : scan_ok s (scan_imag s).
Proof.
  unfold scan_imag. destruct s as [|c r]; [split; reflexivity|].
  destruct (is_j c) eqn:Hj; [|split; reflexivity]. split; simpl; [reflexivity|]. now rewrite (j_atom _ Hj).
Qed.

Lemma scan_after_int_spec s ab : scan_after_int s = Ok ab -> scan_ok s ab.
Proof.
  unfold scan_after_int.
  set (fr := match s with
             | String c r => if Ascii.eqb c "." then match scan_frac r with Ok ab0 => Ok (String c (fst ab0), snd ab0) | Err x => Err x end else Ok ("", s)
             | EmptyString => Ok ("", "") end).
  assert (Hfr : forall fb, fr = Ok fb -> scan_ok s fb).
  { subst fr. destruct s as [|c r]; intros fb H.
    - injection H as <-. split; reflexivity.
    - destruct (Ascii.eqb c ".") eqn:Hd; [|injection H as <-; split; reflexivity].
      destruct (scan_frac r) as [ab0|] eqn:Hf; [|discriminate]. injection H as <-.
      destruct (scan_frac_spec _ _ Hf) as [H1 H2]. split; simpl; [now rewrite H1|]. now rewrite (dot_atom _ Hd), H2. }
  destruct fr as [fb|]; [|discriminate]. specialize (Hfr _ eq_refl). destruct Hfr as [F1 F2].
  destruct (scan_exp (snd fb)) as [eb|] eqn:He; [|discriminate]. intros H. injection H as <-.
  destruct (scan_exp_spec _ _ He) as [E1 E2]. destruct (scan_imag_spec (snd eb)) as [J1 J2].
  split; simpl.
  - rewrite !append_assoc, J1, E1, F1. reflexivity.
  - rewrite !all_chars_app, F2, E2, J2. reflexivity.
Qed.

Lemma scan_decimal_spec s ab : scan_decimal s = Ok ab -> scan_ok s ab.
Proof.
  unfold scan_decimal. destruct (rdigits is_digit s) as [ab0|] eqn:Hr; [|discriminate].
  destruct (scan_after_int (snd ab0)) as [cd|] eqn:Hc; [|discriminate]. intros H. injection H as <-.
  destruct (rdigits_spec _ digit_atom _ _ Hr) as [R1 R2]. destruct (scan_after_int_spec _ _ Hc) as [C1 C2].
  split; simpl; [now rewrite append_assoc, C1, R1|]. now rewrite all_chars_app, R2, C2.
Qed.

Lemma prefix2_spec z x r s ab :
  atom_char z = true -> atom_char x = true ->
  (forall ab0, r = Ok ab0 -> scan_ok s ab0) ->
  prefix2 z x r = Ok ab -> scan_ok (String z (String x s)) ab.
Proof.
  intros Hz Hx Hr H. unfold prefix2 in H. destruct r as [ab0|]; [|discriminate]. injection H as <-.
  destruct (Hr _ eq_refl) as [H1 H2]. split; simpl; [now rewrite H1|]. now rewrite Hz, Hx, H2.
Qed.

Lemma scan_number_spec s ab : scan_number s = Ok ab -> scan_ok s ab.
Proof.
  unfold scan_number. destruct s as [|z [|x r]]; try apply scan_decimal_spec.
  destruct (Ascii.eqb z "0") eqn:Hz; [|apply scan_decimal_spec].
  assert (Hz' : atom_char z = true) by (apply digit_atom; revert Hz; ascii_cases z).
  destruct (Ascii.eqb x "x" || Ascii.eqb x "X") eqn:H1.
  { apply prefix2_spec; [exact Hz'|apply ox_atom; revert H1; ascii_cases x|]. apply radix_spec, xdigit_atom. }
  destruct (Ascii.eqb x "o" || Ascii.eqb x "O") eqn:H2.
  { apply prefix2_spec; [exact Hz'|apply ox_atom; revert H2; ascii_cases x|]. apply radix_spec, odigit_atom. }
  destruct (Ascii.eqb x "b" || Ascii.eqb x "B") eqn:H3.
  { apply prefix2_spec; [exact Hz'|apply ox_atom; revert H3; ascii_cases x|]. apply radix_spec, bdigit_atom. }
  apply scan_decimal_spec.
Qed.

Lemma take_drop n s : take n s ++ drop n s = s.
Proof. revert s. induction n as [|n IH]; intros [|c s]; simpl; try reflexivity. now rewrite IH. Qed.

Definition cat (ts : list tok) : string := fold_right (fun t acc => ttext t ++ acc) "" ts.
Definition tok_wf (t : tok) : Prop := name_or_num t = true -> all_chars atom_char (ttext t) = true.

Lemma lex_spec : forall f lv s ts, lex f lv s = Ok ts -> cat ts = s /\ Forall tok_wf ts.
Proof.
  induction f as [|f IH]; intros lv s ts H; simpl in H; [discriminate|].
  destruct s as [|c r].
  { destruct (Nat.eqb lv 0); [|discriminate]. injection H as <-. split; [reflexivity|constructor]. }
  destruct (ident_start c) eqn:Hid.
  { destruct (lex f lv (snd (span ident_char (String c r)))) as [ts'|] eqn:Hl; [|discriminate].
    injection H as <-. destruct (IH _ _ _ Hl) as [C W]. destruct (span_spec ident_char (String c r)) as [S1 S2].
    split; [simpl; rewrite C; exact S1|]. constructor; [|exact W].
    intros _. simpl. exact (all_chars_impl _ _ _ ident_atom S2). }
  destruct (is_digit c) eqn:Hdg.
  { destruct (scan_number (String c r)) as [ab|] eqn:Hn; [|discriminate].
    destruct (lex f lv (snd ab)) as [ts'|] eqn:Hl; [|discriminate]. injection H as <-.
    destruct (IH _ _ _ Hl) as [C W]. destruct (scan_number_spec _ _ Hn) as [S1 S2].
    split; [simpl; rewrite C; exact S1|]. constructor; [|exact W]. intros _. exact S2. }
  destruct (Ascii.eqb c "." && match r with String d _ => is_digit d | EmptyString => false end) eqn:Hdot.
  { destruct (scan_after_int (String c r)) as [ab|] eqn:Hn; [|discriminate].
    destruct (lex f lv (snd ab)) as [ts'|] eqn:Hl; [|discriminate]. injection H as <-.
    destruct (IH _ _ _ Hl) as [C W]. destruct (scan_after_int_spec _ _ Hn) as [S1 S2].
    split; [simpl; rewrite C; exact S1|]. constructor; [|exact W]. intros _. exact S2. }
  destruct (Ascii.eqb c "#") eqn:Hh.
  { destruct (Nat.eqb lv 0); [|discriminate]. injection H as <-.
    split; [simpl; now rewrite append_nil_r|]. constructor; [|constructor]. intros Hk. discriminate Hk. }
  destruct (op_char c); [|discriminate].
  match type of H with match lex f ?l ?s' with _ => _ end = _ => destruct (lex f l s') as [ts'|] eqn:Hl; [|discriminate] end.
  injection H as <-. destruct (IH _ _ _ Hl) as [C W].
  split; [simpl; rewrite C; apply take_drop|]. constructor; [|exact W]. intros Hk. discriminate Hk.
Qed.

Lemma split_op_atoms a : all_chars atom_char a = true -> split_op a = None.
Proof.
  induction a as [|c a IH]; simpl; [reflexivity|]. intros H. apply andb_true_iff in H as [H1 H2].
  rewrite (atom_not_muldiv _ H1), (IH H2). reflexivity.
Qed.

Lemma split_op_app a o b :
  all_chars atom_char a = true -> is_muldiv o = true -> split_op (a ++ String o b) = Some (a, o, b).
Proof.
  induction a as [|c a IH]; simpl; intros Ha Ho; [now rewrite Ho|].
  apply andb_true_iff in Ha as [H1 H2]. rewrite (atom_not_muldiv _ H1), (IH H2 Ho). reflexivity.
Qed.

(** What [Term] accepts has the shape [atom] or [atom*atom] / [atom/atom]. *)
Theorem accept_simple s : s <> "" -> accept_core s = Ok tt -> simple_text s = true.
Proof.
  intros Hne H. unfold accept_core, tokenize in H.
  destruct (lex (S (String.length s)) 0 s) as [ts|] eqn:Hl; [|discriminate].
  destruct (lex_spec _ _ _ _ Hl) as [C W]. unfold simple_text.
  assert (Hn : negb (String.eqb s "") = true) by (destruct (String.eqb_spec s ""); [contradiction|reflexivity]).
  rewrite Hn. simpl.
  destruct ts as [|t1 [|t2 [|t3 [|t4 ts]]]]; try discriminate.
  - destruct (name_or_num t1) eqn:H1; [|discriminate]. inversion W as [|? ? W1 _]; subst.
    simpl. rewrite append_nil_r. specialize (W1 H1). now rewrite (split_op_atoms _ W1).
  - destruct (name_or_num t1) eqn:H1; [|discriminate]. simpl in H.
    destruct (is_op_tok t2); [|discriminate]. simpl in H.
    destruct (String.eqb (ttext t2) "*" || String.eqb (ttext t2) "/") eqn:Ho; [|discriminate]. simpl in H.
    destruct (name_or_num t3) eqn:H3; [|discriminate].
    inversion W as [|? ? W1 W']; subst. inversion W' as [|? ? _ W'']; subst. inversion W'' as [|? ? W3 _]; subst.
    specialize (W1 H1). specialize (W3 H3). simpl. rewrite append_nil_r.
    apply orb_true_iff in Ho as [Ho|Ho]; apply String.eqb_eq in Ho; rewrite Ho; simpl;
      (rewrite split_op_app; [now rewrite W1, W3|exact W1|reflexivity]).
Qed.

(** consequences used by the other proof files *)
Lemma simple_first s : simple_text s = true ->
  exists c r, s = String c r /\ (atom_char c = true \/ is_muldiv c = true).
Proof.
  unfold simple_text. destruct s as [|c r]; [discriminate|]. intros H. exists c, r. split; [reflexivity|].
  simpl in H. destruct (is_muldiv c) eqn:Hm; [now right|]. left.
  destruct (split_op r) as [[[a o] b]|]; simpl in H.
  - apply andb_true_iff in H as [H _]. apply andb_true_iff in H as [H _]. exact H.
  - apply andb_true_iff in H as [H _]. exact H.
Qed.

Lemma simple_chars s : simple_text s = true ->
  all_chars (fun c => atom_char c || is_muldiv c) s = true.
Proof.
  unfold simple_text. intros H. apply andb_true_iff in H as [_ H]. revert H.
  assert (G : forall s, match split_op s with
                        | None => all_chars atom_char s = true -> all_chars (fun c => atom_char c || is_muldiv c) s = true
                        | Some (a, o, b) => s = a ++ String o b /\ is_muldiv o = true
                        end).
  { induction s0 as [|c s0 IH]; simpl; [reflexivity|].
    destruct (is_muldiv c) eqn:Hm; [split; [reflexivity|exact Hm]|].
    destruct (split_op s0) as [[[a o] b]|].
    - destruct IH as [-> Ho]. split; [reflexivity|exact Ho].
    - intros H. apply andb_true_iff in H as [H1 H2]. rewrite H1. simpl. exact (IH H2). }
  specialize (G s). destruct (split_op s) as [[[a o] b]|]; [|exact G].
  destruct G as [-> Ho]. intros H. apply andb_true_iff in H as [Ha Hb].
  rewrite all_chars_app. simpl. rewrite Ho, orb_true_r. simpl.
  rewrite (all_chars_impl _ _ _ (fun c (h : atom_char c = true) => orb_true_intro _ _ (or_introl h)) Ha).
  rewrite (all_chars_impl _ _ _ (fun c (h : atom_char c = true) => orb_true_intro _ _ (or_introl h)) Hb).
  reflexivity.
Qed.
