(** Meaning of term lists and of rendered right-hand sides, over the reals.
    [denote v l]: the value of an equation's term list when every term text (and the text of an
    opaque first term) is given a real by [v] -- quantifying over all [v] subsumes all
    assignments of the variables.
    [read_rhs] / [chunks_val]: an independent reader of the rendered format
    "[-]f op f … (+|-) f op f …" (signed chunks, each a left-associated chain of factors joined
    by * and /), valued from an assignment [av] of the factors.  That Python's own parser reads
    the same text the same way is tested by the oracle (harness/c12.py), not proved. *)
From Coq Require Import List String Ascii Bool ZArith NArith Reals.
From SFC.Base Require Import Res Str.
From SFC.Eqn Require Import Lexer Term Equation.
Import ListNotations.
Local Open Scope string_scope.
Local Open Scope R_scope.

Definition term_val (v : string -> R) (t : term) : R :=
  if blob t then v (text t) else IZR (coef t) * v (text t).

Definition denote (v : string -> R) (l : list term) : R :=
  fold_right (fun t acc => term_val v t + acc) 0 l.

(** what an [AddTerm] argument must contribute when it is accepted *)
Definition arg_val (v : string -> R) (a : targ) : R :=
  match to_term a with Ok t => IZR (coef t) * v (text t) | Err _ => 0 end.
Definition sum_args (v : string -> R) (args : list targ) : R :=
  fold_right (fun a acc => arg_val v a + acc) 0 args.

(** arguments that are strings or non-opaque [Term] objects *)
Definition nb_arg (a : targ) : bool := match a with TStr _ => true | TObj t => negb (blob t) end.

(** ---- reader of the rendered format ---- *)
Definition is_sign (c : ascii) : bool := Ascii.eqb c "+" || Ascii.eqb c "-".

(** text before the first sign character, then (is_plus, text up to the next sign) chunks *)
Fixpoint split_signs (s : string) : string * list (bool * string) :=
  match s with
  | EmptyString => ("", [])
  | String c r =>
      let ht := split_signs r in
      if Ascii.eqb c "+" then ("", (true, fst ht) :: snd ht)
      else if Ascii.eqb c "-" then ("", (false, fst ht) :: snd ht)
      else (String c (fst ht), snd ht)
  end.

Definition read_rhs (s : string) : list (bool * string) :=
  let ht := split_signs s in
  ((if String.eqb (fst ht) "" then [] else [(true, fst ht)]) ++ snd ht)%list.

(** first factor, then (operator, factor) pairs *)
Fixpoint split_ops (s : string) : string * list (ascii * string) :=
  match s with
  | EmptyString => ("", [])
  | String c r =>
      let ht := split_ops r in
      if is_muldiv c then ("", (c, fst ht) :: snd ht) else (String c (fst ht), snd ht)
  end.

Definition apply_op (av : string -> R) (acc : R) (of : ascii * string) : R :=
  if Ascii.eqb (fst of) "*" then acc * av (snd of) else acc / av (snd of).

(** value of a chain "f1 op f2 op f3 …", left-associated *)
Definition chain_val (av : string -> R) (body : string) : R :=
  let ht := split_ops body in fold_left (apply_op av) (snd ht) (av (fst ht)).

Definition chunk_val (av : string -> R) (c : bool * string) : R :=
  if fst c then chain_val av (snd c) else - chain_val av (snd c).

Definition chunks_val (av : string -> R) (cs : list (bool * string)) : R :=
  fold_right (fun c acc => chunk_val av c + acc) 0 cs.

(** the factor assignment gives the coefficient literals "n.0" their numeric value *)
Definition lit_ok (av : string -> R) : Prop := forall n : N, av (coef_lit n) = IZR (Z.of_N n).
