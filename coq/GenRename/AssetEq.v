(** MoneyMarket / DepositMarket._GenerateEquations and GenerateAssetWeighting (coq/GenAsset)
    commute with a renaming.  The deposit market builds the name 'INT' + code by juxtaposition:
    the renaming must leave that word alone ([int_ok]). *)
From Coq Require Import List String Ascii Bool ZArith Arith.
From SFC.Base Require Import Res Str.
From SFC.Gen Require Import Fx Zone.
From SFC.GenMarket Require Import Market.
From SFC.GenAsset Require Import Common Money Deposit Weighting.
From SFC.GenRename Require Import RStr RFix Ren ZoneEq.
Import ListNotations.
Local Open Scope string_scope.

Lemma squeeze_clean w : clean w = true -> squeeze w = w.
Proof.
  intros H. unfold squeeze, strip. rewrite rstrip_clean, lstrip_clean by exact H. now apply remove_blank_clean.
Qed.

Section AssetEq.
Variables f g : string -> string.
Hypothesis Hf : okmap f g.
Hypothesis Hnum : forall x, head_dig x = true -> f x = x.
Hypothesis Hres : forall x, mem x reserved = true -> f x = x.

Notation r := (R f).
Notation S := (ren_sector f).
Notation E := (ren_eqn f).
Notation T := (ren_term f).
Notation V := (ren_vars f).
Notation ZZ := (ren_zone f).

Let reqb := r_eqb f g Hf.
Let rlit := r_lit f g Hf Hnum Hres.
Let rpre := r_pre f g Hf Hnum Hres.
Let rfull := r_full f g Hf Hnum Hres.

Ltac sf := cbn [code country fullcode sid hasF taxable is_market excl vars ren_sector].

Lemma squeeze_ren w : clean w = true -> squeeze (r w) = r (squeeze w).
Proof.
  intros H. rewrite (squeeze_clean w H). apply squeeze_clean. now rewrite (clean_R f g Hf).
Qed.

Lemma fullname_ren s n : fullname (S s) (r n) = r (fullname s n).
Proof. unfold fullname. sf. now rewrite rfull. Qed.
Lemma fullname_lit s n : inert n = true -> fullname (S s) n = r (fullname s n).
Proof. intros H. rewrite <- (rlit n H) at 1. apply fullname_ren. Qed.
Lemma dem_name_ren c : dem_name (r c) = r (dem_name c).
Proof. unfold dem_name. now rewrite rpre. Qed.
Lemma sup_name_ren c : sup_name (r c) = r (sup_name c).
Proof. unfold sup_name. now rewrite rpre. Qed.
Lemma name1_ren x : name1 (r x) = T (name1 x).
Proof. reflexivity. Qed.

Lemma def_variable_ren s n ts : def_variable (S s) (r n) (map T ts) = S (def_variable s n ts).
Proof.
  unfold def_variable. sf. rewrite <- (rlit "" eq_refl) at 1.
  change (mkEqn (r "") (map T ts)) with (E (mkEqn "" ts)). now rewrite (set_var_ren f g Hf).
Qed.

Lemma lag_text_ren src : lag_text (r src) = r (lag_text src).
Proof.
  unfold lag_text. rewrite (r_app_r f g Hf) by reflexivity. now rewrite (rlit "(k-1)") by reflexivity.
Qed.

Lemma install_def_ren s n d : install_def (S s) (r n) (map T d) = S (install_def s n d).
Proof.
  unfold install_def. sf. rewrite (lookup_ren f g Hf). destruct (lookup_var n (vars s)) as [e|]; simpl.
  - rewrite (renders_empty_ren f g Hf Hnum Hres). destruct (renders_empty e); [apply def_variable_ren|reflexivity].
  - apply def_variable_ren.
Qed.

Lemma add_cash_flow_def_ren s t d inc :
  add_cash_flow_def (S s) (T t) (map T d) inc = option_map S (add_cash_flow_def s t d inc).
Proof.
  unfold add_cash_flow_def. rewrite (add_cash_flow_none f g Hf Hnum Hres).
  destruct (add_cash_flow s t None inc) as [s2|]; simpl; [|reflexivity]. f_equal.
  change (snd (T t)) with (map r (snd t)). rewrite <- (concat_star_ren f g Hf). apply install_def_ren.
Qed.

Definition ren_split (x : list sector * sector * list sector) : list sector * sector * list sector :=
  let '(pre, m, post) := x in (ZZ pre, S m, ZZ post).

Lemma split_sid_ren mk z : split_sid mk (ZZ z) = option_map ren_split (split_sid mk z).
Proof.
  induction z as [|s z IH]; simpl; [reflexivity|]. destruct (Nat.eqb (sid s) mk); [reflexivity|].
  rewrite IH. destruct (split_sid mk z) as [[[pre m] post]|]; reflexivity.
Qed.

Lemma of_option_ren {A B} (h : A -> B) (o : option A) : of_option (option_map h o) = rmap h (of_option o).
Proof. destruct o; reflexivity. Qed.

(* ------------------------------------------------------------------ *)
(** * Money market *)

Definition ren_ms (ms : sector * sector) : sector * sector := (S (fst ms), S (snd ms)).

Lemma money_step_ren c issuer m s :
  money_step (r c) (r issuer) (S m) (S s) = rmap ren_ms (money_step c issuer m s).
Proof.
  unfold money_step. sf. destruct (hasF s); simpl negb; cbn iota; [|reflexivity].
  rewrite reqb. destruct (String.eqb (code s) issuer).
  - rewrite dem_name_ren, (has_var_ren f g Hf). destruct (has_var m (dem_name c)); [|reflexivity].
    rewrite sup_name_ren. rewrite fullname_ren, name1_ren.
    change [T (name1 (fullname m (dem_name c)))] with (map T [name1 (fullname m (dem_name c))]).
    rewrite def_variable_ren. rewrite fullname_ren, name1_ren.
    change [T (name1 (fullname (def_variable s (sup_name c) [name1 (fullname m (dem_name c))]) (sup_name c)))]
      with (map T [name1 (fullname (def_variable s (sup_name c) [name1 (fullname m (dem_name c))]) (sup_name c))]).
    rewrite def_variable_ren. reflexivity.
  - rewrite dem_name_ren, (has_var_ren f g Hf). destruct (has_var s (dem_name c)).
    + rewrite fullname_ren, name1_ren, (add_term_to_eq_ren f g Hf), of_option_ren.
      destruct (of_option (add_term_to_eq m (dem_name c) (name1 (fullname s (dem_name c))))); reflexivity.
    + rewrite (has_var_lit f g Hf Hnum Hres) by reflexivity. destruct (has_var s "F"); [|reflexivity].
      rewrite (fullname_lit s "F") by reflexivity. rewrite name1_ren.
      change [T (name1 (fullname s "F"))] with (map T [name1 (fullname s "F")]). rewrite def_variable_ren.
      rewrite fullname_ren, name1_ren, (add_term_to_eq_ren f g Hf), of_option_ren.
      destruct (of_option (add_term_to_eq m (dem_name c) _)); reflexivity.
Qed.

Definition ren_ml (x : sector * list sector) : sector * list sector := (S (fst x), ZZ (snd x)).

Lemma money_loop_ren c issuer l : forall m,
  money_loop (r c) (r issuer) (S m) (ZZ l) = rmap ren_ml (money_loop c issuer m l).
Proof.
  induction l as [|s l IH]; intros m; simpl; [reflexivity|]. rewrite money_step_ren.
  destruct (money_step c issuer m s) as [ms|]; simpl; [|reflexivity]. rewrite IH.
  destruct (money_loop c issuer (fst ms) l); reflexivity.
Qed.

Lemma money_generate_ren c issuer mk z :
  money_generate (r c) (r issuer) mk (ZZ z) = rmap ZZ (money_generate c issuer mk z).
Proof.
  unfold money_generate. rewrite split_sid_ren. destruct (split_sid mk z) as [[[pre m] post]|]; simpl; [|reflexivity].
  destruct (hasF m); [reflexivity|]. rewrite dem_name_ren, (add_variable_ren_e f g Hf Hnum Hres), money_loop_ren.
  destruct (money_loop c issuer (add_variable m (dem_name c) "") pre) as [r1|]; simpl; [|reflexivity].
  rewrite money_loop_ren. destruct (money_loop c issuer (fst r1) post) as [r2|]; simpl; [|reflexivity].
  unfold ren_zone. now rewrite map_app.
Qed.

Lemma money_issuer_ren issuer s : money_issuer (r issuer) (S s) = money_issuer issuer s.
Proof. unfold money_issuer. sf. now rewrite reqb. Qed.

Theorem money_generate_checked_ren c issuer mk z :
  money_generate_checked (r c) (r issuer) mk (ZZ z) = rmap ZZ (money_generate_checked c issuer mk z).
Proof.
  unfold money_generate_checked. rewrite split_sid_ren. destruct (split_sid mk z) as [[[pre m] post]|]; simpl; [|reflexivity].
  destruct (hasF m); [reflexivity|].
  rewrite (filter_ren f (money_issuer issuer)) by (intros; apply money_issuer_ren). rewrite (length_ren f).
  destruct (Nat.eqb _ 1); [apply money_generate_ren|reflexivity].
Qed.

(* ------------------------------------------------------------------ *)
(** * Deposit market *)

Definition int_ok (c : string) : Prop := r (int_name c) = int_name (r c).

Lemma lag_sup_name_ren c : lag_sup_name (r c) = r (lag_sup_name c).
Proof. unfold lag_sup_name. rewrite sup_name_ren. now rewrite rpre. Qed.
Lemma lag_dem_name_ren c : lag_dem_name (r c) = r (lag_dem_name c).
Proof. unfold lag_dem_name. rewrite dem_name_ren. now rewrite rpre. Qed.

Lemma int_def_ren mfull stock : int_def (r mfull) (r stock) = map T (int_def mfull stock).
Proof.
  unfold int_def. cbn [map]. unfold ren_term. cbn [fst snd map]. rewrite rfull. now rewrite (rlit "LAG_r") by reflexivity.
Qed.

Lemma dep_issuer_ren issuer s : dep_issuer (r issuer) (S s) = dep_issuer issuer s.
Proof. unfold dep_issuer. sf. now rewrite reqb. Qed.

Lemma deposit_out_ren c issuer mfull s : int_ok c ->
  deposit_out (r c) (r issuer) (r mfull) (S s) = option_map S (deposit_out c issuer mfull s).
Proof.
  intros Hint. unfold deposit_out. sf. destruct (is_market s); [reflexivity|]. rewrite reqb.
  destruct (String.eqb (code s) issuer).
  - rewrite sup_name_ren, dem_name_ren, lag_sup_name_ren. rewrite <- rfull. rewrite name1_ren.
    change [T (name1 (mfull ++ "__" ++ dem_name c))] with (map T [name1 (mfull ++ "__" ++ dem_name c)]).
    rewrite def_variable_ren. rewrite !fullname_ren, lag_text_ren, (add_variable_ren f g Hf).
    rewrite int_def_ren. rewrite <- Hint.
    change ((-1)%Z, [r (int_name c)]) with (T ((-1)%Z, [int_name c])). apply add_cash_flow_def_ren.
  - rewrite dem_name_ren, (has_var_ren f g Hf). destruct (has_var s (dem_name c)); [|reflexivity].
    rewrite lag_dem_name_ren, !fullname_ren, lag_text_ren, (add_variable_ren f g Hf), int_def_ren. rewrite <- Hint.
    change (1%Z, [r (int_name c)]) with (T (1%Z, [int_name c])). apply add_cash_flow_def_ren.
Qed.

Definition ren_dstep (x : sector * sector * list term) : sector * sector * list term :=
  let '(m, s, acc) := x in (S m, S s, map T acc).

Lemma holder_term_ren c s : holder_term (r c) (S s) = T (holder_term c s).
Proof. unfold holder_term. now rewrite dem_name_ren, fullname_ren, name1_ren. Qed.

Lemma deposit_step_ren c issuer m s acc : int_ok c ->
  deposit_step (r c) (r issuer) (S m) (S s) (map T acc) = rmap ren_dstep (deposit_step c issuer m s acc).
Proof.
  intros Hint. unfold deposit_step. sf. destruct (is_market s); [reflexivity|]. rewrite reqb.
  rewrite dem_name_ren, !(has_var_ren f g Hf), (has_var_lit f g Hf Hnum Hres m "LAG_r") by reflexivity.
  destruct (String.eqb (code s) issuer).
  - destruct (has_var m (dem_name c) && has_var m "LAG_r"); [|reflexivity].
    rewrite deposit_out_ren by exact Hint. rewrite of_option_ren.
    destruct (of_option (deposit_out c issuer (fullcode m) s)) as [s3|]; simpl; [|reflexivity].
    rewrite sup_name_ren, fullname_ren, name1_ren.
    change [T (name1 (fullname s (sup_name c)))] with (map T [name1 (fullname s (sup_name c))]).
    now rewrite def_variable_ren.
  - destruct (has_var s (dem_name c)); [|reflexivity]. destruct (has_var m "LAG_r"); [|reflexivity].
    rewrite deposit_out_ren by exact Hint. rewrite of_option_ren.
    destruct (of_option (deposit_out c issuer (fullcode m) s)) as [s2|]; simpl; [|reflexivity].
    now rewrite holder_term_ren, map_app.
Qed.

Definition ren_dloop (x : sector * list sector * list term) : sector * list sector * list term :=
  let '(m, l, acc) := x in (S m, ZZ l, map T acc).

Lemma deposit_loop_ren c issuer l : int_ok c -> forall m acc,
  deposit_loop (r c) (r issuer) (S m) (ZZ l) (map T acc) = rmap ren_dloop (deposit_loop c issuer m l acc).
Proof.
  intros Hint. induction l as [|s l IH]; intros m acc; simpl; [reflexivity|].
  rewrite deposit_step_ren by exact Hint.
  destruct (deposit_step c issuer m s acc) as [[[m1 s1] acc1]|]; simpl; [|reflexivity].
  rewrite IH. destruct (deposit_loop c issuer m1 l acc1) as [[[m2 r2] acc2]|]; reflexivity.
Qed.

Lemma deposit_generate_ren c issuer mk z : int_ok c ->
  deposit_generate (r c) (r issuer) mk (ZZ z) = rmap ZZ (deposit_generate c issuer mk z).
Proof.
  intros Hint. unfold deposit_generate. rewrite split_sid_ren.
  destruct (split_sid mk z) as [[[pre m] post]|]; simpl; [|reflexivity].
  destruct (is_market m); simpl; [|reflexivity].
  change (@nil term) with (map T []) at 1. rewrite deposit_loop_ren by exact Hint.
  destruct (deposit_loop c issuer m pre []) as [[[m1 pre'] acc1]|]; simpl; [|reflexivity].
  rewrite deposit_loop_ren by exact Hint.
  destruct (deposit_loop c issuer m1 post acc1) as [[[m2 post'] acc2]|]; simpl; [|reflexivity].
  rewrite dem_name_ren, def_variable_ren. unfold ren_zone. now rewrite map_app.
Qed.

Theorem deposit_generate_checked_ren c issuer mk z : int_ok c ->
  deposit_generate_checked (r c) (r issuer) mk (ZZ z) = rmap ZZ (deposit_generate_checked c issuer mk z).
Proof.
  intros Hint. unfold deposit_generate_checked. rewrite split_sid_ren.
  destruct (split_sid mk z) as [[[pre m] post]|]; simpl; [|reflexivity].
  destruct (is_market m); simpl; [|reflexivity].
  rewrite (filter_ren f (dep_issuer issuer)) by (intros; apply dep_issuer_ren). rewrite (length_ren f).
  destruct (Nat.eqb _ 1); [now apply deposit_generate_ren|reflexivity].
Qed.

(* ------------------------------------------------------------------ *)
(** * Asset weighting *)

Definition ren_dict (d : list (string * string)) : list (string * string) :=
  map (fun kv => (r (fst kv), r (snd kv))) d.

Lemma wgt_name_ren c : wgt_name (r c) = r (wgt_name c).
Proof. unfold wgt_name. now rewrite rpre. Qed.

Lemma dict_set_ren k v d : dict_set (r k) (r v) (ren_dict d) = ren_dict (dict_set k v d).
Proof.
  induction d as [|[k' v'] d IH]; simpl; [reflexivity|]. rewrite reqb.
  destruct (String.eqb k k'); simpl; [reflexivity|]. now rewrite IH.
Qed.

Lemma dict_of_pairs_ren ws : dict_of_pairs (ren_dict ws) = ren_dict (dict_of_pairs ws).
Proof.
  unfold dict_of_pairs. change (@nil (string * string)) with (ren_dict []) at 1. generalize (@nil (string * string)).
  induction ws as [|[k v] ws IH]; intros d; simpl; [reflexivity|]. rewrite dict_set_ren. apply IH.
Qed.

Lemma demand_def_ren c : demand_def (r c) = map T (demand_def c).
Proof. unfold demand_def. simpl. unfold ren_term. simpl. now rewrite wgt_name_ren, (rlit "F") by reflexivity. Qed.

Definition ren_wl (x : sector * list term) : sector * list term := (S (fst x), map T (snd x)).

Definition dict_clean (d : list (string * string)) : bool := forallb (fun kv => clean (snd kv)) d.

Lemma weighting_loop_ren d : dict_clean d = true -> forall s resid,
  weighting_loop (S s) (ren_dict d) (map T resid) = rmap ren_wl (weighting_loop s d resid).
Proof.
  induction d as [|[c w] d IH]; intros Hd s resid; cbn [weighting_loop ren_dict map fst snd]; [reflexivity|].
  simpl in Hd. apply andb_true_iff in Hd as [Hw Hd].
  rewrite wgt_name_ren, (r_dunder f g Hf). destruct (has_substring "__" (wgt_name c)); [reflexivity|].
  rewrite dem_name_ren, (r_dunder f g Hf). destruct (has_substring "__" (dem_name c)); [reflexivity|].
  rewrite squeeze_ren by exact Hw. rewrite (add_variable_ren f g Hf). rewrite demand_def_ren, def_variable_ren.
  change [((-1)%Z, [r (wgt_name c)])] with (map T [((-1)%Z, [wgt_name c])]). rewrite <- map_app. now apply IH.
Qed.

Lemma dict_set_clean k v d : clean v = true -> dict_clean d = true -> dict_clean (dict_set k v d) = true.
Proof.
  intros Hv. induction d as [|[k' v'] d IH]; simpl; intros Hd; [now rewrite Hv|].
  apply andb_true_iff in Hd as [H1 H2]. destruct (String.eqb k k'); simpl; [now rewrite Hv|]. now rewrite H1, IH.
Qed.

Lemma dict_of_pairs_clean ws : dict_clean ws = true -> dict_clean (dict_of_pairs ws) = true.
Proof.
  unfold dict_of_pairs. assert (G : forall d, dict_clean d = true -> dict_clean ws = true ->
    dict_clean (fold_left (fun d kv => dict_set (fst kv) (snd kv) d) ws d) = true).
  { induction ws as [|[k v] ws IH]; intros d Hd Hw; simpl; [exact Hd|].
    simpl in Hw. apply andb_true_iff in Hw as [H1 H2]. apply IH; [now apply dict_set_clean|exact H2]. }
  intros H. now apply G.
Qed.

Theorem asset_weighting_ren s ws res absolute : dict_clean ws = true ->
  asset_weighting (S s) (ren_dict ws) (r res) absolute = rmap S (asset_weighting s ws res absolute).
Proof.
  intros Hc. unfold asset_weighting. destruct absolute; [reflexivity|].
  rewrite dict_of_pairs_ren.
  assert (HT : [(1%Z, @nil string)] = map T [(1%Z, [])]) by reflexivity. rewrite HT at 1.
  rewrite weighting_loop_ren by (now apply dict_of_pairs_clean).
  destruct (weighting_loop s (dict_of_pairs ws) [(1%Z, [])]) as [[s1 resid]|]; cbn [rmap bind ren_wl fst snd]; [|reflexivity].
  rewrite wgt_name_ren, (r_dunder f g Hf). destruct (has_substring "__" (wgt_name res)); [reflexivity|].
  rewrite dem_name_ren, (r_dunder f g Hf). destruct (has_substring "__" (dem_name res)); [reflexivity|].
  now rewrite def_variable_ren, demand_def_ren, def_variable_ren.
Qed.

End AssetEq.
