(** Boolean helpers for the multi-currency cases of harness/gen_rename.py. *)
From Coq Require Import List String Ascii Bool ZArith Arith.
From SFC.Base Require Import Res Str.
From SFC.Gen Require Import Fx Zone.
From SFC.GenMain2 Require Import Program Classes Main CaseDefs Program2 Main2.
From SFC.GenRename Require Import RStr RFix Ren ConsEq MainEq Equivariance Concrete ClassEq Static Rename WitnessR CaseDefs
                                  Cons2Eq Main2Eq Equivariance2 Rename2.
Import ListNotations.
Local Open Scope string_scope.

Definition cls2_eqb (a b : cls2) : bool :=
  match a, b with
  | COld x, COld y => cls_eqb x y
  | CGoldGov s, CGoldGov s' => String.eqb s s'
  | CGoldCB t s, CGoldCB t' s' => onat_eqb t t' && String.eqb s s'
  | CXR, CXR | CFX, CFX | CGOLD, CGOLD => true
  | _, _ => false
  end.

Definition step2_eqb (a b : step2) : bool :=
  match a, b with
  | S2Country c cur rg, S2Country c' cur' rg' => String.eqb c c' && ostr_eqb cur cur' && Bool.eqb rg rg'
  | S2External, S2External => true
  | S2Sector i c k, S2Sector i' c' k' => Nat.eqb i i' && String.eqb c c' && cls2_eqb k k'
  | S2Op (UOld o), S2Op (UOld o') => uop_eqb o o'
  | S2Op (UAddMarket s m), S2Op (UAddMarket s' m') => Nat.eqb s s' && Nat.eqb m m'
  | _, _ => false
  end.

Fixpoint prog2_eqb (a b : program2) : bool :=
  match a, b with [], [] => true | x :: a', y :: b' => step2_eqb x y && prog2_eqb a' b' | _, _ => false end.

Definition rename_check2 (rho : renaming) (p p2 : program2) (x2 : expected) : bool :=
  prog2_eqb (rename_program2 rho p) p2 &&
  sys_case (build2 (rename_program2 rho p)) x2 &&
  (if renaming_ok2 rho p then sys_case (rmap (rename_system rho) (build2 p)) x2 else true).

Definition renamed_sys_case2 (rho : renaming) (p : program2) (x2 : expected) : bool :=
  sys_case (rmap (rename_system rho) (build2 p)) x2.

(** 0 = holds, 1 = perm_ok, 2 = a step, 3 = deposit code, 4 = classification, 5 = white space in a full code *)
Definition why_not2 (rho : renaming) (p : program2) : nat :=
  if negb (perm_ok rho) then 1
  else if negb (forallb (step2_okb (ap rho)) p) then 2
  else match construct_all2 p with
       | Err _ => 0
       | Ok st => if negb (zclean_b st) then 5
                  else if negb (dep_okb2 (ap rho) st) then 3
                  else match final_zone2 st with
                       | Ok x => if exo_free (fst x) then 0 else 4
                       | Err _ => 0
                       end
       end.

(** the texts of a program as Term() stores them *)
Definition sq_step2 (x : step2) : step2 :=
  match x with
  | S2Sector ci c (COld k) => S2Sector ci c (COld (sq_cls k))
  | S2Op (UOld o) => S2Op (UOld (sq_uop o))
  | x => x
  end.
Definition sq_program2 (p : program2) : program2 := map sq_step2 p.
