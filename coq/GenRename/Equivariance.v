(** The whole pipeline commutes with a renaming:  build (rename p) = rename (build p),
    errors included, for every piece map [f] with inverse [g] that fixes the reserved words and
    every program that satisfies the decidable side condition [renaming_ok_f]. *)
From Coq Require Import List String Ascii Bool ZArith Arith Lia Permutation.
From SFC.Base Require Import Res Str Sorting.
From SFC.Gen Require Import Fx Zone.
From SFC.GenMarket Require Import Market.
From SFC.GenMain2 Require Import Program Classes Main.
From SFC.GenRename Require Import RStr RFix Ren ZoneEq ConsEq MainEq QScan RowEq.
Import ListNotations.
Local Open Scope string_scope.

Definition kind_eqb (a b : kind) : bool :=
  match a, b with
  | KDef x, KDef y | KLag x, KLag y | KExo x, KExo y => String.eqb x y
  | _, _ => false
  end.

Lemma kind_eqb_eq a b : kind_eqb a b = true -> a = b.
Proof. destruct a, b; simpl; try discriminate; intros H; apply String.eqb_eq in H; now subst. Qed.

Section Main.
Variables f g : string -> string.

Notation r := (R f).
Notation ZZ := (ren_zone f).

(** the classification of every emitted row text (exogenous / lagged / endogenous, decided by
    Model._FinalEquationFormatting and EquationParser on the TEXT of the row) is the same before
    and after the renaming *)
Definition stable_b (Z : zone) : bool :=
  forallb (fun s => forallb (fun ke => kind_eqb (classify (r (final_text s (snd ke))))
                                                (ren_kind f (classify (final_text s (snd ke))))) (vars s)) Z.

(** the side condition of the theorem, for a piece map *)
Definition renaming_ok_f (p : program) : bool :=
  forallb (step_okb f) p &&
  match construct_all p with
  | Ok st => dep_okb f st && match final_zone st with Ok x => stable_b (fst x) | Err _ => true end
  | Err _ => true
  end.

Hypothesis Hf : okmap f g.
Hypothesis Hnum : forall x, head_dig x = true -> f x = x.
Hypothesis Hres : forall x, mem x reserved = true -> f x = x.

Lemma lookup_In_pair n vs e : lookup_var n vs = Some e -> exists k, List.In (k, e) vs.
Proof.
  induction vs as [|[k e'] vs IH]; simpl; [discriminate|]. destruct (String.eqb n k).
  - intros H. injection H as <-. exists k. now left.
  - intros H. destruct (IH H) as (k' & Hk). exists k'. now right.
Qed.

Lemma stable_b_ok Z : stable_b Z = true -> forall s, List.In s Z -> row_stable f s.
Proof.
  unfold stable_b. rewrite forallb_forall. intros H s Hs n e Hl. specialize (H s Hs). rewrite forallb_forall in H.
  destruct (lookup_In_pair _ _ _ Hl) as (k & Hk). specialize (H (k, e) Hk). now apply kind_eqb_eq.
Qed.

Lemma zone_rows_ren Z : (forall s, List.In s Z -> row_stable f s) ->
  zone_rows (ZZ Z) = flat_map (fun s => sort_rows (map (ren_row f) (sector_rows s))) Z.
Proof.
  intros H. unfold zone_rows. induction Z as [|s Z IH]; simpl; [reflexivity|].
  rewrite (sector_rows_ren f g Hf Hnum Hres) by (apply H; now left). rewrite IH; [reflexivity|]. intros; apply H; now right.
Qed.

Lemma flat_rows_length Z :
  List.length (flat_map (fun s => sort_rows (map (ren_row f) (sector_rows s))) Z) = List.length (zone_rows Z).
Proof.
  unfold zone_rows. induction Z as [|s Z IH]; simpl; [reflexivity|].
  now rewrite !app_length, IH, sort_rows_length, map_length.
Qed.

Lemma emit_ren x : stable_b (fst x) = true -> emit (ren_zi f x) = rmap (rename_system_f f) (emit x).
Proof.
  intros Hs. destruct x as [Z ics]. unfold emit, ren_zi. cbn [fst snd] in *.
  rewrite zone_rows_ren by (apply stable_b_ok; exact Hs).
  assert (HL := flat_rows_length Z).
  set (rows' := flat_map (fun s => sort_rows (map (ren_row f) (sector_rows s))) Z) in *.
  assert (HR : rename_system_f f (mkFS Z (zone_rows Z) ics) = mkFS (ZZ Z) rows' (map (ren_ic f) ics)) by reflexivity.
  destruct (zone_rows Z) as [|x0 rows] eqn:Er.
  - destruct rows' as [|y l] eqn:Ef; [|discriminate]. destruct ics; cbn [map rmap]; [reflexivity|]. now rewrite HR.
  - destruct rows' as [|y l] eqn:Ef; [discriminate|]. cbn [rmap]. now rewrite HR.
Qed.

Lemma build_final p : build p = bind (construct_all p) (fun st => bind (final_zone st) emit).
Proof.
  unfold build, build_run. destruct (construct_all p) as [st|]; simpl; [|reflexivity].
  rewrite <- main_run_final. destruct (main_run st); reflexivity.
Qed.

Theorem build_ren p : renaming_ok_f p = true ->
  build (rename_program_f f p) = rmap (rename_system_f f) (build p).
Proof.
  unfold renaming_ok_f. intros H. apply andb_true_iff in H as [Hp H]. rewrite !build_final.
  rewrite (construct_all_ren f g Hf Hnum Hres) by exact Hp.
  destruct (construct_all p) as [st|] eqn:Ec; simpl; [|reflexivity].
  apply andb_true_iff in H as [Hd Hst].
  rewrite (final_zone_ren f g Hf Hnum Hres) by (try exact Hd; eapply construct_all_exo; eauto).
  destruct (final_zone st) as [x|]; simpl; [|reflexivity]. now apply emit_ren.
Qed.

(** the rows of the renamed system are the renamed rows in another order *)
Lemma rename_rows_perm E : fs_rows E = zone_rows (fs_zone E) ->
  Permutation (fs_rows (rename_system_f f E)) (map (ren_row f) (fs_rows E)).
Proof.
  intros HE. rewrite HE. clear HE. unfold rename_system_f, zone_rows. cbn [fs_rows]. induction (fs_zone E) as [|s Z IH]; simpl; [constructor|].
  rewrite map_app. apply Permutation_app; [apply Permutation_sym, sort_rows_perm|exact IH].
Qed.

End Main.
