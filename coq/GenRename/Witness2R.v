(** Multi-currency witnesses: the open-economy and gold-standard programs of GenMain2/Witness2.v with
    country codes (which are also the currency codes), sector codes, the labour market and a user
    variable renamed. *)
From Coq Require Import List String Ascii Bool ZArith Arith.
From SFC.Base Require Import Res Str.
From SFC.Gen Require Import Fx Zone.
From SFC.GenMain2 Require Import Program Classes Main Witness Program2 Main2 Witness2.
From SFC.GenRename Require Import RStr RFix Ren ConsEq MainEq Equivariance Concrete Rename WitnessR
                                  Cons2Eq Main2Eq Equivariance2 Rename2 CaseDefs2.
Import ListNotations.
Local Open Scope string_scope.

Definition rho_OPEN : renaming :=
  swap [("HH", "FAM"); ("GOV", "STATE"); ("LAB", "WORK"); ("CA", "QX"); ("US", "ZED"); ("BUS", "FIRM"); ("TF", "TAXES");
        ("REMIT", "GIFT")].

Lemma OPEN_renaming_ok : renaming_ok2 rho_OPEN (sq_program2 p_OPEN) = true /\ build2 (sq_program2 p_OPEN) = build2 p_OPEN /\
  is_ok (build2 p_OPEN) = true /\ rename_program2 rho_OPEN (sq_program2 p_OPEN) <> sq_program2 p_OPEN.
Proof. split; [vm_compute; reflexivity|]. split; [vm_compute; reflexivity|]. split; [reflexivity|]. vm_compute. discriminate. Qed.

Lemma GOLD_renaming_ok : renaming_ok2 rho_OPEN (sq_program2 p_GOLD) = true /\ build2 (sq_program2 p_GOLD) = build2 p_GOLD /\
  is_ok (build2 p_GOLD) = true /\ rename_program2 rho_OPEN (sq_program2 p_GOLD) <> sq_program2 p_GOLD.
Proof. split; [vm_compute; reflexivity|]. split; [vm_compute; reflexivity|]. split; [reflexivity|]. vm_compute. discriminate. Qed.

Definition differs2 (rho : renaming) (p : program2) : Prop :=
  build2 (rename_program2 rho p) <> rmap (rename_system rho) (build2 p).

(** a currency renamed to the numeraire's name *)
Lemma currency_reserved_refuted : let rho := swap [("US", "NUMERAIRE")] in
  perm_ok rho = false /\ differs2 rho (sq_program2 p_OPEN).
Proof. split; [reflexivity|]. vm_compute. discriminate. Qed.

(** the gold-standard government spells DEM_GOOD itself, like the consolidated government *)
Lemma gold_gov_good_refuted : let rho := swap [("GOOD", "WIDGET")] in
  perm_ok rho = true /\ renaming_ok2 rho (sq_program2 p_GOLD) = false /\ differs2 rho (sq_program2 p_GOLD).
Proof. split; [reflexivity|]. split; [vm_compute; reflexivity|]. vm_compute. discriminate. Qed.
