(** Concrete programs and renamings: the side condition holds on SIM-, PC- and REG-like programs
    with non-identity renamings, and each part of it matters. *)
From Coq Require Import List String Ascii Bool ZArith Arith.
From SFC.Base Require Import Res Str.
From SFC.Gen Require Import Fx Zone.
From SFC.GenAsset Require Import Weighting.
From SFC.GenMain2 Require Import Program Classes Main Witness.
From SFC.GenRename Require Import RStr RFix Ren ConsEq MainEq Equivariance Concrete Rename.
Import ListNotations.
Local Open Scope string_scope.

(** the texts of a program with blanks removed, as Term(..., is_blob=True) stores them *)
Definition sq_cls (k : cls) : cls :=
  match k with
  | CHousehold ai af good lab => CHousehold (squeeze ai) (squeeze af) good lab
  | CHouseholdExp ai af good lab => CHouseholdExp (squeeze ai) (squeeze af) good lab
  | CCapitalists ai af good => CCapitalists (squeeze ai) (squeeze af) good
  | CTaxFlow rate pt => CTaxFlow (squeeze rate) pt
  | k => k
  end.
Definition sq_uop (o : uop) : uop :=
  match o with
  | OAddVariable s n t => OAddVariable s n (squeeze t)
  | OSetExogenous s n spec => OSetExogenous s n (squeeze spec)
  | OAddSupplier m s t => OAddSupplier m s (option_map squeeze t)
  | OAssetWeighting s ws res => OAssetWeighting s (map (fun cw => (fst cw, squeeze (snd cw))) ws) res
  | o => o
  end.
Definition sq_step (x : step) : step :=
  match x with StSector ci c k => StSector ci c (sq_cls k) | StOp o => StOp (sq_uop o) | x => x end.
Definition sq_program (p : program) : program := map sq_step p.

Definition swap (l : list (string * string)) : renaming :=
  (l ++ map (fun ab => (snd ab, fst ab)) l)%list.

Definition rho_SIM : renaming :=
  swap [("HH", "FAM"); ("GOV", "STATE"); ("LAB", "WORK"); ("CA", "QX"); ("BUS", "FIRM"); ("TF", "TAXES")].
Definition rho_PC : renaming :=
  swap [("HH", "FAM"); ("LAB", "WORK"); ("CA", "QX"); ("BUS", "FIRM"); ("TF", "TAXES"); ("SERV", "CARE");
        ("CAP", "RENT"); ("TRE", "FISC0"); ("CB", "BANK"); ("BSV", "SVC")].
Definition rho_REG : renaming :=
  swap [("HH", "B"); ("GOV", "STATE"); ("LAB", "WORK"); ("BUS", "FIRM"); ("TF", "TAXES"); ("GV", "CTR");
        ("N", "NOR"); ("HW", "FI")].

Lemma SIM_renaming_ok : renaming_ok rho_SIM (sq_program p_SIM) = true /\ build (sq_program p_SIM) = build p_SIM /\
  is_ok (build p_SIM) = true /\ rename_program rho_SIM (sq_program p_SIM) <> sq_program p_SIM.
Proof. split; [vm_compute; reflexivity|]. split; [vm_compute; reflexivity|]. split; [reflexivity|]. vm_compute. discriminate. Qed.

Lemma PC_renaming_ok : renaming_ok rho_PC (sq_program p_PC) = true /\ build (sq_program p_PC) = build p_PC /\
  is_ok (build p_PC) = true /\ rename_program rho_PC (sq_program p_PC) <> sq_program p_PC.
Proof. split; [vm_compute; reflexivity|]. split; [vm_compute; reflexivity|]. split; [reflexivity|]. vm_compute. discriminate. Qed.

Lemma REG_renaming_ok : renaming_ok rho_REG (sq_program p_REG) = true /\ build (sq_program p_REG) = build p_REG /\
  is_ok (build p_REG) = true /\ rename_program rho_REG (sq_program p_REG) <> sq_program p_REG.
Proof. split; [vm_compute; reflexivity|]. split; [vm_compute; reflexivity|]. split; [reflexivity|]. vm_compute. discriminate. Qed.

(* ------------------------------------------------------------------ *)
(** * Each condition matters *)

Definition differs (rho : renaming) (p : program) : Prop :=
  build (rename_program rho p) <> rmap (rename_system rho) (build p).

(** D18c: the government classes spell DEM_GOOD themselves; renaming the goods market GOOD does
    not rename the government's demand variable *)
Lemma gov_good_refuted : let rho := swap [("GOOD", "WIDGET")] in
  perm_ok rho = true /\ renaming_ok rho (sq_program p_SIM) = false /\ differs rho (sq_program p_SIM).
Proof. split; [reflexivity|]. split; [vm_compute; reflexivity|]. vm_compute. discriminate. Qed.

(** a renaming that is not injective on the codes in use *)
Lemma collision_refuted : let rho := [("HH", "BUS")] in
  perm_ok rho = false /\ differs rho (sq_program p_SIM) /\ build (rename_program rho (sq_program p_SIM)) = Err LogicError.
Proof. split; [reflexivity|]. split; [vm_compute; discriminate|vm_compute; reflexivity]. Qed.

(** a reserved word is moved *)
Lemma reserved_refuted : let rho := swap [("LAB", "LAG")] in
  perm_ok rho = false /\ differs rho (sq_program p_SIM).
Proof. split; [reflexivity|]. vm_compute. discriminate. Qed.

(** blanks between two identifiers in an expression text: Term() joins them *)
Definition p_blank : program :=
  [ StCountry "CA"; StSector 0 "HH" (CHousehold "0.6000" "0.4000" "GOOD" "LAB"); StOp (OAddVariable 0 "X" "LAB GOOD") ].
Lemma blank_refuted : let rho := swap [("LAB", "WORK")] in
  perm_ok rho = true /\ renaming_ok rho p_blank = false /\ differs rho p_blank.
Proof. split; [reflexivity|]. split; [vm_compute; reflexivity|]. vm_compute. discriminate. Qed.

(** an exogenous text that starts with an identifier is glued to the word EXOGENOUS *)
Definition p_exo : program :=
  [ StCountry "CA"; StSector 0 "HH" (CHousehold "0.6000" "0.4000" "GOOD" "LAB"); StOp (OSetExogenous 0 "T" "LAB") ].
Lemma exo_head_refuted : let rho := swap [("LAB", "WORK")] in
  perm_ok rho = true /\ renaming_ok rho p_exo = false /\ differs rho p_exo.
Proof. split; [reflexivity|]. split; [vm_compute; reflexivity|]. vm_compute. discriminate. Qed.

(** the deposit market's code: INT + code is one word *)
Definition p_dep : program :=
  [ StCountry "CA"; StSector 0 "GOV" CGov; StSector 0 "HH" (CHousehold "0.6000" "0.4000" "GOOD" "LAB");
    StSector 0 "SAV" (CDepositMarket "GOV"); StOp (OAddVariable 1 "DEM_SAV" "0.5*F") ].
Lemma deposit_code_refuted : let rho := swap [("SAV", "BOND")] in
  perm_ok rho = true /\ is_ok (build p_dep) = true /\ renaming_ok rho p_dep = false /\ differs rho p_dep.
Proof. split; [reflexivity|]. split; [reflexivity|]. split; [vm_compute; reflexivity|]. vm_compute. discriminate. Qed.

(** classification by substring: a text in which EXOGENOUS is part of a longer word *)
Definition p_cls : program :=
  [ StCountry "CA"; StSector 0 "HH" (CHousehold "0.6000" "0.4000" "GOOD" "LAB"); StOp (OAddVariable 0 "X" "EXOGENOUSLAB") ].
Lemma classification_refuted : let rho := swap [("LAB", "WORK")] in
  perm_ok rho = true /\ forallb (step_okb (ap rho)) p_cls = true /\ renaming_ok rho p_cls = false /\ differs rho p_cls.
Proof. split; [reflexivity|]. split; [reflexivity|]. split; [vm_compute; reflexivity|]. vm_compute. discriminate. Qed.
