(** The classification of a row text (Main.classify: exogenous / lagged / endogenous, by substring
    tests and replacements on the TEXT, as Model._FinalEquationFormatting and EquationParser do it)
    commutes with a renaming, provided the word EXOGENOUS occurs in the text only as a whole word
    ([exo_clean]) and no piece the renaming moves contains it. *)
From Coq Require Import List String Ascii Bool ZArith Arith Lia.
From SFC.Base Require Import Res Str.
From SFC.GenMain2 Require Import Main.
From SFC.GenRename Require Import RStr RFix Ren.
Import ListNotations.
Local Open Scope string_scope.

(* ------------------------------------------------------------------ *)
(** * Prefixes, replace *)

Lemma prefix_app p x : String.prefix p (p ++ x) = true.
Proof. induction p as [|c p IH]; simpl; [now destruct x|]. destruct (ascii_dec c c); [exact IH|congruence]. Qed.

Lemma prefix_inv p : forall s, String.prefix p s = true -> s = p ++ drop (String.length p) s.
Proof.
  induction p as [|c p IH]; intros s H; simpl; [reflexivity|]. destruct s as [|d s]; simpl in H; [discriminate|].
  destruct (ascii_dec c d) as [->|]; [|discriminate]. simpl. f_equal. now apply IH.
Qed.

Lemma drop_app p x : drop (String.length p) (p ++ x) = x.
Proof. induction p as [|c p IH]; simpl; [now destruct x|exact IH]. Qed.

Lemma prefix_nil p : p <> "" -> String.prefix p "" = false.
Proof. destruct p; [congruence|reflexivity]. Qed.

Lemma prefix_length p s : String.prefix p s = true -> String.length p <= String.length s.
Proof. intros H. assert (E := f_equal String.length (prefix_inv p s H)). rewrite length_append in E. lia. Qed.

Lemma length_drop n : forall s, String.length (drop n s) = String.length s - n.
Proof. induction n as [|n IH]; intros s; simpl; [lia|]. destruct s; simpl; [reflexivity|apply IH]. Qed.

Lemma replace_fuel_irrel p q : p <> "" -> forall n m s, String.length s < n -> String.length s < m ->
  replace_fuel n p q s = replace_fuel m p q s.
Proof.
  intros Hp. induction n as [|n IH]; intros m s Hn Hm; [lia|]. destruct m as [|m]; [lia|]. simpl.
  destruct (String.prefix p s) eqn:Ep.
  - f_equal. assert (L := prefix_length p s Ep). assert (Lp : 1 <= String.length p) by (destruct p; [congruence|simpl; lia]).
    apply IH; rewrite length_drop; lia.
  - destruct s as [|c s]; [reflexivity|]. f_equal. apply IH; simpl in *; lia.
Qed.

Definition repl (p q s : string) : string := replace_fuel (S (String.length s)) p q s.

Lemma replace_repl p q s : p <> "" -> replace p q s = repl p q s.
Proof. destruct p; [congruence|reflexivity]. Qed.

Lemma repl_nil p q : p <> "" -> repl p q "" = "".
Proof. intros H. unfold repl. cbn [replace_fuel String.length]. now rewrite (prefix_nil p H). Qed.

Lemma repl_match p q s : p <> "" -> String.prefix p s = true -> repl p q s = q ++ repl p q (drop (String.length p) s).
Proof.
  intros Hp H. set (rhs := repl p q (drop (String.length p) s)). unfold repl. cbn [replace_fuel]. rewrite H. f_equal.
  unfold rhs, repl. apply replace_fuel_irrel; [exact Hp| |lia].
  rewrite length_drop. assert (L := prefix_length p s H). assert (Lp : 1 <= String.length p) by (destruct p; [congruence|simpl; lia]). lia.
Qed.

Lemma repl_step p q c s : p <> "" -> String.prefix p (String c s) = false -> repl p q (String c s) = String c (repl p q s).
Proof.
  intros Hp H. set (rhs := repl p q s). unfold repl. cbn [replace_fuel]. rewrite H. reflexivity.
Qed.

(** the part before the first occurrence *)
Fixpoint cut (p s : string) : option string :=
  if String.prefix p s then Some ""
  else match s with EmptyString => None | String c r => option_map (String c) (cut p r) end.

Lemma cut_find p s : match find_sub p s with Some pos => Some (take pos s) | None => None end = cut p s.
Proof.
  induction s as [|c s IH]; cbn [find_sub cut].
  - destruct (String.prefix p ""); reflexivity.
  - destruct (String.prefix p (String c s)); [reflexivity|]. rewrite <- IH. destruct (find_sub p s); reflexivity.
Qed.

(* ------------------------------------------------------------------ *)
(** * Patterns that start and end with a separator *)

Definition rigid (p : string) : bool := negb (String.eqb p "") && starts_sep p && ends_sep p && inert p.

Lemma head_sep_prefix p c s : starts_sep p = true -> p <> "" -> is_an c = true -> String.prefix p (String c s) = false.
Proof.
  destruct p as [|d p]; [congruence|]. simpl. intros Hd _ Hc. destruct (ascii_dec d c) as [->|]; [|reflexivity].
  rewrite Hc in Hd. discriminate.
Qed.

Section Class.
Variables f g : string -> string.
Hypothesis Hf : okmap f g.
Hypothesis Hg : okmap g f.
Hypothesis Hnum : forall x, head_dig x = true -> f x = x.
Hypothesis Hres : forall x, mem x reserved = true -> f x = x.
Hypothesis Hnumg : forall x, head_dig x = true -> g x = x.
Hypothesis Hresg : forall x, mem x reserved = true -> g x = x.

Notation r := (R f).

Lemma rigid_parts p : rigid p = true -> p <> "" /\ starts_sep p = true /\ ends_sep p = true /\ inert p = true.
Proof.
  unfold rigid. intros H. apply andb_true_iff in H as [H H4]. apply andb_true_iff in H as [H H3]. apply andb_true_iff in H as [H1 H2].
  apply negb_true_iff in H1. apply String.eqb_neq in H1. auto.
Qed.

Lemma r_rigid p x : rigid p = true -> r (p ++ x) = p ++ r x.
Proof.
  intros H. destruct (rigid_parts p H) as (_ & _ & H3 & H4).
  rewrite (R_app_ends f g Hf) by exact H3. now rewrite (R_fix f g Hf Hnum Hres).
Qed.

Lemma rg_rigid p x : rigid p = true -> R g (p ++ x) = p ++ R g x.
Proof.
  intros H. destruct (rigid_parts p H) as (_ & _ & H3 & H4).
  rewrite (R_app_ends g f Hg) by exact H3. now rewrite (R_fix g f Hg Hnumg Hresg).
Qed.

Lemma rs_rigid p x acc : rigid p = true -> rs f acc (p ++ x) = f acc ++ p ++ r x.
Proof.
  intros H. destruct (rigid_parts p H) as (Hn & H2 & _ & _). destruct p as [|c p]; [congruence|]. simpl in H2.
  apply negb_true_iff in H2. change (String c p ++ x) with ("" ++ String c (p ++ x)). rewrite rs_sep by exact H2.
  cbn [rs append]. rewrite <- (R_cons f g Hf c (p ++ x) H2). change (String c (p ++ x)) with (String c p ++ x). now rewrite r_rigid.
Qed.

Lemma prefix_R p s : rigid p = true -> String.prefix p (r s) = String.prefix p s.
Proof.
  intros H. destruct (String.prefix p s) eqn:E.
  - rewrite (prefix_inv p s E), r_rigid by exact H. apply prefix_app.
  - destruct (String.prefix p (r s)) eqn:E2; [|reflexivity]. exfalso.
    assert (Es : s = R g (r s)) by (symmetry; apply (R_inv f g Hf)).
    rewrite (prefix_inv p (r s) E2), rg_rigid in Es by exact H. rewrite Es, prefix_app in E. discriminate.
Qed.

Lemma repl_an p q x y : rigid p = true -> all_an x = true -> repl p q (x ++ y) = x ++ repl p q y.
Proof.
  intros H. destruct (rigid_parts p H) as (Hn & H2 & _ & _). induction x as [|c x IH]; intros Hx; [reflexivity|].
  simpl in Hx. apply andb_true_iff in Hx as [Hc Hx]. change (String c x ++ y) with (String c (x ++ y)).
  rewrite repl_step; [|exact Hn|now apply head_sep_prefix]. simpl. now rewrite IH.
Qed.

Theorem R_repl p q : rigid p = true -> rigid q = true -> forall n s, String.length s < n ->
  forall acc, all_an acc = true -> rs f acc (repl p q s) = repl p q (rs f acc s).
Proof.
  intros Hp Hq. destruct (rigid_parts p Hp) as (Hn & H2 & _ & _).
  induction n as [|n IH]; intros s Hlen acc Ha; [lia|].
  assert (Hfa : all_an (f acc) = true) by (now apply (ok_an _ _ Hf)).
  destruct s as [|c s].
  - rewrite repl_nil by exact Hn. cbn [rs]. rewrite <- (RStr.app_nil_r (f acc)) at 2.
    rewrite repl_an, repl_nil by assumption. now rewrite RStr.app_nil_r.
  - destruct (is_an c) eqn:Hc.
    + rewrite repl_step; [|exact Hn|now apply head_sep_prefix]. cbn [rs]. rewrite Hc.
      apply IH; [simpl in Hlen; lia|]. unfold snoc. rewrite all_an_app, Ha. simpl. now rewrite Hc.
    + assert (E1 : rs f acc (String c s) = f acc ++ r (String c s)).
      { cbn [rs]. rewrite Hc. now rewrite (R_cons f g Hf c s Hc). }
      rewrite E1, repl_an by assumption.
      destruct (String.prefix p (String c s)) eqn:Ep.
      * rewrite (repl_match p q _ Hn Ep). rewrite (prefix_inv p _ Ep) at 2. set (s2 := drop (String.length p) (String c s)).
        rewrite rs_rigid by exact Hq. rewrite r_rigid by exact Hp.
        rewrite (repl_match p q (p ++ r s2) Hn (prefix_app p _)), drop_app. f_equal. f_equal.
        apply (IH s2); [|reflexivity]. unfold s2. rewrite length_drop. destruct p; [congruence|]. simpl in *. lia.
      * rewrite (repl_step p q c s Hn Ep). cbn [rs]. rewrite Hc. f_equal.
        assert (Ep2 : String.prefix p (r (String c s)) = false) by (now rewrite prefix_R).
        rewrite (R_cons f g Hf c s Hc) in Ep2 |- *. rewrite (repl_step p q c (r s) Hn Ep2). f_equal.
        apply (IH s); [simpl in Hlen; lia|reflexivity].
Qed.

Corollary r_repl p q s : rigid p = true -> rigid q = true -> r (repl p q s) = repl p q (r s).
Proof. intros Hp Hq. apply (R_repl p q Hp Hq (S (String.length s)) s (Nat.lt_succ_diag_r _) "" eq_refl). Qed.

Lemma cut_an p x y : rigid p = true -> all_an x = true -> cut p (x ++ y) = option_map (append x) (cut p y).
Proof.
  intros H. destruct (rigid_parts p H) as (Hn & H2 & _ & _). induction x as [|c x IH]; intros Hx.
  - simpl. destruct (cut p y); reflexivity.
  - simpl in Hx. apply andb_true_iff in Hx as [Hc Hx]. change (String c x ++ y) with (String c (x ++ y)).
    cbn [cut]. rewrite (head_sep_prefix p c (x ++ y) H2 Hn Hc), IH by exact Hx. destruct (cut p y); reflexivity.
Qed.

Theorem R_cut p : rigid p = true -> forall s acc, all_an acc = true ->
  cut p (rs f acc s) = option_map (rs f acc) (cut p s).
Proof.
  intros Hp. destruct (rigid_parts p Hp) as (Hn & H2 & _ & _).
  induction s as [|c s IH]; intros acc Ha.
  - assert (Hfa : all_an (f acc) = true) by (now apply (ok_an _ _ Hf)).
    cbn [rs cut]. rewrite (prefix_nil p Hn). rewrite <- (RStr.app_nil_r (f acc)). rewrite cut_an by assumption.
    cbn [cut]. now rewrite (prefix_nil p Hn).
  - destruct (is_an c) eqn:Hc.
    + cbn [rs cut]. rewrite Hc, (head_sep_prefix p c s H2 Hn Hc).
      rewrite IH by (unfold snoc; rewrite all_an_app, Ha; simpl; now rewrite Hc).
      destruct (cut p s); cbn [option_map]; [|reflexivity]. cbn [rs]. now rewrite Hc.
    + assert (Hfa : all_an (f acc) = true) by (now apply (ok_an _ _ Hf)).
      assert (E1 : rs f acc (String c s) = f acc ++ r (String c s)).
      { cbn [rs]. rewrite Hc. now rewrite (R_cons f g Hf c s Hc). }
      rewrite E1, cut_an by assumption. rewrite (R_cons f g Hf c s Hc). cbn [cut].
      assert (Ep2 : String.prefix p (String c (r s)) = String.prefix p (String c s)).
      { rewrite <- (R_cons f g Hf c s Hc). now apply prefix_R. }
      rewrite Ep2. destruct (String.prefix p (String c s)).
      * cbn [option_map rs]. now rewrite RStr.app_nil_r.
      * change (r s) with (rs f "" s). rewrite (IH "" eq_refl).
        destruct (cut p s) as [a|]; cbn [option_map]; [|reflexivity]. cbn [rs]. now rewrite Hc.
Qed.

Corollary r_cut p s : rigid p = true -> cut p (r s) = option_map r (cut p s).
Proof. intros Hp. apply (R_cut p Hp s "" eq_refl). Qed.

(* ------------------------------------------------------------------ *)
(** * The word EXOGENOUS *)

Definition EXO : string := "EXOGENOUS".

(** a piece is harmless: it does not contain the word, or it is the word *)
Definition exo_piece (x : string) : bool := negb (has_substring EXO x) || String.eqb x EXO.
Definition exo_clean (t : string) : bool := forallb exo_piece (pieces t).

(** the renaming maps harmless pieces to harmless pieces, the word to itself and nothing else to it *)
Hypothesis Hexo : forall x, all_an x = true -> exo_piece x = true -> exo_piece (f x) = true /\ String.eqb (f x) EXO = String.eqb x EXO.

Lemma prefix_an_sep p : all_an p = true -> forall x c y, is_an c = false ->
  String.prefix p (x ++ String c y) = true -> String.prefix p x = true.
Proof.
  induction p as [|d p IH]; intros Hp x c y Hc H; [now destruct x|].
  simpl in Hp. apply andb_true_iff in Hp as [Hd Hp]. destruct x as [|e x]; simpl in *.
  - destruct (ascii_dec d c) as [->|]; [congruence|discriminate].
  - destruct (ascii_dec d e); [|discriminate]. eapply IH; eauto.
Qed.

Lemma hs_prefix p s : String.prefix p s = true -> has_substring p s = true.
Proof. intros H. destruct s; cbn [has_substring]; now rewrite H. Qed.

Lemma hs_tail p c s : has_substring p s = true -> has_substring p (String c s) = true.
Proof. intros H. cbn [has_substring]. destruct (String.prefix p (String c s)); [reflexivity|exact H]. Qed.

(** a run that is not the word and does not contain it, followed by a separator or the end: no
    occurrence starts inside it *)
Lemma run_no_prefix x : all_an x = true -> has_substring EXO x = false -> forall rest, starts_sep rest = true ->
  String.prefix EXO (x ++ rest) = false.
Proof.
  intros Hx Hh rest Hr. destruct (String.prefix EXO (x ++ rest)) eqn:E; [|reflexivity]. exfalso.
  assert (String.prefix EXO x = true).
  { destruct rest as [|c y]; [now rewrite RStr.app_nil_r in E|]. simpl in Hr. apply negb_true_iff in Hr.
    eapply (prefix_an_sep EXO eq_refl); eauto. }
  apply hs_prefix in H. congruence.
Qed.

Lemma hs_false_tail p c s : has_substring p (String c s) = false -> has_substring p s = false.
Proof. intros H. destruct (has_substring p s) eqn:E; [|reflexivity]. now rewrite (hs_tail p c s E) in H. Qed.

Lemma repl_run x rest q : all_an x = true -> has_substring EXO x = false -> starts_sep rest = true ->
  repl EXO q (x ++ rest) = x ++ repl EXO q rest.
Proof.
  intros Hx Hh Hr. induction x as [|c x IH]; [reflexivity|].
  simpl in Hx. apply andb_true_iff in Hx as [Hc Hx]. change (String c x ++ rest) with (String c (x ++ rest)).
  rewrite repl_step; [|discriminate|].
  - simpl. rewrite IH; [reflexivity|exact Hx|eapply hs_false_tail; exact Hh].
  - apply (run_no_prefix (String c x)); [simpl; now rewrite Hc|exact Hh|exact Hr].
Qed.

Lemma hs_run x rest : all_an x = true -> has_substring EXO x = false -> starts_sep rest = true ->
  has_substring EXO (x ++ rest) = has_substring EXO rest.
Proof.
  intros Hx Hh Hr. induction x as [|c x IH]; [reflexivity|].
  simpl in Hx. apply andb_true_iff in Hx as [Hc Hx]. change (String c x ++ rest) with (String c (x ++ rest)).
  cbn [has_substring].
  assert (Np : String.prefix EXO (String c x ++ rest) = false).
  { apply (run_no_prefix (String c x)); [simpl; now rewrite Hc|exact Hh|exact Hr]. }
  change (String c x ++ rest) with (String c (x ++ rest)) in Np. rewrite Np.
  apply IH; [exact Hx|eapply hs_false_tail; exact Hh].
Qed.

(** maximal leading run *)
Fixpoint span (s : string) : string * string :=
  match s with
  | EmptyString => ("", "")
  | String c r => if is_an c then (String c (fst (span r)), snd (span r)) else ("", s)
  end.

Lemma span_eq s : s = fst (span s) ++ snd (span s).
Proof. induction s as [|c s IH]; simpl; [reflexivity|]. destruct (is_an c); simpl; [now rewrite <- IH|reflexivity]. Qed.
Lemma span_an s : all_an (fst (span s)) = true.
Proof. induction s as [|c s IH]; simpl; [reflexivity|]. destruct (is_an c) eqn:E; simpl; [now rewrite E|reflexivity]. Qed.
Lemma span_sep s : starts_sep (snd (span s)) = true.
Proof. induction s as [|c s IH]; simpl; [reflexivity|]. destruct (is_an c) eqn:E; simpl; [exact IH|now rewrite E]. Qed.
Lemma span_len s : String.length (snd (span s)) <= String.length s.
Proof. induction s as [|c s IH]; simpl; [lia|]. destruct (is_an c); simpl; lia. Qed.

Lemma ps_span s : forall acc, ps acc s = (acc ++ fst (span s)) :: match snd (span s) with EmptyString => [] | String _ t => pieces t end.
Proof.
  induction s as [|c s IH]; intros acc; simpl; [now rewrite RStr.app_nil_r|].
  destruct (is_an c); simpl; [|now rewrite RStr.app_nil_r]. rewrite IH. unfold snoc. now rewrite RStr.app_assoc.
Qed.

Lemma exo_clean_span s : exo_clean s = exo_piece (fst (span s)) &&
  match snd (span s) with EmptyString => true | String _ t => exo_clean t end.
Proof.
  unfold exo_clean, pieces. rewrite ps_span. cbn [forallb append]. destruct (snd (span s)); [reflexivity|reflexivity].
Qed.

Lemma r_span s : r s = f (fst (span s)) ++ r (snd (span s)).
Proof.
  rewrite (span_eq s) at 1. rewrite (R_app_r f g Hf) by apply span_sep. now rewrite (R_an f _ (span_an s)).
Qed.

Lemma exo_piece_cases x : exo_piece x = true -> x = EXO \/ has_substring EXO x = false.
Proof.
  unfold exo_piece. intros H. apply orb_true_iff in H as [H|H]; [right; now apply negb_true_iff|left; now apply String.eqb_eq].
Qed.

(** the text of one run followed by the rest, with the word removed *)
Lemma repl_word q rest : repl EXO q (EXO ++ rest) = q ++ repl EXO q rest.
Proof. rewrite (repl_match EXO q _ ltac:(discriminate) (prefix_app EXO rest)). now rewrite drop_app. Qed.

Theorem exo_commute n : forall s, String.length s < n -> exo_clean s = true ->
  has_substring EXO (r s) = has_substring EXO s /\ r (repl EXO "" s) = repl EXO "" (r s).
Proof.
  induction n as [|n IH]; intros s Hlen Hc; [lia|].
  rewrite exo_clean_span in Hc. apply andb_true_iff in Hc as [Hx Hrest].
  set (x := fst (span s)) in *. set (rest := snd (span s)) in *.
  assert (Hax : all_an x = true) by apply span_an. assert (Hsr : starts_sep rest = true) by apply span_sep.
  assert (Es : s = x ++ rest) by apply span_eq.
  assert (Er : r s = f x ++ r rest) by apply r_span.
  destruct (Hexo x Hax Hx) as [Hfx Hfe].
  assert (Hafx : all_an (f x) = true) by (now apply (ok_an _ _ Hf)).
  (* the rest *)
  assert (Rest : has_substring EXO (r rest) = has_substring EXO rest /\ r (repl EXO "" rest) = repl EXO "" (r rest) /\
                 starts_sep (r rest) = true /\ starts_sep (repl EXO "" rest) = true).
  { destruct rest as [|c t] eqn:Erest.
    - rewrite (R_nil f g Hf). rewrite (repl_nil EXO "" ltac:(discriminate)), (R_nil f g Hf). auto.
    - simpl in Hsr. apply negb_true_iff in Hsr.
      assert (Hlt : String.length t < n).
      { assert (L := span_len s). fold rest in L. rewrite Erest in L. simpl in L. lia. }
      destruct (IH t Hlt Hrest) as [I1 I2].
      assert (NP : forall y, String.prefix EXO (String c y) = false).
      { intros y. unfold EXO. cbn [String.prefix]. destruct (ascii_dec "E"%char c) as [<-|]; [discriminate Hsr|reflexivity]. }
      assert (Np := NP t). assert (Np2 := NP (r t)).
      rewrite (R_cons f g Hf c t Hsr). rewrite (repl_step EXO "" c t ltac:(discriminate) Np), (repl_step EXO "" c (r t) ltac:(discriminate) Np2).
      rewrite (R_cons f g Hf c _ Hsr). cbn [has_substring]. rewrite Np, Np2, I1, I2. simpl. rewrite Hsr. auto. }
  destruct Rest as (R1 & R2 & R3 & R4).
  rewrite Er, Es.
  destruct (exo_piece_cases x Hx) as [Ex|Hnx]; destruct (exo_piece_cases (f x) Hfx) as [Efx|Hnfx].
  - rewrite Efx, Ex. split.
    + rewrite !(hs_prefix EXO _ (prefix_app EXO _)). reflexivity.
    + rewrite !repl_word. cbn [append]. exact R2.
  - exfalso. rewrite Ex in Hfe, Hnfx. rewrite String.eqb_refl in Hfe. apply String.eqb_eq in Hfe. rewrite Hfe in Hnfx. discriminate.
  - exfalso. rewrite Efx in Hfe. rewrite String.eqb_refl in Hfe. symmetry in Hfe. apply String.eqb_eq in Hfe. rewrite Hfe in Hnx. discriminate.
  - split.
    + rewrite !hs_run by assumption. exact R1.
    + rewrite !repl_run by assumption. rewrite (R_app_r f g Hf) by exact R4. rewrite (R_an f x Hax). now rewrite R2.
Qed.

(* ------------------------------------------------------------------ *)
(** * classify *)

Theorem classify_ren t : exo_clean t = true -> classify (r t) = ren_kind f (classify t).
Proof.
  intros Hc. destruct (exo_commute (S (String.length t)) t (Nat.lt_succ_diag_r _) Hc) as [H1 H2].
  unfold classify. change "EXOGENOUS" with EXO. rewrite H1. destruct (has_substring EXO t).
  - cbn [ren_kind]. f_equal. rewrite !replace_repl by discriminate. symmetry. exact H2.
  - rewrite !replace_repl by discriminate.
    rewrite <- (r_repl "(t-1)" "(k-1)" t eq_refl eq_refl).
    rewrite <- (r_repl " (k -1 )" "(k-1)" _ eq_refl eq_refl).
    set (t2 := repl " (k -1 )" "(k-1)" (repl "(t-1)" "(k-1)" t)).
    assert (HC := r_cut "(k-1)" t2 eq_refl). rewrite <- !cut_find in HC.
    destruct (find_sub "(k-1)" (r t2)) as [pos'|]; destruct (find_sub "(k-1)" t2) as [pos|]; cbn [option_map] in HC; try discriminate.
    + injection HC as HC. cbn [ren_kind]. now rewrite HC.
    + reflexivity.
Qed.

End Class.
