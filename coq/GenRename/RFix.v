(** Strings a renaming leaves alone: every piece is reserved (a word the sector classes write
    themselves), starts with a digit, or is empty. *)
From Coq Require Import List String Ascii Bool Arith Lia.
From SFC.Base Require Import Str.
From SFC.GenRename Require Import RStr.
Import ListNotations.
Local Open Scope string_scope.

(** the words the constructors and _GenerateEquations spell out.  GOOD, PRIM, BAL and FISC are
    treated separately ([gov_words], [tre_words]): only the government classes write them. *)
Definition reserved : list string :=
  ["F"; "INC"; "LAG"; "T"; "DEM"; "SUP"; "DIV"; "PROF"; "TaxRate"; "AlphaIncome"; "AlphaFin"; "AfterTax";
   "EXP"; "MON"; "DEP"; "INTDEP"; "WGT"; "r"; "k"; "t"; "EXOGENOUS";
   "EXT"; "XR"; "FX"; "GOLD"; "NUMERAIRE"; "NET"; "LOCAL"; "GOLDPURCHASES"; "PRICE"; "NETOZ"; "GOLDPRICE"; "OZ"].

Definition gov_words : list string := ["GOOD"; "PRIM"; "BAL"; "FISC"].      (* ConsolidatedGovernment *)
Definition tre_words : list string := ["GOOD"; "PRIM"; "BAL"].              (* Treasury *)

Definition head_dig (x : string) : bool :=
  match x with EmptyString => false | String c _ => is_dig c end.

(** the pieces of a string *)
Fixpoint ps (acc s : string) : list string :=
  match s with
  | EmptyString => [acc]
  | String c r => if is_an c then ps (snoc acc c) r else acc :: ps "" r
  end.
Definition pieces (s : string) : list string := ps "" s.

Definition fixedp (extra : list string) (x : string) : bool :=
  String.eqb x "" || head_dig x || mem x reserved || mem x extra.

Definition inert_x (extra : list string) (s : string) : bool := forallb (fixedp extra) (pieces s).
Definition inert (s : string) : bool := inert_x [] s.

Definition ends_sep (a : string) : bool :=
  (fix go (a : string) := match a with
                           | EmptyString => false
                           | String c EmptyString => negb (is_an c)
                           | String _ r => go r
                           end) a.

Section Fix.
Variables f g : string -> string.
Hypothesis Hf : okmap f g.
Hypothesis Hg : okmap g f.
Hypothesis Hnum : forall x, head_dig x = true -> f x = x.
Hypothesis Hres : forall x, mem x reserved = true -> f x = x.

Lemma fixedp_f extra x : (forall y, mem y extra = true -> f y = y) -> fixedp extra x = true -> f x = x.
Proof.
  intros He. unfold fixedp. intros H. apply orb_true_iff in H as [H|H]; [|now apply He].
  apply orb_true_iff in H as [H|H]; [|now apply Hres].
  apply orb_true_iff in H as [H|H]; [|now apply Hnum].
  apply String.eqb_eq in H. subst. apply (ok_nil _ _ Hf).
Qed.

Lemma rs_fix extra s : (forall y, mem y extra = true -> f y = y) ->
  forall acc, forallb (fixedp extra) (ps acc s) = true -> rs f acc s = acc ++ s.
Proof.
  intros He. induction s as [|c s IH]; intros acc H; simpl in *.
  - rewrite app_nil_r. apply andb_true_iff in H as [H _]. now apply (fixedp_f extra).
  - destruct (is_an c).
    + rewrite IH by exact H. unfold snoc. now rewrite app_assoc.
    + simpl in H. apply andb_true_iff in H as [H1 H2]. rewrite (fixedp_f extra acc He H1).
      now rewrite (IH "" H2).
Qed.

Lemma R_fix_x extra s : (forall y, mem y extra = true -> f y = y) -> inert_x extra s = true -> R f s = s.
Proof. intros He H. unfold R. now rewrite (rs_fix extra s He "" H). Qed.

Lemma R_fix s : inert s = true -> R f s = s.
Proof. apply R_fix_x. intros y H. discriminate. Qed.

Lemma ends_sep_split a : ends_sep a = true -> exists a' c, a = a' ++ String c "" /\ is_an c = false.
Proof.
  induction a as [|x a IH]; [discriminate|]. destruct a as [|y a].
  - simpl. intros H. exists "", x. split; [reflexivity|]. now apply negb_true_iff.
  - intros H. change (ends_sep (String x (String y a))) with (ends_sep (String y a)) in H.
    destruct (IH H) as (a' & c & E & Hc). exists (String x a'), c. simpl. now rewrite <- E.
Qed.

Lemma R_app_ends a b : ends_sep a = true -> R f (a ++ b) = R f a ++ R f b.
Proof.
  intros H. destruct (ends_sep_split a H) as (a' & c & -> & Hc). now apply (R_app_l f g Hf).
Qed.

End Fix.
