(** Semantic form: a valuation history satisfies the renamed system iff its pull-back along the
    renaming satisfies the original one — every variable follows the same series under the
    renaming.  [Conflict.sat] reads the final state of every sector (structured equations, opaque
    texts valued by an arbitrary [bv]) and the row kinds. *)
From Coq Require Import List String Ascii Bool ZArith Arith Reals.
From SFC.Base Require Import Res Str.
From SFC.Gen Require Import Fx Zone.
From SFC.GenMain2 Require Import Program Classes Main Conflict.
Definition real := R.
From SFC.GenRename Require Import RStr RFix Ren ZoneEq RowEq Equivariance.
Import ListNotations.
Local Open Scope string_scope.

Section Sem.
Variables f g : string -> string.
Hypothesis Hf : okmap f g.
Hypothesis Hg : okmap g f.
Hypothesis Hnum : forall x, head_dig x = true -> f x = x.
Hypothesis Hres : forall x, mem x reserved = true -> f x = x.

Notation r := (R f).
Notation S := (ren_sector f).
Notation E := (ren_eqn f).
Notation T := (ren_term f).

Variables (v vprev : string -> real) (bv : string -> string -> real).

Definition pull (w : string -> real) : string -> real := fun x => w (r x).
Definition pull2 (b : string -> string -> real) : string -> string -> real := fun fc t => b (r fc) (r t).

Lemma qualify_ren s x : qualify (S s) (r x) = r (qualify s x).
Proof.
  unfold qualify. rewrite (r_dunder f g Hf). destruct (has_substring "__" x); [reflexivity|].
  cbn [fullcode ren_sector]. now rewrite (r_full f g Hf Hnum Hres).
Qed.

Lemma fval_ren s fs : fval_in v (S s) (map r fs) = fval_in (pull v) s fs.
Proof. induction fs as [|x fs IH]; simpl; [reflexivity|]. now rewrite IH, qualify_ren. Qed.

Lemma tsum_ren s ts : tsum_in v (S s) (map T ts) = tsum_in (pull v) s ts.
Proof.
  induction ts as [|t ts IH]; simpl; [reflexivity|]. rewrite IH. unfold tval_in, ren_term. simpl. now rewrite fval_ren.
Qed.

Lemma eqn_val_ren s e : eqn_val v bv (S s) (E e) = eqn_val (pull v) (pull2 bv) s e.
Proof.
  unfold eqn_val. cbn [blob terms ren_eqn fullcode ren_sector]. rewrite tsum_ren.
  rewrite (r_nil_eqb f g Hf Hnum Hres). reflexivity.
Qed.

Lemma holds_ren s n : holds v bv (S s) (r n) <-> holds (pull v) (pull2 bv) s n.
Proof.
  unfold holds. change (vars (S s)) with (ren_vars f (vars s)). rewrite (lookup_ren f g Hf).
  destruct (lookup_var n (vars s)) as [e|]; cbn [option_map]; [|tauto].
  cbn [fullcode ren_sector]. rewrite <- (r_full f g Hf Hnum Hres). rewrite eqn_val_ren. unfold pull at 1. tauto.
Qed.

Theorem sat_rename E0 : stable_b f (fs_zone E0) = true ->
  (sat (rename_system_f f E0) v vprev bv <-> sat E0 (pull v) (pull vprev) (pull2 bv)).
Proof.
  intros Hst. assert (HS := stable_b_ok f _ Hst). unfold sat, rename_system_f. cbn [fs_zone]. split.
  - intros H s n Hs Hn. specialize (H (S s) (r n)). unfold row_kind in *.
    rewrite (var_row_ren f g Hf Hnum Hres s n (HS s Hs) Hn) in H. rewrite (has_var_ren f g Hf) in H.
    specialize (H (in_map _ _ _ Hs) Hn). unfold ren_row in H. cbn [r_kind] in H.
    destruct (r_kind (var_row s n)); cbn [ren_kind] in H.
    + now apply holds_ren.
    + cbn [fullcode ren_sector] in H. rewrite <- (r_full f g Hf Hnum Hres) in H. exact H.
    + exact I.
  - intros H s' n' Hs' Hn'. apply in_map_iff in Hs' as (s & <- & Hs).
    assert (En : n' = r (R g n')) by (symmetry; apply (R_inv g f Hg)).
    rewrite En in Hn' |- *. rewrite (has_var_ren f g Hf) in Hn'. specialize (H s (R g n') Hs Hn').
    unfold row_kind in *. rewrite (var_row_ren f g Hf Hnum Hres s _ (HS s Hs) Hn'). unfold ren_row. cbn [r_kind].
    destruct (r_kind (var_row s (R g n'))); cbn [ren_kind].
    + now apply holds_ren.
    + cbn [fullcode ren_sector]. rewrite <- (r_full f g Hf Hnum Hres). exact H.
    + exact I.
Qed.

End Sem.

(** valuations that agree give the same verdict *)
Lemma fval_ext (v w : string -> real) s fs : (forall x, v x = w x) -> fval_in v s fs = fval_in w s fs.
Proof. intros H. induction fs as [|x fs IH]; simpl; [reflexivity|]. now rewrite IH, H. Qed.

Lemma tsum_ext (v w : string -> real) s ts : (forall x, v x = w x) -> tsum_in v s ts = tsum_in w s ts.
Proof.
  intros H. induction ts as [|t ts IH]; simpl; [reflexivity|]. rewrite IH. unfold tval_in. now rewrite (fval_ext v w s _ H).
Qed.

Lemma sat_ext E0 (v w vp wp : string -> real) (b c : string -> string -> real) :
  (forall x, v x = w x) -> (forall x, vp x = wp x) -> (forall x y, b x y = c x y) ->
  sat E0 v vp b -> sat E0 w wp c.
Proof.
  intros H1 H2 H3 HS s n Hs Hn. specialize (HS s n Hs Hn). destruct (row_kind s n); [|now rewrite <- H1, <- H2|exact I].
  unfold holds in *. destruct (lookup_var n (vars s)) as [e|]; [|exact I].
  rewrite <- H1, HS. unfold eqn_val. rewrite (tsum_ext v w s _ H1). destruct (String.eqb (blob e) ""); [reflexivity|now rewrite H3].
Qed.
