(** C18 at program level for the single-currency pipeline model [Main.build]:

      renaming_ok rho p = true  ->  build (rename_program rho p) = rmap (rename_system rho) (build p)

    for ALL programs [p] and all finite renamings [rho], with its corollaries (the rows are the
    renamed rows in another order; a history satisfies the renamed system iff its pull-back
    satisfies the original).

    [renaming_ok rho p] is the conjunction of
      (1) [perm_ok rho]: rho is a permutation of a finite set of pieces; every piece it moves is a
          non-empty alphanumeric word starting with a letter, is not one of the reserved words the
          library writes itself ([RFix.reserved]: F INC LAG T DEM SUP DIV PROF TaxRate AlphaIncome
          AlphaFin AfterTax EXP MON DEP INTDEP WGT r k t EXOGENOUS EXT XR FX GOLD
          NUMERAIRE NET LOCAL GOLDPURCHASES PRICE NETOZ GOLDPRICE OZ), does not contain the word
          EXOGENOUS and is not the tail of a numeric literal (e5, j);
      (2) [step_okb] for every step of p: expression texts contain no white space; the text of
          SetExogenous does not start with a letter or digit; GOOD, PRIM, BAL (and FISC) are not
          moved if the program uses Treasury (ConsolidatedGovernment): these classes spell DEM_GOOD,
          PRIM_BAL, FISC_BAL themselves whatever the goods market is called (finding D18c);
      (3) [dep_okb]: for every DepositMarket of the constructed model, 'INT' + code is renamed to
          'INT' + renamed code (the class builds that name by juxtaposition);
      (4) [exo_free]: in the emitted row texts of [p] the word EXOGENOUS occurs only as a whole
          word (rows are classified exogenous / lagged / endogenous by substring tests on the TEXT in
          Model._FinalEquationFormatting and EquationParser; ClassEq.classify_ren proves that the
          classification then commutes with every admissible renaming) — a condition on [p] alone,
          evaluated on its final state.
    (2)-(4) are only evaluated as far as [p] gets: a program that fails during construction needs
    (2) only. *)
From Coq Require Import List String Ascii Bool ZArith Arith Permutation Reals.
From SFC.Base Require Import Res Str.
From SFC.Gen Require Import Fx Zone.
From SFC.GenMain2 Require Import Program Classes Main Conflict.
Definition real := R.
From SFC.GenRename Require Import RStr RFix Ren ZoneEq ConsEq MainEq RowEq Equivariance Concrete Sem ClassEq Static.
Import ListNotations.
Local Open Scope string_scope.

Definition renaming_ok (rho : renaming) (p : program) : bool :=
  perm_ok rho && renaming_ok_s (ap rho) p.

Theorem main_rename_equivariant rho p : renaming_ok rho p = true ->
  build (rename_program rho p) = rmap (rename_system rho) (build p).
Proof.
  unfold renaming_ok. intros H. apply andb_true_iff in H as [H1 H2].
  apply (build_ren (ap rho) (ap (inv rho)) (ap_okmap rho H1) (ap_num rho H1) (ap_res rho H1) p).
  now apply renaming_ok_s_f.
Qed.

(** same error class *)
Corollary main_rename_errors rho p e : renaming_ok rho p = true ->
  build p = Err e -> build (rename_program rho p) = Err e.
Proof. intros H He. rewrite (main_rename_equivariant rho p H), He. reflexivity. Qed.

Lemma build_parts p E : build p = Ok E ->
  exists st x, construct_all p = Ok st /\ final_zone st = Ok x /\ fs_zone E = fst x /\ fs_rows E = zone_rows (fs_zone E).
Proof.
  rewrite build_final. destruct (construct_all p) as [st|] eqn:E1; [|discriminate]. simpl.
  destruct (final_zone st) as [x|] eqn:E2; [|discriminate]. simpl. unfold emit.
  intros H. exists st, x. split; [reflexivity|]. split; [exact E2|].
  destruct (zone_rows (fst x)) eqn:Er; [destruct (snd x); [discriminate|]|]; injection H as <-; simpl; auto.
Qed.

Lemma renaming_ok_stable rho p E : renaming_ok rho p = true -> build p = Ok E -> stable_b (ap rho) (fs_zone E) = true.
Proof.
  unfold renaming_ok, renaming_ok_s. intros H HB. destruct (build_parts p E HB) as (st & x & H1 & H2 & H3 & _).
  apply andb_true_iff in H as [Hp H]. apply andb_true_iff in H as [_ H]. rewrite H1 in H.
  apply andb_true_iff in H as [_ H]. rewrite H2 in H. rewrite H3. now apply exo_free_stable.
Qed.

(** the emitted rows are the renamed rows, sector by sector in the order of the new names *)
Corollary main_rename_rows rho p E : renaming_ok rho p = true -> build p = Ok E ->
  exists E', build (rename_program rho p) = Ok E' /\ fs_zone E' = ren_zone (ap rho) (fs_zone E) /\
             Permutation (fs_rows E') (map (ren_row (ap rho)) (fs_rows E)) /\
             fs_ic E' = map (ren_ic (ap rho)) (fs_ic E).
Proof.
  intros H HB. exists (rename_system rho E). rewrite (main_rename_equivariant rho p H), HB.
  split; [reflexivity|]. split; [reflexivity|]. split; [|reflexivity].
  apply rename_rows_perm. now destruct (build_parts p E HB) as (_ & _ & _ & _ & _ & HR).
Qed.

(** every variable follows the same series under the renaming: one period ... *)
Theorem main_rename_sat rho p E (v vprev : string -> real) (bv : string -> string -> real) :
  renaming_ok rho p = true -> build p = Ok E ->
  exists E', build (rename_program rho p) = Ok E' /\
    (sat E' v vprev bv <-> sat E (pull (ap rho) v) (pull (ap rho) vprev) (pull2 (ap rho) bv)).
Proof.
  intros H HB. exists (rename_system rho E). rewrite (main_rename_equivariant rho p H), HB. split; [reflexivity|].
  assert (Hp : perm_ok rho = true) by (now apply andb_true_iff in H as [H _]).
  apply (sat_rename (ap rho) (ap (inv rho)) (ap_okmap rho Hp) (ap_okmap_inv rho Hp) (ap_num rho Hp) (ap_res rho Hp)).
  now apply (renaming_ok_stable rho p E).
Qed.

(** ... and whole histories: [h t] = the values in period t, [b t] = the values of the opaque
    expressions in period t.  A history follows the system of [p] iff the renamed history (the same
    numbers under the new names) follows the system of the renamed program. *)
Definition follows (E : final_system) (h : nat -> string -> real) (b : nat -> string -> string -> real) : Prop :=
  forall t, sat E (h (Datatypes.S t)) (h t) (b (Datatypes.S t)).

Definition rename_history (rho : renaming) (h : nat -> string -> real) : nat -> string -> real :=
  fun t x => h t (R (ap (inv rho)) x).
Definition rename_opaque (rho : renaming) (b : nat -> string -> string -> real) : nat -> string -> string -> real :=
  fun t fc tx => b t (R (ap (inv rho)) fc) (R (ap (inv rho)) tx).

Theorem main_rename_histories rho p E h b : renaming_ok rho p = true -> build p = Ok E ->
  exists E', build (rename_program rho p) = Ok E' /\
    (follows E h b <-> follows E' (rename_history rho h) (rename_opaque rho b)).
Proof.
  intros H HB. assert (Hp : perm_ok rho = true) by (now apply andb_true_iff in H as [H _]).
  exists (rename_system rho E). rewrite (main_rename_equivariant rho p H), HB. split; [reflexivity|].
  assert (Inv : forall x, R (ap (inv rho)) (R (ap rho) x) = x) by (apply (R_inv _ _ (ap_okmap rho Hp))).
  assert (SR := fun v vp bv => sat_rename (ap rho) (ap (inv rho)) (ap_okmap rho Hp) (ap_okmap_inv rho Hp)
                                          (ap_num rho Hp) (ap_res rho Hp) v vp bv E (renaming_ok_stable rho p E H HB)).
  unfold follows. split; intros HF t.
  - apply SR. eapply sat_ext; [| | |exact (HF t)]; intros; unfold pull, pull2, rename_history, rename_opaque; now rewrite ?Inv.
  - specialize (HF t). apply SR in HF. eapply sat_ext; [| | |exact HF]; intros; unfold pull, pull2, rename_history, rename_opaque; now rewrite ?Inv.
Qed.
