(** Renaming of programs and of final systems.

    A renaming is a finite map on *pieces* (maximal alphanumeric runs: country codes, sector codes,
    market codes, and the parts of longer codes between underscores), the identity elsewhere.
    It acts on every string through [RStr.R]: names and full names are renamed piece by piece,
    expression texts have every identifier in them renamed piece by piece.

    [rename_program] renames a program of coq/GenMain2/Program.v: country codes, sector codes and
    every name parameter of the constructors (consumption good, labour, output, taxes_paid_to,
    issuer_short_code), the variable names and expression texts of the user operations.
    [rename_system] renames a final system: sector codes and full codes, local variable names,
    factor names, opaque texts, row names and row texts, initial-condition names; the rows of each
    sector are put back into the order of their (new) names, as Sector._CreateFinalEquations
    emits them sorted. *)
From Coq Require Import List String Ascii Bool ZArith Arith.
From SFC.Base Require Import Res Str Sorting.
From SFC.Gen Require Import Fx Zone.
From SFC.GenMain2 Require Import Program Classes Main.
From SFC.GenRename Require Import RStr.
Import ListNotations.
Local Open Scope string_scope.

(* ------------------------------------------------------------------ *)
(** * Finite maps on pieces *)

Definition renaming := list (string * string).

Fixpoint ap (rho : renaming) (x : string) : string :=
  match rho with
  | [] => x
  | (a, b) :: r => if String.eqb x a then b else ap r x
  end.

Definition inv (rho : renaming) : renaming := map (fun ab => (snd ab, fst ab)) rho.

Definition rmap {A B} (h : A -> B) (x : result A) : result B :=
  match x with Ok a => Ok (h a) | Err e => Err e end.

(* ------------------------------------------------------------------ *)
(** * Renaming the data of the model *)

Section Ren.
Variable f : string -> string.
Notation r := (R f).

Definition ren_term (t : term) : term := (fst t, map r (snd t)).
Definition ren_eqn (e : eqn) : eqn := mkEqn (r (blob e)) (map ren_term (terms e)).
Definition ren_var (ke : string * eqn) : string * eqn := (r (fst ke), ren_eqn (snd ke)).
Definition ren_vars (vs : list (string * eqn)) : list (string * eqn) := map ren_var vs.

Definition ren_sector (s : sector) : sector :=
  mkSector (sid s) (r (code s)) (r (country s)) (r (fullcode s)) (hasF s) (taxable s) (is_market s)
           (map r (excl s)) (ren_vars (vars s)).

Definition ren_zone (Z : zone) : zone := map ren_sector Z.

Definition ren_cls (k : cls) : cls :=
  match k with
  | CGov => CGov
  | CTreasury => CTreasury
  | CCentralBank t => CCentralBank t
  | CHousehold ai af good lab => CHousehold (r ai) (r af) (r good) (r lab)
  | CHouseholdExp ai af good lab => CHouseholdExp (r ai) (r af) (r good) (r lab)
  | CCapitalists ai af good => CCapitalists (r ai) (r af) (r good)
  | CBusiness mz wage margin lab out => CBusiness mz (r wage) (r margin) (r lab) (r out)
  | CBusinessMulti mz wage lab ms => CBusinessMulti mz (r wage) (r lab) ms
  | CTaxFlow rate paid_to => CTaxFlow (r rate) (r paid_to)
  | CMarket => CMarket
  | CMoneyMarket issuer => CMoneyMarket (r issuer)
  | CDepositMarket issuer => CDepositMarket (r issuer)
  end.

Definition ren_uop (o : uop) : uop :=
  match o with
  | OAddVariable s n t => OAddVariable s (r n) (r t)
  | OSetExogenous s n spec => OSetExogenous s (r n) (r spec)
  | ORegisterCashFlow a b v x y => ORegisterCashFlow a b (r v) x y
  | OAddSupplier m s t => OAddSupplier m s (option_map r t)
  | OAssetWeighting s ws res => OAssetWeighting s (map (fun cw => (r (fst cw), r (snd cw))) ws) (r res)
  | OAddInitialCondition s n v => OAddInitialCondition s (r n) v
  | OSetTreasury a b => OSetTreasury a b
  end.

Definition ren_step (x : step) : step :=
  match x with
  | StCountry c => StCountry (r c)
  | StSector ci c k => StSector ci (r c) (ren_cls k)
  | StOp o => StOp (ren_uop o)
  end.

Definition rename_program_f (p : program) : program := map ren_step p.

Definition ren_kind (k : kind) : kind :=
  match k with KDef t => KDef (r t) | KLag s => KLag (r s) | KExo t => KExo (r t) end.

Definition ren_row (x : row) : row := mkRow (r (r_lhs x)) (ren_kind (r_kind x)).

(** rows of one sector back into the order of their names *)
Fixpoint insert_row (x : row) (l : list row) : list row :=
  match l with
  | [] => [x]
  | y :: l' => if String.leb (r_lhs x) (r_lhs y) then x :: l else y :: insert_row x l'
  end.
Fixpoint sort_rows (l : list row) : list row :=
  match l with [] => [] | x :: l' => insert_row x (sort_rows l') end.

Definition ren_ic (nv : string * string) : string * string := (r (fst nv), snd nv).

Definition rename_system_f (E : final_system) : final_system :=
  mkFS (ren_zone (fs_zone E))
       (flat_map (fun s => sort_rows (map ren_row (sector_rows s))) (fs_zone E))
       (map ren_ic (fs_ic E)).

End Ren.

Definition rename_program (rho : renaming) : program -> program := rename_program_f (ap rho).
Definition rename_system (rho : renaming) : final_system -> final_system := rename_system_f (ap rho).
