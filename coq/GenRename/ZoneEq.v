(** The sector primitives of coq/Gen/Zone.v and the object-store helpers of GenMarket/Market.v
    commute with a renaming. *)
From Coq Require Import List String Ascii Bool ZArith Arith.
From SFC.Base Require Import Res Str.
From SFC.Gen Require Import Fx Zone.
From SFC.GenMarket Require Import Market.
From SFC.GenRename Require Import RStr RFix Ren.
Import ListNotations.
Local Open Scope string_scope.

Lemma rmap_bind {A B A' B'} (h : A -> A') (h2 : B -> B') (x : result A) (k : A -> result B) (k' : A' -> result B') :
  (forall a, k' (h a) = rmap h2 (k a)) -> bind (rmap h x) k' = rmap h2 (bind x k).
Proof. intros H. destruct x; simpl; [apply H|reflexivity]. Qed.

Section ZoneEq.
Variables f g : string -> string.
Hypothesis Hf : okmap f g.
Hypothesis Hnum : forall x, head_dig x = true -> f x = x.
Hypothesis Hres : forall x, mem x reserved = true -> f x = x.

Notation r := (R f).
Notation S := (ren_sector f).
Notation E := (ren_eqn f).
Notation T := (ren_term f).
Notation V := (ren_vars f).
Notation ZZ := (ren_zone f).

Lemma r_eqb a b : String.eqb (r a) (r b) = String.eqb a b.
Proof. apply (R_eqb f g Hf). Qed.

Lemma r_lit s : inert s = true -> r s = s.
Proof. apply (R_fix f g Hf Hnum Hres). Qed.

Lemma r_eqb_lit a s : inert s = true -> String.eqb (r a) s = String.eqb a s.
Proof. intros H. rewrite <- (r_lit s H) at 1. apply r_eqb. Qed.

Lemma r_eqb_lit_l a s : inert s = true -> String.eqb s (r a) = String.eqb s a.
Proof. intros H. rewrite <- (r_lit s H) at 1. apply r_eqb. Qed.

Lemma r_app_ends a b : ends_sep a = true -> r (a ++ b) = r a ++ r b.
Proof. apply (R_app_ends f g Hf). Qed.

Lemma r_app_r a b : starts_sep b = true -> r (a ++ b) = r a ++ r b.
Proof. apply (R_app_r f g Hf). Qed.

Lemma r_dunder s : has_substring "__" (r s) = has_substring "__" s.
Proof. apply (R_dunder f g Hf). Qed.

Lemma r_mem x l : mem (r x) (map r l) = mem x l.
Proof. apply (R_mem f g Hf). Qed.

(** name ++ "__" ++ local *)
Lemma r_full a n : r (a ++ "__" ++ n) = r a ++ "__" ++ r n.
Proof.
  rewrite r_app_r by reflexivity. rewrite (r_app_ends "__" n) by reflexivity.
  now rewrite (r_lit "__") by reflexivity.
Qed.

Lemma r_us a b : r (a ++ "_" ++ b) = r a ++ "_" ++ r b.
Proof.
  rewrite r_app_r by reflexivity. rewrite (r_app_ends "_" b) by reflexivity.
  now rewrite (r_lit "_") by reflexivity.
Qed.

(** literal prefix ending in a separator *)
Lemma r_pre p x : ends_sep p = true -> inert p = true -> r (p ++ x) = p ++ r x.
Proof. intros H1 H2. rewrite r_app_ends by exact H1. now rewrite r_lit. Qed.

(* ------------------------------------------------------------------ *)
(** * Association list *)

Lemma lookup_ren n vs : lookup_var (r n) (V vs) = option_map E (lookup_var n vs).
Proof.
  induction vs as [|[k e] vs IH]; simpl; [reflexivity|]. rewrite r_eqb. destruct (String.eqb n k); [reflexivity|exact IH].
Qed.

Lemma lookup_lit n vs : inert n = true -> lookup_var n (V vs) = option_map E (lookup_var n vs).
Proof. intros H. rewrite <- (r_lit n H) at 1. apply lookup_ren. Qed.

Lemma set_var_ren n e vs : set_var (r n) (E e) (V vs) = V (set_var n e vs).
Proof.
  induction vs as [|[k e'] vs IH]; simpl; [reflexivity|]. rewrite r_eqb.
  destruct (String.eqb n k); simpl; [reflexivity|]. now rewrite IH.
Qed.

Lemma has_var_ren s n : has_var (S s) (r n) = has_var s n.
Proof. unfold has_var. simpl. rewrite lookup_ren. now destruct (lookup_var n (vars s)). Qed.

Lemma has_var_lit s n : inert n = true -> has_var (S s) n = has_var s n.
Proof. intros H. rewrite <- (r_lit n H) at 1. apply has_var_ren. Qed.

Lemma with_vars_ren s vs : with_vars (S s) (V vs) = S (with_vars s vs).
Proof. reflexivity. Qed.

Lemma E_mk b ts : mkEqn (r b) (map T ts) = E (mkEqn b ts).
Proof. reflexivity. Qed.

Lemma add_variable_ren s n b : add_variable (S s) (r n) (r b) = S (add_variable s n b).
Proof.
  unfold add_variable. simpl vars. change (mkEqn (r b) []) with (E (mkEqn b [])).
  rewrite set_var_ren. reflexivity.
Qed.

Lemma add_variable_lit s n b : inert n = true -> inert b = true -> add_variable (S s) n b = S (add_variable s n b).
Proof. intros H1 H2. rewrite <- (r_lit n H1), <- (r_lit b H2) at 1. apply add_variable_ren. Qed.

Lemma add_variable_ren_e s n : add_variable (S s) (r n) "" = S (add_variable s n "").
Proof. rewrite <- (r_lit "" eq_refl) at 1. apply add_variable_ren. Qed.

Lemma set_rhs_ren s n b : set_rhs (S s) (r n) (r b) = option_map S (set_rhs s n b).
Proof.
  unfold set_rhs. simpl vars. rewrite lookup_ren. destruct (lookup_var n (vars s)); simpl; [|reflexivity].
  change (mkEqn (r b) []) with (E (mkEqn b [])). rewrite set_var_ren. reflexivity.
Qed.

Lemma set_rhs_lit s n b : inert n = true -> set_rhs (S s) n (r b) = option_map S (set_rhs s n b).
Proof. intros H. rewrite <- (r_lit n H) at 1. apply set_rhs_ren. Qed.

Lemma factors_eqb_ren a : forall b, factors_eqb (map r a) (map r b) = factors_eqb a b.
Proof.
  induction a as [|x a IH]; intros [|y b]; simpl; try reflexivity. now rewrite r_eqb, IH.
Qed.

Lemma add_term_ren t l : add_term (T t) (map T l) = map T (add_term t l).
Proof.
  induction l as [|[c fs] l IH]; simpl; [reflexivity|]. rewrite factors_eqb_ren.
  destruct (factors_eqb (snd t) fs); simpl; [reflexivity|]. now rewrite IH.
Qed.

Lemma add_term_to_eq_ren s n t : add_term_to_eq (S s) (r n) (T t) = option_map S (add_term_to_eq s n t).
Proof.
  unfold add_term_to_eq. simpl vars. rewrite lookup_ren. destruct (lookup_var n (vars s)) as [e|]; simpl; [|reflexivity].
  rewrite add_term_ren. change (mkEqn (r (blob e)) (map T (add_term t (terms e)))) with (E (mkEqn (blob e) (add_term t (terms e)))).
  rewrite set_var_ren. reflexivity.
Qed.

Lemma add_term_to_eq_lit s n t : inert n = true -> add_term_to_eq (S s) n (T t) = option_map S (add_term_to_eq s n t).
Proof. intros H. rewrite <- (r_lit n H) at 1. apply add_term_to_eq_ren. Qed.

Lemma r_nil_eqb b : String.eqb (r b) "" = String.eqb b "".
Proof. apply (r_eqb_lit b ""). reflexivity. Qed.

Lemma terms_zero_ren l : forallb (fun t => Z.eqb (fst t) 0) (map T l) = forallb (fun t => Z.eqb (fst t) 0) l.
Proof. induction l as [|t l IH]; simpl; [reflexivity|]. now rewrite IH. Qed.

Lemma renders_empty_ren e : renders_empty (E e) = renders_empty e.
Proof.
  unfold renders_empty. simpl. rewrite r_nil_eqb, (r_eqb_lit (blob e) "0.0") by reflexivity.
  now rewrite terms_zero_ren.
Qed.

Lemma concat_star_ren fs : r (String.concat "*" fs) = String.concat "*" (map r fs).
Proof.
  induction fs as [|x fs IH]; [apply (R_nil f g Hf)|].
  destruct fs as [|y fs]; [reflexivity|].
  change (String.concat "*" (x :: y :: fs)) with (x ++ String "*"%char (String.concat "*" (y :: fs))).
  rewrite (R_sep f x "*"%char _ eq_refl). rewrite IH. reflexivity.
Qed.

Lemma add_cash_flow_ren s t def inc :
  add_cash_flow (S s) (T t) (option_map r def) inc = option_map S (add_cash_flow s t def inc).
Proof.
  unfold add_cash_flow. rewrite add_term_to_eq_lit by reflexivity.
  destruct (add_term_to_eq s "F" t) as [s1|]; simpl; [|reflexivity].
  change (snd (T t)) with (map r (snd t)). rewrite <- concat_star_ren.
  change (excl (S s)) with (map r (excl s)). rewrite r_mem.
  set (income := inc && negb (mem (String.concat "*" (snd t)) (excl s))).
  assert (H2 : (if income then add_term_to_eq (S s1) "INC" (T t) else Some (S s1)) =
               option_map S (if income then add_term_to_eq s1 "INC" t else Some s1)).
  { destruct income; [apply add_term_to_eq_lit; reflexivity|reflexivity]. }
  rewrite H2. destruct (if income then add_term_to_eq s1 "INC" t else Some s1) as [s2|]; simpl; [|reflexivity].
  destruct def as [d|]; simpl; [|reflexivity].
  change (vars (S s2)) with (V (vars s2)). rewrite lookup_ren.
  destruct (lookup_var (String.concat "*" (snd t)) (vars s2)) as [e|]; simpl.
  - rewrite renders_empty_ren. destruct (renders_empty e); [apply set_rhs_ren|reflexivity].
  - now rewrite add_variable_ren.
Qed.

Lemma add_cash_flow_lit s t d inc : inert d = true ->
  add_cash_flow (S s) (T t) (Some d) inc = option_map S (add_cash_flow s t (Some d) inc).
Proof. intros H. rewrite <- (r_lit d H) at 1. apply (add_cash_flow_ren s t (Some d) inc). Qed.

Lemma add_cash_flow_some s t d inc :
  add_cash_flow (S s) (T t) (Some (r d)) inc = option_map S (add_cash_flow s t (Some d) inc).
Proof. apply (add_cash_flow_ren s t (Some d) inc). Qed.

Lemma add_cash_flow_none s t inc :
  add_cash_flow (S s) (T t) None inc = option_map S (add_cash_flow s t None inc).
Proof. apply (add_cash_flow_ren s t None inc). Qed.

(* ------------------------------------------------------------------ *)
(** * Object stores *)

Lemma find_sec_ren i Z : find_sec i (ZZ Z) = option_map S (find_sec i Z).
Proof.
  unfold find_sec. induction Z as [|s Z IH]; simpl; [reflexivity|].
  destruct (Nat.eqb (sid s) i); [reflexivity|exact IH].
Qed.

Lemma upd_ren i (fn fn' : sector -> result sector) Z :
  (forall s, fn' (S s) = rmap S (fn s)) -> upd i fn' (ZZ Z) = rmap ZZ (upd i fn Z).
Proof.
  intros H. induction Z as [|s Z IH]; simpl; [reflexivity|].
  destruct (Nat.eqb (sid s) i).
  - rewrite H. destruct (fn s); reflexivity.
  - rewrite IH. destruct (upd i fn Z); reflexivity.
Qed.

Lemma opt_key_ren {A B} (h : A -> B) (o : option A) : opt_key (option_map h o) = rmap h (opt_key o).
Proof. destruct o; reflexivity. Qed.

Lemma foldM_ren {A A' B B'} (ha : A -> A') (hb : B -> B') (fn : A -> B -> result A) (fn' : A' -> B' -> result A') l :
  (forall a b, fn' (ha a) (hb b) = rmap ha (fn a b)) ->
  forall a, foldM fn' (map hb l) (ha a) = rmap ha (foldM fn l a).
Proof.
  intros H. induction l as [|b l IH]; intros a; simpl; [reflexivity|].
  rewrite H. destruct (fn a b); simpl; [apply IH|reflexivity].
Qed.

Lemma filter_ren (p p' : sector -> bool) Z : (forall s, p' (S s) = p s) -> filter p' (ZZ Z) = ZZ (filter p Z).
Proof.
  intros H. induction Z as [|s Z IH]; simpl; [reflexivity|]. rewrite H. destruct (p s); simpl; now rewrite IH.
Qed.

Lemma existsb_ren (p p' : sector -> bool) Z : (forall s, p' (S s) = p s) -> existsb p' (ZZ Z) = existsb p Z.
Proof. intros H. induction Z as [|s Z IH]; simpl; [reflexivity|]. now rewrite H, IH. Qed.

Lemma find_ren (p p' : sector -> bool) Z : (forall s, p' (S s) = p s) -> find p' (ZZ Z) = option_map S (find p Z).
Proof. intros H. induction Z as [|s Z IH]; simpl; [reflexivity|]. rewrite H. destruct (p s); [reflexivity|exact IH]. Qed.

Lemma length_ren Z : List.length (ZZ Z) = List.length Z.
Proof. apply map_length. Qed.

End ZoneEq.
