(** The side condition in its final form: the classification of row texts is stable under ANY
    admissible renaming as soon as the word EXOGENOUS occurs in the emitted row texts only as a whole
    word ([exo_free], a condition on the output of the program alone). *)
From Coq Require Import List String Ascii Bool ZArith Arith.
From SFC.Base Require Import Res Str.
From SFC.Gen Require Import Fx Zone.
From SFC.GenMain2 Require Import Program Classes Main Program2 Main2.
From SFC.GenRename Require Import RStr RFix Ren ConsEq MainEq RowEq Equivariance Cons2Eq Main2Eq Equivariance2 Concrete ClassEq.
Import ListNotations.
Local Open Scope string_scope.

Definition exo_free (Z : zone) : bool :=
  forallb (fun s => forallb (fun ke => exo_clean (final_text s (snd ke))) (vars s)) Z.

(** side conditions with the classification part stated on the texts *)
Definition renaming_ok_s (f : string -> string) (p : program) : bool :=
  forallb (step_okb f) p &&
  match construct_all p with
  | Ok st => dep_okb f st && match final_zone st with Ok x => exo_free (fst x) | Err _ => true end
  | Err _ => true
  end.

Definition renaming_ok2_s (f : string -> string) (p : program2) : bool :=
  forallb (step2_okb f) p &&
  match construct_all2 p with
  | Ok st => zclean_b st && dep_okb2 f st && match final_zone2 st with Ok x => exo_free (fst x) | Err _ => true end
  | Err _ => true
  end.

Section Static.
Variable rho : renaming.
Hypothesis Hok : perm_ok rho = true.

Let f := ap rho.
Let g := ap (inv rho).

Lemma Hexo_ap x : all_an x = true -> exo_piece x = true ->
  exo_piece (f x) = true /\ String.eqb (f x) EXO = String.eqb x EXO.
Proof.
  intros _ Hx. destruct (ap_exo_cases rho Hok x) as [E|[H1 H2]]; [unfold f; now rewrite E|].
  unfold f. split.
  - unfold exo_piece. change EXO with "EXOGENOUS". now rewrite H2.
  - assert (N : forall y, has_substring "EXOGENOUS" y = false -> String.eqb y EXO = false).
    { intros y Hy. destruct (String.eqb_spec y EXO) as [->|]; [discriminate|reflexivity]. }
    now rewrite (N _ H1), (N _ H2).
Qed.

Lemma classify_ren_rho t : exo_clean t = true -> classify (R f t) = ren_kind f (classify t).
Proof.
  apply (classify_ren f g (ap_okmap rho Hok) (ap_okmap_inv rho Hok) (ap_num rho Hok) (ap_res rho Hok)
                      (ap_num (inv rho) (perm_ok_inv rho Hok)) (ap_res (inv rho) (perm_ok_inv rho Hok)) Hexo_ap).
Qed.

Lemma exo_free_stable Z : exo_free Z = true -> stable_b f Z = true.
Proof.
  unfold exo_free, stable_b. intros H. rewrite forallb_forall in *. intros s Hs. specialize (H s Hs).
  rewrite forallb_forall in *. intros ke Hke. specialize (H ke Hke).
  rewrite (classify_ren f g (ap_okmap rho Hok) (ap_okmap_inv rho Hok) (ap_num rho Hok) (ap_res rho Hok)
                        (ap_num (inv rho) (perm_ok_inv rho Hok)) (ap_res (inv rho) (perm_ok_inv rho Hok)) Hexo_ap _ H).
  destruct (classify (final_text s (snd ke))); simpl; apply String.eqb_refl.
Qed.

Lemma renaming_ok_s_f p : renaming_ok_s f p = true -> renaming_ok_f f p = true.
Proof.
  unfold renaming_ok_s, renaming_ok_f. intros H. apply andb_true_iff in H as [H1 H2]. rewrite H1. cbn [andb].
  destruct (construct_all p) as [st|]; [|reflexivity]. apply andb_true_iff in H2 as [H2 H3]. rewrite H2. cbn [andb].
  destruct (final_zone st) as [x|]; [|reflexivity]. now apply exo_free_stable.
Qed.

Lemma renaming_ok2_s_f p : renaming_ok2_s f p = true -> renaming_ok2_f f p = true.
Proof.
  unfold renaming_ok2_s, renaming_ok2_f. intros H. apply andb_true_iff in H as [H1 H2]. rewrite H1. cbn [andb].
  destruct (construct_all2 p) as [st|]; [|reflexivity]. apply andb_true_iff in H2 as [H2 H3]. rewrite H2. cbn [andb].
  destruct (final_zone2 st) as [x|]; [|reflexivity]. now apply exo_free_stable.
Qed.

End Static.
