(** The construction phase of the multi-currency model (Main2.run_step2: countries with their
    currency zones, the ExternalSector, RegisterCurrency, the gold-standard classes, AddMarket)
    commutes with a renaming.  Currency codes are renamed like every other code. *)
From Coq Require Import List String Ascii Bool ZArith Arith.
From SFC.Base Require Import Res Str.
From SFC.Gen Require Import Fx Zone.
From SFC.GenMarket Require Import Market.
From SFC.GenAsset Require Import Common Weighting.
From SFC.GenMain2 Require Import Program Classes Main Program2 Main2.
From SFC.GenRename Require Import RStr RFix Ren ZoneEq MarketEq TaxEq AssetEq ConsEq MainEq RowEq.
Import ListNotations.
Local Open Scope string_scope.

(** a text made of clean parts around a literal: Term() only drops the blanks of the literal *)
Lemma squeeze_join a m b : clean a = true -> a <> "" -> clean b = true -> b <> "" ->
  squeeze (a ++ m ++ b) = a ++ remove_char " "%char m ++ b.
Proof.
  intros Ha Han Hb Hbn. unfold squeeze, strip.
  assert (HR : rstrip (a ++ m ++ b) = a ++ m ++ b).
  { rewrite <- RStr.app_assoc. rewrite rstrip_app; rewrite (rstrip_clean _ Hb); [now rewrite RStr.app_assoc|exact Hbn]. }
  rewrite HR.
  assert (HL : lstrip (a ++ m ++ b) = a ++ m ++ b).
  { destruct a as [|c a]; [congruence|]. simpl in *. apply andb_true_iff in Ha as [Hc _]. apply negb_true_iff in Hc. now rewrite Hc. }
  rewrite HL, !remove_char_app. now rewrite (remove_blank_clean a Ha), (remove_blank_clean b Hb).
Qed.

Section Ren2.
Variable f : string -> string.
Notation r := (R f).

Definition ren_cls2 (k : cls2) : cls2 :=
  match k with
  | COld c => COld (ren_cls f c)
  | k => k
  end.

Definition ren_uop2 (o : uop2) : uop2 :=
  match o with UOld x => UOld (ren_uop f x) | UAddMarket s m => UAddMarket s m end.

Definition ren_step2 (x : step2) : step2 :=
  match x with
  | S2Country c cur rg => S2Country (r c) (option_map r cur) rg
  | S2External => S2External
  | S2Sector ci c k => S2Sector ci (r c) (ren_cls2 k)
  | S2Op o => S2Op (ren_uop2 o)
  end.

Definition rename_program2_f (p : program2) : program2 := map ren_step2 p.
End Ren2.

Definition rename_program2 (rho : renaming) : program2 -> program2 := rename_program2_f (ap rho).

Section Cons2Eq.
Variables f g : string -> string.
Hypothesis Hf : okmap f g.
Hypothesis Hnum : forall x, head_dig x = true -> f x = x.
Hypothesis Hres : forall x, mem x reserved = true -> f x = x.

Notation r := (R f).
Notation S := (ren_sector f).
Notation E := (ren_eqn f).
Notation T := (ren_term f).
Notation V := (ren_vars f).
Notation ZZ := (ren_zone f).

Let reqb := r_eqb f g Hf.
Let rlit := r_lit f g Hf Hnum Hres.
Let rpre := r_pre f g Hf Hnum Hres.
Let rfull := r_full f g Hf Hnum Hres.
Let rus := r_us f g Hf Hnum Hres.

Ltac sf := cbn [code country fullcode sid hasF taxable is_market excl vars ren_sector].
Ltac lit0 := first [ symmetry; apply rlit; reflexivity | apply rlit; reflexivity ].

(* ------------------------------------------------------------------ *)
(** * State *)

Definition ren_cc (x : string * string) : string * string := (r (fst x), r (snd x)).

Definition ren_kstate (st : kstate) : kstate :=
  mkK (map ren_cc (k_countries st)) (r (k_default st)) (k_ext st) (ZZ (k_secs st)) (map (ren_cls2 f) (k_classes st))
      (ren_sup f (k_sup st)) (map (ren_flow f) (k_flows st)) (map (ren_exo f) (k_exo st)) (map (ren_icd f) (k_ic st)).

(** conditions on the steps: those of the single-currency language, clean country and currency codes *)
Definition cls2_okb (k : cls2) : bool :=
  match k with
  | COld c => cls_okb f c
  | CGoldGov _ => fixes f gov_words
  | _ => true
  end.

Definition step2_okb (x : step2) : bool :=
  match x with
  | S2Country c cur _ => clean c && negb (String.eqb c "") && match cur with Some y => clean y && negb (String.eqb y "") | None => true end
  | S2External => true
  | S2Sector _ _ k => cls2_okb k
  | S2Op (UOld o) => uop_okb o
  | S2Op (UAddMarket _ _) => true
  end.

(** currencies on record are clean and non-empty *)
Definition cur_okb (c : string) : bool := clean c && negb (String.eqb c "").
Definition kinv (st : kstate) : Prop :=
  cur_okb (k_default st) = true /\ forallb (fun cc => cur_okb (snd cc)) (k_countries st) = true.

Lemma class_of2_ren cl i : class_of2 (map (ren_cls2 f) cl) i = ren_cls2 f (class_of2 cl i).
Proof. unfold class_of2. change (COld CGov) with (ren_cls2 f (COld CGov)) at 1. apply map_nth. Qed.

Lemma zones_of_ren cs : zones_of (map ren_cc cs) = map r (zones_of cs).
Proof.
  unfold zones_of. rewrite map_map. cbn [snd ren_cc]. rewrite <- (map_map snd r).
  apply nodup_map_inj. apply (R_inj f g Hf).
Qed.

Lemma currency_of_ren cs cc : currency_of (map ren_cc cs) (r cc) = r (currency_of cs cc).
Proof.
  induction cs as [|[c cur] cs IH]; simpl; [symmetry; apply (R_nil f g Hf)|]. rewrite reqb.
  destruct (String.eqb c cc); [reflexivity|exact IH].
Qed.

Lemma in_zone_ren cs cur s : in_zone (map ren_cc cs) (r cur) (S s) = in_zone cs cur s.
Proof. unfold in_zone. sf. now rewrite currency_of_ren, reqb. Qed.

(* ------------------------------------------------------------------ *)
(** * RegisterCurrency, countries *)

Lemma register_currency_ren e cur SL : cur_okb cur = true ->
  register_currency e (r cur) (ZZ SL) = rmap ZZ (register_currency e cur SL).
Proof.
  intros Hc. unfold cur_okb in Hc. apply andb_true_iff in Hc as [Hc Hn]. apply negb_true_iff in Hn. apply String.eqb_neq in Hn.
  assert (Hc' : clean (r cur) = true) by (now rewrite (clean_R f g Hf)).
  assert (Hn' : r cur <> "") by (intros H; apply (proj1 (R_nil_iff f g Hf _)) in H; contradiction).
  unfold register_currency.
  rewrite (on_sector_ren f (e_xr e) (fun s => addv s cur "1.0")).
  2:{ intros s. apply (addv_gen f g Hf); [reflexivity|lit0]. }
  destruct (on_sector (e_xr e) _ SL) as [S1|]; cbn [rmap bind]; [|reflexivity].
  apply (on_sector_ren f). intros s. apply (addvs_gen f g Hf).
  repeat constructor; cbn [fst snd].
  - now rewrite rpre.
  - lit0.
  - now rewrite rpre.
  - assert (Q : forall c, clean c = true -> c <> "" -> squeeze ("LAG_F_" ++ c ++ " + NET_" ++ c) = "LAG_F_" ++ c ++ "+NET_" ++ c).
    { intros c H1 H2. replace ("LAG_F_" ++ c ++ " + NET_" ++ c) with (("LAG_F_" ++ c) ++ " + NET_" ++ c) by (now rewrite !RStr.app_assoc).
      rewrite squeeze_join; [now rewrite !RStr.app_assoc| |discriminate|exact H1|exact H2].
      change ("LAG_F_" ++ c) with (String "L" (String "A" (String "G" (String "_" (String "F" (String "_" c)))))). simpl. exact H1. }
    rewrite !Q by assumption. rewrite rpre by reflexivity. rewrite (r_app_r f g Hf) by reflexivity. now rewrite (rpre "+NET_") by reflexivity.
  - now rewrite rpre.
  - assert (Q : forall c, clean c = true -> c <> "" -> squeeze ("F_" ++ c ++ "(k-1)") = "F_" ++ c ++ "(k-1)").
    { intros c H1 H2. replace ("F_" ++ c ++ "(k-1)") with (("F_" ++ c) ++ "" ++ "(k-1)") by reflexivity.
      rewrite squeeze_join; [reflexivity| |discriminate|reflexivity|discriminate]. simpl. exact H1. }
    rewrite !Q by assumption. rewrite rpre by reflexivity. rewrite (r_app_r f g Hf) by reflexivity. now rewrite (rlit "(k-1)") by reflexivity.
Qed.

Lemma register_all_ren e curs : forallb cur_okb curs = true -> forall SL,
  register_all e (map r curs) (ZZ SL) = rmap ZZ (register_all e curs SL).
Proof.
  induction curs as [|c curs IH]; intros Hc SL; simpl; [reflexivity|].
  simpl in Hc. apply andb_true_iff in Hc as [H1 H2]. rewrite register_currency_ren by exact H1.
  destruct (register_currency e c SL); simpl; [now apply IH|reflexivity].
Qed.

Lemma add_country_ren st code cur : cur_okb cur = true ->
  add_country (ren_kstate st) (r code) (r cur) = rmap ren_kstate (add_country st code cur).
Proof.
  intros Hc. unfold add_country. cbn [k_countries k_ext k_secs ren_kstate].
  rewrite !map_map. cbn [fst snd ren_cc]. rewrite <- (map_map fst r), <- (map_map snd r), !(r_mem f g Hf).
  destruct (mem code (map fst (k_countries st))); [reflexivity|].
  assert (Fin : forall SL, mkK (map ren_cc (k_countries st) ++ [(r code, r cur)])%list (r cur) (k_ext st) (ZZ SL)
                             (map (ren_cls2 f) (k_classes st)) (ren_sup f (k_sup st)) (map (ren_flow f) (k_flows st))
                             (map (ren_exo f) (k_exo st)) (map (ren_icd f) (k_ic st)) =
                         ren_kstate (mkK (k_countries st ++ [(code, cur)])%list cur (k_ext st) SL (k_classes st) (k_sup st)
                                         (k_flows st) (k_exo st) (k_ic st))).
  { intros SL. unfold ren_kstate. cbn. now rewrite map_app. }
  destruct (k_ext st) as [e|]; [|cbn [bind rmap]; now rewrite Fin].
  destruct (negb (mem cur (map snd (k_countries st)))); [|cbn [bind rmap]; now rewrite Fin].
  rewrite register_currency_ren by exact Hc.
  destruct (register_currency e cur (k_secs st)); cbn [bind rmap]; [now rewrite Fin|reflexivity].
Qed.

Lemma add_country_kinv st code cur st' : cur_okb cur = true -> kinv st -> add_country st code cur = Ok st' -> kinv st'.
Proof.
  intros Hc [K1 K2]. unfold add_country. destruct (mem code _); [discriminate|].
  destruct (match k_ext st with Some _ => _ | None => _ end); [|discriminate]. cbn [bind]. intros H. injection H as <-.
  split; cbn; [exact Hc|]. rewrite forallb_app, K2. cbn. now rewrite Hc.
Qed.

(* ------------------------------------------------------------------ *)
(** * Sectors *)

Lemma old_class_ren k : old_class (ren_cls2 f k) = ren_cls f (old_class k).
Proof. destruct k; try reflexivity; unfold old_class, ren_cls2, ren_cls; now rewrite (rlit "") by reflexivity. Qed.

Lemma construct2_ren i cc c k mrefs : cls2_okb k = true ->
  construct2 i (r cc) (r c) (ren_cls2 f k) (map (ren_mref f) mrefs) = rmap S (construct2 i cc c k mrefs).
Proof.
  intros Hk. unfold construct2.
  destruct k as [k0|stock|t stock| | |]; cbn [ren_cls2];
    try (cbn [rmap]; f_equal; apply (base_sector_nil f g Hf Hnum Hres)).
  - now apply (construct_ren f g Hf Hnum Hres).
  - apply (construct_ren f g Hf Hnum Hres i cc c CGov mrefs). exact Hk.
  - apply (construct_ren f g Hf Hnum Hres i cc c (CCentralBank t) mrefs). reflexivity.
Qed.

Lemma market_refs2_ren k : market_refs2 (ren_cls2 f k) = market_refs2 k.
Proof. destruct k as [k0| | | | |]; try reflexivity. apply (market_refs_ren f). Qed.

Lemma has_add_supplier2_ren k : has_add_supplier2 (ren_cls2 f k) = has_add_supplier2 k.
Proof. destruct k as [k0| | | | |]; try reflexivity. apply (has_add_supplier_ren f). Qed.

Lemma nth_error_cc cs ci : nth_error (map ren_cc cs) ci = option_map ren_cc (nth_error cs ci).
Proof. apply nth_error_map. Qed.

Lemma add_sector_ren st ci c k : cls2_okb k = true ->
  add_sector (ren_kstate st) ci (r c) (ren_cls2 f k) = rmap ren_kstate (add_sector st ci c k).
Proof.
  intros Hk. unfold add_sector. cbn [k_countries k_secs ren_kstate]. rewrite nth_error_cc.
  destruct (nth_error (k_countries st) ci) as [[cc cur]|]; cbn [option_map ren_cc fst snd]; [|reflexivity].
  rewrite (existsb_ren f (fun s => in_country cc s && String.eqb (code s) c)).
  2:{ intros s. rewrite (in_country_ren f g Hf). sf. now rewrite reqb. }
  destruct (existsb _ (k_secs st)); [reflexivity|].
  rewrite market_refs2_ren, (resolve_markets_ren f).
  destruct (resolve_markets (k_secs st) (market_refs2 k)) as [mrefs|]; cbn [rmap bind]; [|reflexivity].
  rewrite (length_ren f). rewrite construct2_ren by exact Hk.
  destruct (construct2 _ cc c k mrefs) as [s|]; cbn [rmap bind]; [|reflexivity].
  unfold ren_kstate. cbn. unfold ren_zone. now rewrite !map_app.
Qed.

Lemma add_sector_kinv st ci c k st' : kinv st -> add_sector st ci c k = Ok st' -> kinv st'.
Proof.
  intros K. unfold add_sector. destruct (nth_error _ ci) as [[cc cur]|]; [|discriminate].
  destruct (existsb _ _); [discriminate|]. destruct (resolve_markets _ _); [|discriminate]. cbn [bind].
  destruct (construct2 _ _ _ _ _); [|discriminate]. cbn [bind]. intros H. injection H as <-. exact K.
Qed.

(* ------------------------------------------------------------------ *)
(** * User operations *)

Lemma squeeze_r2 t : clean t = true -> squeeze (r t) = r (squeeze t).
Proof. apply (squeeze_ren f g Hf). Qed.

Lemma run_op2_ren st o : match o with UOld x => uop_okb x | _ => true end = true ->
  run_op2 (ren_kstate st) (ren_uop2 f o) = rmap ren_kstate (run_op2 st o).
Proof.
  intros Ho. destruct o as [o|s m].
  - destruct o as [s n t|s n spec|src tgt var a b|m sup text|s ws res|s n value|cb tre]; cbn [run_op2 ren_uop2 ren_uop]; simpl in Ho.
    + cbn [k_secs ren_kstate]. rewrite (on_sector_ren f s (fun x => addv x n t)).
      2:{ intros x. apply (addv_gen f g Hf); [reflexivity|now apply squeeze_r2]. }
      destruct (on_sector s _ (k_secs st)); reflexivity.
    + cbn [k_secs ren_kstate]. rewrite (find_sec_ren f). destruct (find_sec s (k_secs st)); cbn [option_map]; [|reflexivity].
      unfold ren_kstate. cbn. now rewrite map_app.
    + cbn [k_secs ren_kstate]. rewrite !(find_sec_ren f).
      destruct (find_sec src (k_secs st)); cbn [option_map]; [|reflexivity]. destruct (find_sec tgt (k_secs st)); cbn [option_map]; [|reflexivity].
      unfold ren_kstate, with_flows. cbn. now rewrite map_app.
    + cbn [k_secs k_classes k_sup ren_kstate]. rewrite !(find_sec_ren f).
      destruct (find_sec m (k_secs st)); cbn [option_map]; [|reflexivity]. destruct (find_sec sup (k_secs st)); cbn [option_map]; [|reflexivity].
      rewrite class_of2_ren, has_add_supplier2_ren. destruct (has_add_supplier2 (class_of2 (k_classes st) m)); [|reflexivity].
      rewrite (sup_of_ren f). destruct (sup_of m (k_sup st)) as [res others] eqn:Es. unfold ren_supinfo at 1. cbn [fst snd].
      unfold ren_kstate. simpl. f_equal. f_equal.
      destruct text as [t|]; simpl.
      * rewrite (r_nil_eqb f g Hf Hnum Hres). destruct (String.eqb t "").
        -- now rewrite <- (sup_set_ren f).
        -- rewrite <- (sup_set_ren f). unfold ren_supinfo, ren_others. cbn [fst snd]. rewrite map_app. simpl.
           now rewrite squeeze_r2.
      * now rewrite <- (sup_set_ren f).
    + cbn [k_secs ren_kstate]. rewrite (on_sector_ren f s (fun x => asset_weighting x ws res false)).
      2:{ intros x. now apply (asset_weighting_ren f g Hf Hnum Hres). }
      destruct (on_sector s _ (k_secs st)); reflexivity.
    + cbn [k_secs ren_kstate]. rewrite (find_sec_ren f). destruct (find_sec s (k_secs st)); cbn [option_map]; [|reflexivity].
      unfold ren_kstate. cbn. now rewrite map_app.
    + cbn [k_secs k_classes ren_kstate]. rewrite !(find_sec_ren f).
      destruct (find_sec cb (k_secs st)); cbn [option_map]; [|reflexivity]. destruct (find_sec tre (k_secs st)); cbn [option_map]; [|reflexivity].
      unfold ren_kstate. cbn. f_equal. f_equal. rewrite class_of2_ren, <- (set_nth_map (ren_cls2 f)). f_equal.
      destruct (class_of2 (k_classes st) cb) as [k0| | | | |]; try reflexivity. destruct k0; reflexivity.
  - cbn [run_op2 ren_uop2 k_secs ren_kstate]. rewrite (find_sec_ren f).
    destruct (find_sec m (k_secs st)) as [mk|]; cbn [option_map]; [|reflexivity].
    rewrite (on_sector_ren f s (fun x => add_market x (code mk, country mk))).
    2:{ intros x. sf. apply (add_market_ren f g Hf Hnum Hres x (code mk, country mk)). }
    destruct (on_sector s _ (k_secs st)); reflexivity.
Qed.

Lemma run_op2_kinv st o st' : kinv st -> run_op2 st o = Ok st' -> kinv st'.
Proof.
  intros K. destruct o as [o|s m]; [destruct o|]; cbn [run_op2]; intros H;
    repeat match type of H with
           | bind ?x _ = _ => destruct x; cbn [bind] in H; [|discriminate]
           | match ?x with _ => _ end = _ => destruct x; try discriminate
           | (let '(_, _) := ?x in _) = _ => destruct x
           end; try (injection H as <-; exact K).
Qed.

(* ------------------------------------------------------------------ *)
(** * Steps *)

Lemma ren_kstate_fields st : k_countries (ren_kstate st) = map ren_cc (k_countries st) /\ k_secs (ren_kstate st) = ZZ (k_secs st).
Proof. split; reflexivity. Qed.

Theorem run_step2_ren st x : kinv st -> step2_okb x = true ->
  run_step2 (ren_kstate st) (ren_step2 f x) = rmap ren_kstate (run_step2 st x).
Proof.
  intros K Hx. destruct x as [c cur rg| |ci c k|o]; cbn [run_step2 ren_step2].
  - cbn [step2_okb] in Hx. apply andb_true_iff in Hx as [Hx Hcur].
    set (cur' := match cur with Some x => x | None => if rg then k_default st else c end).
    assert (E1 : match option_map r cur with Some x => x | None => if rg then k_default (ren_kstate st) else r c end = r cur').
    { unfold cur'. destruct cur; [reflexivity|]. destruct rg; reflexivity. }
    rewrite E1. apply add_country_ren. unfold cur'. destruct cur as [y|]; [exact Hcur|].
    destruct rg; [apply K|exact Hx].
  - cbn [k_ext ren_kstate]. destruct (k_ext st); [reflexivity|].
    rewrite <- (rlit "EXT" eq_refl), <- (rlit "NUMERAIRE" eq_refl) at 1. rewrite add_country_ren by reflexivity.
    destruct (add_country st "EXT" "NUMERAIRE") as [st1|] eqn:E1; cbn [rmap bind]; [|reflexivity].
    cbn [k_countries k_secs ren_kstate]. rewrite map_length, (length_ren f).
    rewrite <- (rlit "XR" eq_refl) at 1. change CXR with (ren_cls2 f CXR) at 1. rewrite add_sector_ren by reflexivity.
    destruct (add_sector st1 _ "XR" CXR) as [st2|] eqn:E2; cbn [rmap bind]; [|reflexivity].
    rewrite <- (rlit "FX" eq_refl) at 1. change CFX with (ren_cls2 f CFX) at 1. rewrite add_sector_ren by reflexivity.
    destruct (add_sector st2 _ "FX" CFX) as [st3|] eqn:E3; cbn [rmap bind]; [|reflexivity].
    rewrite <- (rlit "GOLD" eq_refl) at 1. change CGOLD with (ren_cls2 f CGOLD) at 1. rewrite add_sector_ren by reflexivity.
    destruct (add_sector st3 _ "GOLD" CGOLD) as [st4|] eqn:E4; cbn [rmap bind]; [|reflexivity].
    cbn [k_countries k_secs ren_kstate]. rewrite zones_of_ren.
    assert (K4 : kinv st4).
    { eapply add_sector_kinv; [|exact E4]. eapply add_sector_kinv; [|exact E3]. eapply add_sector_kinv; [|exact E2].
      eapply add_country_kinv; [|exact K|exact E1]. reflexivity. }
    rewrite register_all_ren.
    2:{ destruct K4 as [_ K4]. rewrite forallb_forall in *. intros cu Hin. unfold zones_of in Hin. apply nodup_In in Hin.
        apply in_map_iff in Hin as (cc & <- & Hin). now apply K4. }
    destruct (register_all _ _ (k_secs st4)); reflexivity.
  - now apply add_sector_ren.
  - apply run_op2_ren. destruct o; exact Hx.
Qed.

Lemma run_step2_kinv st x st' : kinv st -> step2_okb x = true -> run_step2 st x = Ok st' -> kinv st'.
Proof.
  intros K Hx. destruct x as [c cur rg| |ci c k|o]; cbn [run_step2].
  - cbn [step2_okb] in Hx. apply andb_true_iff in Hx as [Hx Hcur]. apply add_country_kinv; [|exact K].
    destruct cur as [y|]; [exact Hcur|]. destruct rg; [apply K|exact Hx].
  - destruct (k_ext st); [discriminate|].
    destruct (add_country st "EXT" "NUMERAIRE") as [st1|] eqn:E1; cbn [bind]; [|discriminate].
    destruct (add_sector st1 _ "XR" CXR) as [st2|] eqn:E2; cbn [bind]; [|discriminate].
    destruct (add_sector st2 _ "FX" CFX) as [st3|] eqn:E3; cbn [bind]; [|discriminate].
    destruct (add_sector st3 _ "GOLD" CGOLD) as [st4|] eqn:E4; cbn [bind]; [|discriminate].
    destruct (register_all _ _ _); cbn [bind]; [|discriminate]. intros H. injection H as <-.
    assert (K4 : kinv st4).
    { eapply add_sector_kinv; [|exact E4]. eapply add_sector_kinv; [|exact E3]. eapply add_sector_kinv; [|exact E2].
      eapply add_country_kinv; [|exact K|exact E1]. reflexivity. }
    exact K4.
  - now apply add_sector_kinv.
  - now apply run_op2_kinv.
Qed.

Lemma kinv_init : kinv k_init.
Proof. split; reflexivity. Qed.

Lemma ren_k_init : ren_kstate k_init = k_init.
Proof. unfold ren_kstate. change (k_default k_init) with "LOCAL". rewrite (rlit "LOCAL") by reflexivity. reflexivity. Qed.

Lemma foldM_steps2 p : forallb step2_okb p = true -> forall st, kinv st ->
  foldM run_step2 (map (ren_step2 f) p) (ren_kstate st) = rmap ren_kstate (foldM run_step2 p st) /\
  (forall st', foldM run_step2 p st = Ok st' -> kinv st').
Proof.
  induction p as [|x p IH]; intros Hp st K; cbn [map foldM forallb] in *.
  - split; [reflexivity|]. intros st' H. now injection H as <-.
  - apply andb_true_iff in Hp as [H1 H2]. rewrite run_step2_ren by assumption.
    destruct (run_step2 st x) as [st1|] eqn:E1; cbn [rmap]; [|split; [reflexivity|discriminate]].
    apply IH; [exact H2|]. eapply run_step2_kinv; eauto.
Qed.

Theorem construct_all2_ren p : forallb step2_okb p = true ->
  construct_all2 (rename_program2_f f p) = rmap ren_kstate (construct_all2 p) /\
  (forall st, construct_all2 p = Ok st -> kinv st).
Proof.
  intros Hp. unfold construct_all2, rename_program2_f. rewrite <- ren_k_init at 1. apply (foldM_steps2 p Hp k_init kinv_init).
Qed.

End Cons2Eq.
