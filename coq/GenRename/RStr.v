(** The action of a renaming of codes on strings.

    A *piece* is a maximal run of letters and digits.  A renaming is a map [f] on pieces; it acts on
    an arbitrary string (a variable name, a full name, an expression text) by replacing every
    piece [x] by [f x] and copying every other character ('_', operators, brackets, blanks, dots):
    [R f].  On an identifier this is the piecewise renaming harness/c18.py performs
    ('_'.join(map.get(p, p) for p in name.split('_'))); on an expression text it renames every
    identifier in it.

    This file is the string theory of [R f] for a map [f] that has an inverse [g], sends "" to ""
    and alphanumeric strings to alphanumeric strings: [R f] is a bijection on ALL strings with
    inverse [R g], it is a homomorphism for concatenation at every non-alphanumeric boundary, and
    it preserves the occurrences of "__". *)
From Coq Require Import List String Ascii Bool Arith Lia.
From SFC.Base Require Import Str.
Import ListNotations.
Local Open Scope string_scope.

Definition is_dig (c : ascii) : bool := let n := nat_of_ascii c in Nat.leb 48 n && Nat.leb n 57.
Definition is_let (c : ascii) : bool :=
  let n := nat_of_ascii c in (Nat.leb 65 n && Nat.leb n 90) || (Nat.leb 97 n && Nat.leb n 122).
Definition is_an (c : ascii) : bool := is_let c || is_dig c.

Fixpoint all_an (s : string) : bool :=
  match s with EmptyString => true | String c r => is_an c && all_an r end.

Definition snoc (s : string) (c : ascii) : string := s ++ String c "".

Section Scan.
Variable f : string -> string.

(** [acc] = the piece read so far *)
Fixpoint rs (acc s : string) : string :=
  match s with
  | EmptyString => f acc
  | String c r => if is_an c then rs (snoc acc c) r else f acc ++ String c (rs "" r)
  end.

Definition R (s : string) : string := rs "" s.
End Scan.

(* ------------------------------------------------------------------ *)
(** * Strings *)

Lemma app_nil_r (a : string) : a ++ "" = a.
Proof. induction a as [|x a IH]; simpl; [reflexivity|now rewrite IH]. Qed.

Lemma app_assoc (a b c : string) : (a ++ b) ++ c = a ++ (b ++ c).
Proof. induction a as [|x a IH]; simpl; [reflexivity|now rewrite IH]. Qed.

Lemma snoc_app a c b : snoc a c ++ b = a ++ String c b.
Proof. unfold snoc. now rewrite app_assoc. Qed.

Lemma all_an_app a b : all_an (a ++ b) = all_an a && all_an b.
Proof. induction a as [|x a IH]; simpl; [reflexivity|]. rewrite IH. now rewrite andb_assoc. Qed.

Lemma app_inv_head (a b c : string) : a ++ b = a ++ c -> b = c.
Proof. induction a as [|x a IH]; simpl; intros H; [exact H|]. inversion H. auto. Qed.

Lemma app_eq_nil (a b : string) : a ++ b = "" -> a = "" /\ b = "".
Proof. destruct a; simpl; [auto|discriminate]. Qed.

(* ------------------------------------------------------------------ *)
(** * The renaming maps considered *)

Record okmap (f g : string -> string) : Prop := mkOk {
  ok_nil : f "" = "";
  ok_an : forall x, all_an x = true -> all_an (f x) = true;
  ok_gf : forall x, g (f x) = x
}.

Section Theory.
Variables f g : string -> string.
Hypothesis Hf : okmap f g.
Hypothesis Hg : okmap g f.

Lemma f_nil : f "" = "". Proof. apply (ok_nil _ _ Hf). Qed.
Lemma f_inj x y : f x = f y -> x = y.
Proof. intros H. rewrite <- (ok_gf _ _ Hf x), <- (ok_gf _ _ Hf y). now rewrite H. Qed.
Lemma f_nil_iff x : f x = "" <-> x = "".
Proof. split; [intros H; apply f_inj; now rewrite f_nil|intros ->; apply f_nil]. Qed.

Lemma rs_an a : forall acc b, all_an a = true -> rs f acc (a ++ b) = rs f (acc ++ a) b.
Proof.
  induction a as [|c a IH]; intros acc b H; simpl in *.
  - now rewrite app_nil_r.
  - apply andb_true_iff in H as [H1 H2]. rewrite H1. rewrite IH by exact H2. unfold snoc. now rewrite app_assoc.
Qed.

Lemma rs_sep a : forall acc c b, is_an c = false -> rs f acc (a ++ String c b) = rs f acc a ++ String c (R f b).
Proof.
  induction a as [|x a IH]; intros acc c b H; simpl.
  - now rewrite H.
  - destruct (is_an x); [now apply IH|]. rewrite IH by exact H. unfold R. now rewrite app_assoc.
Qed.

Lemma R_nil : R f "" = "". Proof. apply f_nil. Qed.

Lemma R_an a : all_an a = true -> R f a = f a.
Proof. intros H. unfold R. rewrite <- (app_nil_r a) at 1. rewrite rs_an by exact H. reflexivity. Qed.

Lemma R_sep a c b : is_an c = false -> R f (a ++ String c b) = R f a ++ String c (R f b).
Proof. apply rs_sep. Qed.

Lemma R_cons c b : is_an c = false -> R f (String c b) = String c (R f b).
Proof. intros H. unfold R. simpl. rewrite H, f_nil. reflexivity. Qed.

(** concatenation at a boundary: the right part starts with a separator (or is empty) *)
Definition starts_sep (b : string) : bool :=
  match b with EmptyString => true | String c _ => negb (is_an c) end.

Lemma R_app_r a b : starts_sep b = true -> R f (a ++ b) = R f a ++ R f b.
Proof.
  destruct b as [|c b]; simpl; intros H.
  - now rewrite R_nil, !app_nil_r.
  - apply negb_true_iff in H. rewrite R_sep by exact H. now rewrite (R_cons c b H).
Qed.

(** ... or the left part ends with one *)
Lemma R_app_l a c b : is_an c = false -> R f ((a ++ String c "") ++ b) = R f (a ++ String c "") ++ R f b.
Proof.
  intros H. rewrite app_assoc. simpl. rewrite !R_sep by exact H. rewrite R_nil. now rewrite app_assoc.
Qed.

Lemma rs_acc_an acc s : all_an acc = true -> exists x r, all_an x = true /\ rs f acc s = f (acc ++ x) ++ r /\
  (r = "" \/ exists c r', r = String c r' /\ is_an c = false).
Proof.
  revert acc. induction s as [|c s IH]; intros acc Ha; simpl.
  - exists "", "". rewrite !app_nil_r. auto.
  - destruct (is_an c) eqn:Hc.
    + destruct (IH (snoc acc c)) as (x & r & Hx & Hr & Hs).
      { unfold snoc. rewrite all_an_app, Ha. simpl. now rewrite Hc. }
      exists (String c x), r. simpl. rewrite Hc, Hx. split; [reflexivity|]. split; [|exact Hs].
      rewrite Hr. unfold snoc. now rewrite app_assoc.
    + exists "", (String c (rs f "" s)). rewrite app_nil_r. split; [reflexivity|]. split; [reflexivity|].
      right. eauto.
Qed.

End Theory.

(* ------------------------------------------------------------------ *)
(** * Inverse *)

Section Inverse.
Variables f g : string -> string.
Hypothesis Hf : okmap f g.
Hypothesis Hg : okmap g f.

Lemma R_inv_acc s : forall acc, all_an acc = true -> R g (rs f acc s) = acc ++ s.
Proof.
  induction s as [|c s IH]; intros acc Ha; simpl.
  - rewrite app_nil_r. rewrite (R_an g) by (apply (ok_an _ _ Hf); exact Ha). apply (ok_gf _ _ Hf).
  - destruct (is_an c) eqn:Hc.
    + rewrite IH. { unfold snoc. now rewrite app_assoc. }
      unfold snoc. rewrite all_an_app, Ha. simpl. now rewrite Hc.
    + rewrite (R_sep g) by exact Hc.
      rewrite (R_an g) by (apply (ok_an _ _ Hf); exact Ha). rewrite (ok_gf _ _ Hf).
      change (rs f "" s) with (rs f "" s). rewrite (IH "" eq_refl). reflexivity.
Qed.

Lemma R_inv s : R g (R f s) = s.
Proof. unfold R at 2. now rewrite R_inv_acc. Qed.

Lemma R_inj s t : R f s = R f t -> s = t.
Proof. intros H. rewrite <- (R_inv s), <- (R_inv t). now rewrite H. Qed.

Lemma R_eqb s t : String.eqb (R f s) (R f t) = String.eqb s t.
Proof.
  destruct (String.eqb_spec s t) as [->|Hn]; [apply String.eqb_refl|].
  apply String.eqb_neq. intros H. apply Hn. now apply R_inj.
Qed.

Lemma R_nil_iff s : R f s = "" <-> s = "".
Proof. split; [intros H; apply R_inj; now rewrite (R_nil f g Hf)|intros ->; apply (R_nil f g Hf)]. Qed.

Lemma R_mem x l : mem (R f x) (map (R f) l) = mem x l.
Proof. induction l as [|y l IH]; simpl; [reflexivity|]. now rewrite R_eqb, IH. Qed.

(* ------------------------------------------------------------------ *)
(** * First character and "__" *)

Definition head_is (c : ascii) (s : string) : bool :=
  match s with EmptyString => false | String d _ => Ascii.eqb d c end.

Lemma head_app_an x r c : all_an x = true -> x <> "" -> is_an c = false -> head_is c (x ++ r) = false.
Proof.
  destruct x as [|d x]; [congruence|]. simpl. intros H _ Hc. apply andb_true_iff in H as [H _].
  destruct (Ascii.eqb_spec d c) as [->|]; [congruence|reflexivity].
Qed.

Lemma head_R c s : is_an c = false -> head_is c (R f s) = head_is c s.
Proof.
  intros Hc. destruct s as [|d s]; [now rewrite (R_nil f g Hf)|].
  destruct (is_an d) eqn:Hd.
  - unfold R. simpl. rewrite Hd.
    destruct (rs_acc_an f (snoc "" d) s) as (x & r & Hx & Hr & _); [simpl; now rewrite Hd|].
    rewrite Hr. rewrite head_app_an; [| | |exact Hc].
    + simpl. destruct (Ascii.eqb_spec d c) as [->|]; [congruence|reflexivity].
    + apply (ok_an _ _ Hf). simpl. rewrite Hd. exact Hx.
    + intros H. apply (proj1 (f_nil_iff f g Hf _)) in H. unfold snoc in H. simpl in H. discriminate.
  - rewrite (R_cons f g Hf) by exact Hd. reflexivity.
Qed.

(** occurrences of a two-character pattern made of one separator *)
Definition dd (c : ascii) : string := String c (String c "").

Lemma prefix_dd c s : String.prefix (dd c) s = head_is c s && match s with String _ r => head_is c r | _ => false end.
Proof.
  unfold dd. destruct s as [|a s]; simpl; [reflexivity|].
  destruct (ascii_dec c a) as [->|Hn].
  - rewrite Ascii.eqb_refl. simpl. destruct s as [|b s]; simpl; [reflexivity|].
    destruct (ascii_dec a b) as [->|Hn]; [rewrite Ascii.eqb_refl; now destruct s|].
    destruct (Ascii.eqb_spec b a); [congruence|reflexivity].
  - destruct (Ascii.eqb_spec a c); [congruence|reflexivity].
Qed.

Lemma hs_an_app c x r : is_an c = false -> all_an x = true -> has_substring (dd c) (x ++ r) = has_substring (dd c) r.
Proof.
  intros Hc. induction x as [|d x IH]; intros Hx; [reflexivity|].
  simpl in Hx. apply andb_true_iff in Hx as [Hd Hx].
  change (String d x ++ r) with (String d (x ++ r)).
  cbn [has_substring]. rewrite prefix_dd. simpl.
  destruct (Ascii.eqb_spec d c) as [->|]; [congruence|]. simpl. now apply IH.
Qed.

Lemma hs_rs c s : is_an c = false -> forall acc, all_an acc = true ->
  has_substring (dd c) (rs f acc s) = has_substring (dd c) (acc ++ s).
Proof.
  intros Hc. induction s as [|d s IH]; intros acc Ha; simpl.
  - rewrite app_nil_r.
    assert (E : forall x, all_an x = true -> has_substring (dd c) x = has_substring (dd c) "").
    { intros x Hx. rewrite <- (app_nil_r x). now apply hs_an_app. }
    rewrite (E (f acc)), (E acc); auto. apply (ok_an _ _ Hf). exact Ha.
  - destruct (is_an d) eqn:Hd.
    + rewrite IH. { unfold snoc. now rewrite app_assoc. }
      unfold snoc. rewrite all_an_app, Ha. simpl. now rewrite Hd.
    + rewrite !hs_an_app; auto; [|apply (ok_an _ _ Hf); exact Ha].
      cbn [has_substring]. rewrite !prefix_dd. cbn [head_is].
      change (rs f "" s) with (R f s). rewrite (head_R c s Hc).
      specialize (IH "" eq_refl). simpl in IH. change (rs f "" s) with (R f s) in IH. now rewrite IH.
Qed.

Lemma R_dunder s : has_substring "__" (R f s) = has_substring "__" s.
Proof. apply (hs_rs "_"%char s eq_refl "" eq_refl). Qed.

(* ------------------------------------------------------------------ *)
(** * Blanks *)

Definition clean (s : string) : bool :=
  (fix go (s : string) := match s with EmptyString => true | String c r => negb (is_space c) && go r end) s.

Lemma is_space_not_an c : is_space c = true -> is_an c = false.
Proof.
  destruct c as [b0 b1 b2 b3 b4 b5 b6 b7]. unfold is_space.
  destruct b0, b1, b2, b3, b4, b5, b6, b7; simpl; intros H; try discriminate; reflexivity.
Qed.

Lemma an_not_space c : is_an c = true -> is_space c = false.
Proof. intros H. destruct (is_space c) eqn:E; [|reflexivity]. apply is_space_not_an in E. congruence. Qed.

Lemma clean_app a b : clean (a ++ b) = clean a && clean b.
Proof. induction a as [|x a IH]; simpl; [reflexivity|]. simpl in IH. rewrite IH. now rewrite andb_assoc. Qed.

Lemma all_an_clean x : all_an x = true -> clean x = true.
Proof.
  induction x as [|c x IH]; simpl; [reflexivity|]. intros H. apply andb_true_iff in H as [H1 H2].
  rewrite (an_not_space c H1). simpl. now apply IH.
Qed.

Lemma clean_rs s : forall acc, all_an acc = true -> clean (rs f acc s) = clean s.
Proof.
  induction s as [|c s IH]; intros acc Ha; simpl.
  - apply all_an_clean, (ok_an _ _ Hf), Ha.
  - destruct (is_an c) eqn:Hc.
    + rewrite IH. { now rewrite (an_not_space c Hc). }
      unfold snoc. rewrite all_an_app, Ha. simpl. now rewrite Hc.
    + rewrite clean_app. rewrite (all_an_clean (f acc)) by (apply (ok_an _ _ Hf), Ha).
      cbn [andb]. change (clean (String c (rs f "" s))) with (negb (is_space c) && clean (rs f "" s)).
      now rewrite (IH "" eq_refl).
Qed.

Lemma clean_R s : clean (R f s) = clean s.
Proof. now apply clean_rs. Qed.

Lemma remove_blank_clean s : clean s = true -> remove_char " "%char s = s.
Proof.
  induction s as [|c s IH]; simpl; [reflexivity|]. intros H. apply andb_true_iff in H as [H1 H2].
  destruct (Ascii.eqb_spec c " "%char) as [->|]; [discriminate|]. now rewrite IH.
Qed.

Lemma lstrip_clean s : clean s = true -> lstrip s = s.
Proof. destruct s as [|c s]; simpl; [reflexivity|]. intros H. apply andb_true_iff in H as [H1 _]. apply negb_true_iff in H1. now rewrite H1. Qed.

Lemma rstrip_clean s : clean s = true -> rstrip s = s.
Proof.
  induction s as [|c s IH]; simpl; [reflexivity|]. intros H. apply andb_true_iff in H as [H1 H2].
  rewrite IH by exact H2. apply negb_true_iff in H1. rewrite H1. now destruct s.
Qed.

End Inverse.
