(** utils.replace_token_from_lookup (Main.qscan) commutes with a renaming: renaming the pieces of a
    text and then qualifying its NAME tokens with a lookup is the same as qualifying first and
    renaming the result, provided the two lookups correspond. *)
From Coq Require Import List String Ascii Bool ZArith Arith Lia.
From SFC.Base Require Import Res Str.
From SFC.GenMain2 Require Import Main.
From SFC.GenRename Require Import RStr RFix.
Import ListNotations.
Local Open Scope string_scope.

(* ------------------------------------------------------------------ *)
(** * The tokens of a text *)

Inductive tk := N (a : string) | M (a : string) | C (c : ascii).
Inductive kd := K0 | KN | KM.

Definition flush2 (k : kd) (a : string) : list tk :=
  match k with K0 => [] | KN => [N a] | KM => [M a] end.

Definition next_dig (s : string) : bool := match s with String d _ => is_digit d | EmptyString => false end.

Fixpoint lx (k : kd) (a : string) (s : string) : list tk :=
  match s with
  | EmptyString => flush2 k a
  | String c r =>
      let fresh :=
        if is_alpha c then lx KN (String c "") r
        else if is_digit c then lx KM (String c "") r
        else if Ascii.eqb c "."%char && next_dig r then lx KM (String c "") r
        else if Ascii.eqb c " "%char then lx K0 "" r
        else C c :: lx K0 "" r in
      match k with
      | K0 => fresh
      | KN => if is_id_char c then lx KN (Main.snoc a c) r else (flush2 k a ++ fresh)%list
      | KM => if is_id_char c || Ascii.eqb c "."%char then lx KM (Main.snoc a c) r else (flush2 k a ++ fresh)%list
      end
  end.

Definition st_of (k : kd) (a : string) : tok :=
  match k with K0 => TNone | KN => TName a | KM => TNum a end.

Definition emit1 (lk : string -> option string) (t : tk) : string :=
  match t with
  | N a => (match lk a with Some x => x | None => a end) ++ " "
  | M a => a ++ " "
  | C c => String c ""
  end.

Fixpoint emitq (lk : string -> option string) (l : list tk) : string :=
  match l with [] => "" | t :: r => emit1 lk t ++ emitq lk r end.

Lemma emitq_app lk a b : emitq lk (a ++ b)%list = emitq lk a ++ emitq lk b.
Proof. induction a as [|t a IH]; simpl; [reflexivity|]. now rewrite IH, RStr.app_assoc. Qed.

Lemma flush_emit lk k a : flush lk (st_of k a) = emitq lk (flush2 k a).
Proof. destruct k; simpl; try reflexivity; now rewrite RStr.app_nil_r. Qed.

Lemma qscan_lx lk s : forall k a, qscan lk (st_of k a) s = emitq lk (lx k a s).
Proof.
  induction s as [|c s IH]; intros k a.
  - apply flush_emit.
  - assert (HF : (if is_alpha c then qscan lk (TName (String c "")) s
                  else if is_digit c then qscan lk (TNum (String c "")) s
                  else if Ascii.eqb c "."%char && match s with String d _ => is_digit d | EmptyString => false end
                       then qscan lk (TNum (String c "")) s
                  else if Ascii.eqb c " "%char then qscan lk TNone s
                  else String c (qscan lk TNone s)) =
                 emitq lk (if is_alpha c then lx KN (String c "") s
                           else if is_digit c then lx KM (String c "") s
                           else if Ascii.eqb c "."%char && next_dig s then lx KM (String c "") s
                           else if Ascii.eqb c " "%char then lx K0 "" s
                           else C c :: lx K0 "" s)).
    { destruct (is_alpha c); [apply (IH KN)|]. destruct (is_digit c); [apply (IH KM)|].
      change (match s with String d _ => is_digit d | EmptyString => false end) with (next_dig s).
      destruct (Ascii.eqb c "."%char && next_dig s); [apply (IH KM)|].
      destruct (Ascii.eqb c " "%char); [apply (IH K0 "")|]. simpl. f_equal. apply (IH K0 ""). }
    destruct k; cbn [qscan lx st_of].
    + exact HF.
    + destruct (is_id_char c); [apply (IH KN)|]. rewrite emitq_app, <- (flush_emit lk KN a). cbn [st_of]. now rewrite HF.
    + destruct (is_id_char c || Ascii.eqb c "."%char); [apply (IH KM)|].
      rewrite emitq_app, <- (flush_emit lk KM a). cbn [st_of]. now rewrite HF.
Qed.

(* ------------------------------------------------------------------ *)
(** * Character classes *)

Lemma is_alpha_spec c : is_alpha c = is_let c || Ascii.eqb c "_"%char.
Proof.
  unfold is_alpha, is_let. f_equal.
  destruct (Ascii.eqb_spec c "_"%char) as [->|Hn]; [reflexivity|].
  apply Nat.eqb_neq. intros H. apply Hn. rewrite <- (ascii_nat_embedding c), H. reflexivity.
Qed.
Lemma is_digit_spec c : is_digit c = is_dig c.
Proof. reflexivity. Qed.
Lemma is_id_char_spec c : is_id_char c = is_an c || Ascii.eqb c "_"%char.
Proof. unfold is_id_char, is_an. rewrite is_alpha_spec, is_digit_spec. destruct (is_let c), (is_dig c), (Ascii.eqb c "_"%char); reflexivity. Qed.

Lemma let_not_dig c : is_let c = true -> is_dig c = false.
Proof.
  unfold is_let, is_dig. intros H. apply orb_true_iff in H. apply andb_false_iff.
  destruct H as [H|H]; apply andb_true_iff in H as [H1 H2]; apply Nat.leb_le in H1, H2; right; apply Nat.leb_gt; lia.
Qed.

(** what the scanner does with a character that is not a letter or digit *)
Definition sepstep (k : kd) (a : string) (c : ascii) (d : bool) (cont : kd -> string -> list tk) : list tk :=
  if Ascii.eqb c "_"%char then
    match k with K0 => cont KN "_" | _ => cont k (Main.snoc a c) end
  else if Ascii.eqb c "."%char then
    match k with
    | KM => cont KM (Main.snoc a c)
    | _ => (flush2 k a ++ (if d then cont KM "." else C c :: cont K0 ""))%list
    end
  else (flush2 k a ++ (if Ascii.eqb c " "%char then cont K0 "" else C c :: cont K0 ""))%list.

Lemma lx_sep k a c s : is_an c = false -> lx k a (String c s) = sepstep k a c (next_dig s) (fun k2 a2 => lx k2 a2 s).
Proof.
  intros Hc. unfold is_an in Hc. apply orb_false_iff in Hc as [HL HD].
  cbn [lx]. rewrite is_id_char_spec, is_alpha_spec, is_digit_spec. unfold is_an. rewrite HL, HD. cbn [orb].
  unfold sepstep. destruct (Ascii.eqb_spec c "_"%char) as [->|Hu].
  - destruct k; reflexivity.
  - destruct (Ascii.eqb_spec c "."%char) as [->|Hp].
    + cbn [andb orb]. destruct k; cbn [flush2 app]; destruct (next_dig s); reflexivity.
    + cbn [andb orb]. destruct k; reflexivity.
Qed.

Lemma lx_an k a c s : is_an c = true ->
  lx k a (String c s) = match k with
                        | K0 => if is_let c then lx KN (String c "") s else lx KM (String c "") s
                        | _ => lx k (Main.snoc a c) s
                        end.
Proof.
  intros Hc. cbn [lx]. rewrite is_id_char_spec, is_alpha_spec, is_digit_spec, Hc. cbn [orb].
  unfold is_an in Hc. destruct (is_let c) eqn:HL.
  - destruct k; reflexivity.
  - simpl in Hc. rewrite Hc. destruct (Ascii.eqb_spec c "_"%char) as [->|]; [discriminate|]. destruct k; reflexivity.
Qed.

Definition head_let (x : string) : bool := match x with String c _ => is_let c | EmptyString => false end.

Lemma msnoc a c : Main.snoc a c = a ++ String c "".
Proof. reflexivity. Qed.

(** feeding a whole alphanumeric run *)
Lemma lx_feed x : all_an x = true -> forall k a rest, k <> K0 -> lx k a (x ++ rest) = lx k (a ++ x) rest.
Proof.
  induction x as [|c x IH]; intros Hx k a rest Hk; simpl in Hx.
  - now rewrite RStr.app_nil_r.
  - apply andb_true_iff in Hx as [Hc Hx]. change (String c x ++ rest) with (String c (x ++ rest)).
    rewrite lx_an by exact Hc. destruct k; [congruence| |]; rewrite IH by (try exact Hx; discriminate);
      rewrite msnoc, RStr.app_assoc; reflexivity.
Qed.

Lemma lx_feed0 x a rest : all_an x = true -> x <> "" ->
  lx K0 a (x ++ rest) = if head_let x then lx KN x rest else lx KM x rest.
Proof.
  destruct x as [|c x]; [congruence|]. cbn [all_an head_let append]. intros Hx _. apply andb_true_iff in Hx as [Hc Hx].
  rewrite lx_an by exact Hc.
  destruct (is_let c); now rewrite lx_feed by (try exact Hx; discriminate).
Qed.

(* ------------------------------------------------------------------ *)
(** * Tokens of a renamed text *)

Section Commute.
Variables f g : string -> string.
Hypothesis Hf : okmap f g.
Hypothesis Hnum : forall x, head_dig x = true -> f x = x.

Notation r := (R f).

Definition rtk (t : tk) : tk := match t with N a => N (r a) | M a => M (r a) | C c => C c end.

Lemma head_class x : all_an x = true -> x <> "" -> head_let (f x) = head_let x.
Proof.
  intros Hx Hn. destruct x as [|c x]; [congruence|]. simpl in Hx. apply andb_true_iff in Hx as [Hc Hx].
  assert (Hfx : all_an (f (String c x)) = true) by (apply (ok_an _ _ Hf); simpl; now rewrite Hc).
  assert (Hne : f (String c x) <> "") by (intros H; apply (proj1 (f_nil_iff f g Hf _)) in H; discriminate).
  simpl. unfold is_an in Hc. destruct (is_let c) eqn:HL.
  - destruct (f (String c x)) as [|d y] eqn:Ef; [congruence|]. simpl in *. apply andb_true_iff in Hfx as [Hd _].
    unfold is_an in Hd. destruct (is_let d) eqn:HLd; [reflexivity|]. simpl in Hd.
    (* a digit-start image is fixed, so it is its own preimage *)
    assert (Hfix : f (String d y) = String d y) by (apply Hnum; exact Hd).
    assert (String c x = String d y) by (apply (f_inj f g Hf); now rewrite Hfix).
    inversion H; subst. congruence.
  - simpl in Hc. rewrite (Hnum (String c x)) by exact Hc. simpl. exact HL.
Qed.

Lemma next_dig_R s : next_dig (r s) = next_dig s.
Proof.
  destruct s as [|c s]; [now rewrite (R_nil f g Hf)|]. destruct (is_an c) eqn:Hc.
  - unfold R. simpl. rewrite Hc.
    destruct (rs_acc_an f (RStr.snoc "" c) s) as (x & rest & Hx & Hr & _); [simpl; now rewrite Hc|].
    rewrite Hr. set (y := RStr.snoc "" c ++ x).
    assert (Hy : all_an y = true) by (unfold y; simpl; now rewrite Hc).
    assert (Hyn : y <> "") by (unfold y; discriminate).
    assert (HL := head_class y Hy Hyn).
    assert (Hfy : all_an (f y) = true) by (now apply (ok_an _ _ Hf)).
    destruct (f y) as [|d z] eqn:Ef; [exfalso; apply (proj1 (f_nil_iff f g Hf _)) in Ef; congruence|].
    simpl. simpl in HL, Hfy. apply andb_true_iff in Hfy as [Hd _].
    change (is_digit d) with (is_dig d). change (is_digit c) with (is_dig c). unfold y in HL. simpl in HL. unfold is_an in Hd, Hc.
    destruct (is_let d) eqn:E1, (is_let c) eqn:E2; try discriminate.
    + now rewrite (let_not_dig d E1), (let_not_dig c E2).
    + simpl in Hd, Hc. now rewrite Hd, Hc.
  - rewrite (R_cons f g Hf) by exact Hc. reflexivity.
Qed.

Definition sep_end (a0 : string) : Prop := a0 = "" \/ ends_sep a0 = true.

(** state of the scanner on the renamed text: the token is only visible once its first piece has
    been written out *)
Definition k_of (k : kd) (a0 : string) : kd := match a0 with EmptyString => K0 | _ => k end.

Definition st_inv (k : kd) (a0 acc : string) : Prop :=
  all_an acc = true /\ sep_end a0 /\
  match k with
  | K0 => a0 = "" /\ acc = ""
  | KN => a0 = "" -> acc <> "" /\ head_let acc = true
  | KM => a0 = "" -> acc <> "" /\ head_let acc = false
  end.

Lemma r_sep_end a0 x : sep_end a0 -> r (a0 ++ x) = r a0 ++ r x.
Proof.
  intros [->|H]; [now rewrite (R_nil f g Hf)|]. now apply (R_app_ends f g Hf).
Qed.

(** after the pending run has been written out *)
Lemma feed_state k a0 acc rest : st_inv k a0 acc ->
  lx (k_of k a0) (r a0) (f acc ++ rest) = lx k (r (a0 ++ acc)) rest.
Proof.
  intros (Ha & Hs & Hk). rewrite r_sep_end by exact Hs. rewrite (R_an f acc Ha).
  assert (Hfa : all_an (f acc) = true) by (now apply (ok_an _ _ Hf)).
  destruct a0 as [|c0 a0].
  - cbn [k_of]. rewrite (R_nil f g Hf). cbn [append].
    destruct k.
    + destruct Hk as [_ ->]. now rewrite (ok_nil _ _ Hf).
    + destruct (Hk eq_refl) as [Hn HL]. rewrite lx_feed0; [|exact Hfa|intros H; apply (proj1 (f_nil_iff f g Hf _)) in H; congruence].
      now rewrite head_class, HL.
    + destruct (Hk eq_refl) as [Hn HL]. rewrite lx_feed0; [|exact Hfa|intros H; apply (proj1 (f_nil_iff f g Hf _)) in H; congruence].
      now rewrite head_class, HL.
  - cbn [k_of]. destruct k.
    + destruct Hk as [Hk _]. discriminate.
    + now rewrite lx_feed by (try exact Hfa; discriminate).
    + now rewrite lx_feed by (try exact Hfa; discriminate).
Qed.

Lemma ends_sep_snoc a c : is_an c = false -> ends_sep (a ++ String c "") = true.
Proof.
  intros Hc. induction a as [|x a IH]; simpl; [now rewrite Hc|].
  destruct (a ++ String c "") eqn:E; [destruct a; discriminate|]. exact IH.
Qed.

Lemma r_snoc_sep a c : is_an c = false -> r (a ++ String c "") = r a ++ String c "".
Proof. intros Hc. rewrite (R_sep f a c "" Hc). now rewrite (R_nil f g Hf). Qed.

Lemma r_char c : is_an c = false -> r (String c "") = String c "".
Proof. intros Hc. rewrite (R_cons f g Hf) by exact Hc. now rewrite (R_nil f g Hf). Qed.

Theorem lx_ren s : forall k a0 acc, st_inv k a0 acc ->
  lx (k_of k a0) (r a0) (rs f acc s) = map rtk (lx k (a0 ++ acc) s).
Proof.
  induction s as [|c s IH]; intros k a0 acc Hinv.
  - cbn [rs]. rewrite <- (RStr.app_nil_r (f acc)). rewrite feed_state by exact Hinv.
    cbn [lx]. destruct k; reflexivity.
  - cbn [rs]. destruct (is_an c) eqn:Hc.
    + (* the run goes on *)
      destruct Hinv as (Ha & Hs & Hk). rewrite lx_an by exact Hc.
      assert (Ha' : all_an (RStr.snoc acc c) = true) by (unfold RStr.snoc; rewrite all_an_app, Ha; simpl; now rewrite Hc).
      destruct k.
      * destruct Hk as [-> ->]. cbn [append]. destruct (is_let c) eqn:HL.
        -- apply (IH KN "" (RStr.snoc "" c)). split; [exact Ha'|split; [now left|]]. intros _. split; [discriminate|exact HL].
        -- apply (IH KM "" (RStr.snoc "" c)). split; [exact Ha'|split; [now left|]]. intros _. split; [discriminate|exact HL].
      * rewrite (msnoc (a0 ++ acc) c), RStr.app_assoc. apply (IH KN a0 (RStr.snoc acc c)). split; [exact Ha'|split; [exact Hs|]].
        intros E0. destruct (Hk E0) as [Hn HL]. split; [destruct acc; discriminate|]. destruct acc; [congruence|exact HL].
      * rewrite (msnoc (a0 ++ acc) c), RStr.app_assoc. apply (IH KM a0 (RStr.snoc acc c)). split; [exact Ha'|split; [exact Hs|]].
        intros E0. destruct (Hk E0) as [Hn HL]. split; [destruct acc; discriminate|]. destruct acc; [congruence|exact HL].
    + (* a separator: the pending run is written out, then the character is handled *)
      rewrite feed_state by exact Hinv. change (rs f "" s) with (r s).
      rewrite !lx_sep by exact Hc. rewrite next_dig_R. unfold sepstep.
      set (a := a0 ++ acc).
      assert (IH0 : lx K0 "" (r s) = map rtk (lx K0 "" s)).
      { rewrite <- (R_nil f g Hf) at 1. apply (IH K0 "" ""). repeat split; [now left]. }
      assert (IHs : forall k2 b, k2 <> K0 -> is_an c = false -> lx k2 (r (b ++ String c "")) (r s) = map rtk (lx k2 (b ++ String c "") s)).
      { intros k2 b Hk2 _. rewrite <- (RStr.app_nil_r (b ++ String c "")) at 2.
        assert (E : k_of k2 (b ++ String c "") = k2) by (destruct (b ++ String c "") eqn:E; [destruct b; discriminate|reflexivity]).
        rewrite <- E at 1. apply (IH k2 (b ++ String c "") ""). repeat split.
        - right. now apply ends_sep_snoc.
        - destruct k2; [congruence| |]; intros E2; destruct b; discriminate. }
      destruct (Ascii.eqb_spec c "_"%char) as [->|Hu].
      * destruct k.
        -- assert (H := IHs KN "" ltac:(discriminate) eq_refl). cbn [append] in H.
           rewrite r_char in H by reflexivity. exact H.
        -- rewrite !msnoc, <- r_snoc_sep by reflexivity. apply IHs; [discriminate|reflexivity].
        -- rewrite !msnoc, <- r_snoc_sep by reflexivity. apply IHs; [discriminate|reflexivity].
      * destruct (Ascii.eqb_spec c "."%char) as [->|Hp].
        -- assert (IHd : lx KM "." (r s) = map rtk (lx KM "." s)).
           { assert (H := IHs KM "" ltac:(discriminate) eq_refl). cbn [append] in H.
             rewrite r_char in H by reflexivity. exact H. }
           destruct k.
           ++ cbn [flush2 app]. destruct (next_dig s); [exact IHd|]. simpl. now rewrite IH0.
           ++ cbn [flush2]. rewrite map_app. simpl. destruct (next_dig s); [now rewrite IHd|]. simpl. now rewrite IH0.
           ++ rewrite !msnoc, <- r_snoc_sep by reflexivity. apply IHs; [discriminate|reflexivity].
        -- destruct k; cbn [flush2]; rewrite ?map_app; simpl; destruct (Ascii.eqb c " "%char); simpl; now rewrite IH0.
Qed.

Corollary lx_R s : lx K0 "" (r s) = map rtk (lx K0 "" s).
Proof.
  rewrite <- (R_nil f g Hf) at 1. apply (lx_ren s K0 "" ""). repeat split. now left.
Qed.

(* ------------------------------------------------------------------ *)
(** * Renaming the output of the scanner *)

Lemma r_space a rest : r (a ++ String " "%char rest) = r a ++ String " "%char (r rest).
Proof. now apply R_sep. Qed.

Variables lk lk' : string -> option string.
Hypothesis Hlk : forall a, lk' (r a) = option_map r (lk a).

Lemma emit_ren l : (forall c, List.In (C c) l -> is_an c = false) ->
  emitq lk' (map rtk l) = r (emitq lk l).
Proof.
  induction l as [|t l IH]; intros HC; [symmetry; apply (R_nil f g Hf)|].
  cbn [map emitq]. rewrite IH by (intros c Hin; apply HC; now right).
  destruct t as [a|a|c]; cbn [rtk emit1].
  - rewrite Hlk. rewrite !RStr.app_assoc. cbn [append]. rewrite r_space. destruct (lk a); reflexivity.
  - rewrite !RStr.app_assoc. cbn [append]. now rewrite r_space.
  - cbn [append]. rewrite (R_cons f g Hf); [reflexivity|]. apply HC. now left.
Qed.

Lemma lx_C s : forall k a c, List.In (C c) (lx k a s) -> is_an c = false.
Proof.
  induction s as [|d s IH]; intros k a c Hin.
  - destruct k; simpl in Hin; try contradiction; destruct Hin as [H|[]]; discriminate.
  - destruct (is_an d) eqn:Hd.
    + rewrite lx_an in Hin by exact Hd. destruct k; [destruct (is_let d)|..]; eapply IH; exact Hin.
    + rewrite lx_sep in Hin by exact Hd. unfold sepstep in Hin.
      assert (HF : forall k2 b, List.In (C c) (flush2 k2 b) -> False).
      { intros k2 b H. destruct k2; simpl in H; try contradiction; destruct H as [H|[]]; discriminate. }
      destruct (Ascii.eqb d "_"%char).
      * destruct k; eapply IH; exact Hin.
      * destruct (Ascii.eqb d "."%char) eqn:Ep.
        -- destruct k; try (eapply IH; exact Hin);
           apply in_app_or in Hin as [Hin|Hin]; try (exfalso; eapply HF; exact Hin);
           (destruct (next_dig s); [eapply IH; exact Hin|destruct Hin as [Hin|Hin]; [injection Hin as <-; exact Hd|eapply IH; exact Hin]]).
        -- apply in_app_or in Hin as [Hin|Hin]; [exfalso; eapply HF; exact Hin|].
           destruct (Ascii.eqb d " "%char); [eapply IH; exact Hin|].
           destruct Hin as [Hin|Hin]; [injection Hin as <-; exact Hd|eapply IH; exact Hin].
Qed.

Theorem qualify_ren u : qualify_text lk' (r u) = r (qualify_text lk u).
Proof.
  unfold qualify_text. change TNone with (st_of K0 ""). rewrite !qscan_lx. rewrite lx_R.
  apply emit_ren. intros c. apply lx_C.
Qed.

End Commute.
