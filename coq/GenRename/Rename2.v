(** C18 at program level for the multi-currency pipeline model [Main2.build2]: countries with their
    own currency, the ExternalSector at any position, cross-zone flows and suppliers, the gold-standard
    classes.  Currency codes are renamed like every other code.

    [renaming_ok2 rho p] = [perm_ok rho] and, as far as [p] gets,
      - [step2_okb] for every step: the conditions of Rename.v on sector declarations and user
        operations; country codes and explicit currency codes non-empty and without white space;
        GoldStandardGovernment counts as a government class (GOOD PRIM BAL FISC fixed);
      - [zclean_b]: the full codes of the constructed model contain no white space;
      - [dep_okb2]: 'INT' + code renamed consistently for every deposit market;
      - [exo_free]: EXOGENOUS only as a whole word in the emitted row texts (as in Rename.v).
    Reserved in addition to Rename.v's list, because the ExternalSector and the gold-standard classes
    write them: LOCAL GOLDPURCHASES PRICE NETOZ GOLDPRICE OZ (EXT XR FX GOLD NUMERAIRE NET are
    reserved throughout). *)
From Coq Require Import List String Ascii Bool ZArith Arith Permutation Reals.
From SFC.Base Require Import Res Str.
From SFC.Gen Require Import Fx Zone.
From SFC.GenMain2 Require Import Program Classes Main Conflict Program2 Main2.
From SFC.GenRename Require Import RStr RFix Ren ZoneEq ConsEq MainEq RowEq Equivariance Concrete Sem ClassEq Static Rename Cons2Eq Main2Eq Equivariance2.
Import ListNotations.
Local Open Scope string_scope.

Definition renaming_ok2 (rho : renaming) (p : program2) : bool :=
  perm_ok rho && renaming_ok2_s (ap rho) p.

Theorem main2_rename_equivariant rho p : renaming_ok2 rho p = true ->
  build2 (rename_program2 rho p) = rmap (rename_system rho) (build2 p).
Proof.
  unfold renaming_ok2. intros H. apply andb_true_iff in H as [H1 H2].
  apply (build2_ren (ap rho) (ap (inv rho)) (ap_okmap rho H1) (ap_num rho H1) (ap_res rho H1) p).
  now apply renaming_ok2_s_f.
Qed.

Corollary main2_rename_errors rho p e : renaming_ok2 rho p = true ->
  build2 p = Err e -> build2 (rename_program2 rho p) = Err e.
Proof. intros H He. rewrite (main2_rename_equivariant rho p H), He. reflexivity. Qed.

Lemma build2_parts p E : build2 p = Ok E ->
  exists st x, construct_all2 p = Ok st /\ final_zone2 st = Ok x /\ fs_zone E = fst x /\ fs_rows E = zone_rows (fs_zone E).
Proof.
  rewrite build2_final. destruct (construct_all2 p) as [st|] eqn:E1; [|discriminate]. simpl.
  destruct (final_zone2 st) as [x|] eqn:E2; [|discriminate]. simpl. unfold emit.
  intros H. exists st, x. split; [reflexivity|]. split; [exact E2|].
  destruct (zone_rows (fst x)) eqn:Er; [destruct (snd x); [discriminate|]|]; injection H as <-; simpl; auto.
Qed.

Lemma renaming_ok2_stable rho p E : renaming_ok2 rho p = true -> build2 p = Ok E -> stable_b (ap rho) (fs_zone E) = true.
Proof.
  unfold renaming_ok2, renaming_ok2_s. intros H HB. destruct (build2_parts p E HB) as (st & x & H1 & H2 & H3 & _).
  apply andb_true_iff in H as [Hp H]. apply andb_true_iff in H as [_ H]. rewrite H1 in H.
  apply andb_true_iff in H as [_ H]. rewrite H2 in H. rewrite H3. now apply exo_free_stable.
Qed.

Corollary main2_rename_rows rho p E : renaming_ok2 rho p = true -> build2 p = Ok E ->
  exists E', build2 (rename_program2 rho p) = Ok E' /\ fs_zone E' = ren_zone (ap rho) (fs_zone E) /\
             Permutation (fs_rows E') (map (ren_row (ap rho)) (fs_rows E)) /\
             fs_ic E' = map (ren_ic (ap rho)) (fs_ic E).
Proof.
  intros H HB. exists (rename_system rho E). rewrite (main2_rename_equivariant rho p H), HB.
  split; [reflexivity|]. split; [reflexivity|]. split; [|reflexivity].
  apply rename_rows_perm. now destruct (build2_parts p E HB) as (_ & _ & _ & _ & _ & HR).
Qed.

Theorem main2_rename_histories rho p E h b : renaming_ok2 rho p = true -> build2 p = Ok E ->
  exists E', build2 (rename_program2 rho p) = Ok E' /\
    (follows E h b <-> follows E' (rename_history rho h) (rename_opaque rho b)).
Proof.
  intros H HB. assert (Hp : perm_ok rho = true) by (now apply andb_true_iff in H as [H _]).
  exists (rename_system rho E). rewrite (main2_rename_equivariant rho p H), HB. split; [reflexivity|].
  assert (Inv : forall x, R (ap (inv rho)) (R (ap rho) x) = x) by (apply (R_inv _ _ (ap_okmap rho Hp))).
  assert (SR := fun v vp bv => sat_rename (ap rho) (ap (inv rho)) (ap_okmap rho Hp) (ap_okmap_inv rho Hp)
                                          (ap_num rho Hp) (ap_res rho Hp) v vp bv E (renaming_ok2_stable rho p E H HB)).
  unfold follows. split; intros HF t.
  - apply SR. eapply sat_ext; [| | |exact (HF t)]; intros; unfold pull, pull2, rename_history, rename_opaque; now rewrite ?Inv.
  - specialize (HF t). apply SR in HF. eapply sat_ext; [| | |exact HF]; intros; unfold pull, pull2, rename_history, rename_opaque; now rewrite ?Inv.
Qed.
