(** _CreateFinalEquations commutes with a renaming: rendering (Term.__str__ /
    Equation.GetRightHandSide), qualification of local names, the row of a variable, and the rows
    of a sector up to the re-sorting by the new names. *)
From Coq Require Import List String Ascii Bool ZArith Arith Lia Permutation DecimalString.
From SFC.Base Require Import Res Str Sorting.
From SFC.Gen Require Import Fx Zone.
From SFC.GenMarket Require Import Market.
From SFC.GenMain2 Require Import Program Classes Main.
From SFC.GenRename Require Import RStr RFix Ren ZoneEq QScan.
Import ListNotations.
Local Open Scope string_scope.

(* ------------------------------------------------------------------ *)
(** * Numbers *)

Definition numch (c : ascii) : bool := is_dig c || Ascii.eqb c "."%char || Ascii.eqb c "-"%char || Ascii.eqb c "+"%char.
Fixpoint numeric (s : string) : bool := match s with EmptyString => true | String c r => numch c && numeric r end.
Fixpoint all_dig (s : string) : bool := match s with EmptyString => true | String c r => is_dig c && all_dig r end.

Lemma numeric_app a b : numeric (a ++ b) = numeric a && numeric b.
Proof. induction a as [|c a IH]; simpl; [reflexivity|]. now rewrite IH, andb_assoc. Qed.

Lemma uint_numeric d : numeric (NilEmpty.string_of_uint d) = true.
Proof. induction d; simpl; auto. Qed.

Lemma zstr_numeric z : numeric (zstr z) = true.
Proof.
  unfold zstr, NilZero.string_of_int. destruct (Z.to_int z) as [d|d]; unfold NilZero.string_of_uint.
  - destruct d; try reflexivity; apply (uint_numeric (_ d)).
  - simpl. destruct d; try reflexivity; apply (uint_numeric (_ d)).
Qed.

Lemma zstr_neg z : (z < 0)%Z -> exists rest, zstr z = String "-"%char rest.
Proof. destruct z; try discriminate. intros _. unfold zstr. simpl. eauto. Qed.

Lemma zstr_nonempty z : zstr z <> "".
Proof.
  unfold zstr, NilZero.string_of_int. destruct (Z.to_int z) as [d|d]; [|discriminate].
  unfold NilZero.string_of_uint. destruct d; discriminate.
Qed.

(* ------------------------------------------------------------------ *)
(** * Sorting *)

Lemma leb_antisym a b : String.leb a b = true -> String.leb b a = true -> a = b.
Proof.
  unfold String.leb. intros H1 H2. destruct (String.compare a b) eqn:E.
  - now apply String.compare_eq_iff.
  - rewrite String.compare_antisym, E in H2. simpl in H2. discriminate.
  - discriminate.
Qed.

Lemma leb_false_total a b : String.leb a b = false -> String.leb b a = true.
Proof. intros H. destruct (String.leb_total a b) as [H1|H1]; [congruence|exact H1]. Qed.

Lemma insert_comm x y l : insert x (insert y l) = insert y (insert x l).
Proof.
  induction l as [|z l IH]; simpl.
  - destruct (String.leb x y) eqn:Exy, (String.leb y x) eqn:Eyx; try reflexivity.
    + now rewrite (leb_antisym x y Exy Eyx).
    + apply leb_false_total in Exy. congruence.
  - destruct (String.leb y z) eqn:Eyz, (String.leb x z) eqn:Exz; simpl.
    + destruct (String.leb x y) eqn:Exy, (String.leb y x) eqn:Eyx; try rewrite Exz; try rewrite Eyz; try reflexivity.
      * now rewrite (leb_antisym x y Exy Eyx).
      * apply leb_false_total in Exy. congruence.
    + rewrite Eyz. destruct (String.leb x y) eqn:Exy; [|now rewrite Exz].
      rewrite (leb_trans x y z Exy Eyz) in Exz. discriminate.
    + rewrite Exz. destruct (String.leb y x) eqn:Eyx; [|now rewrite Eyz].
      rewrite (leb_trans y x z Eyx Exz) in Eyz. discriminate.
    + rewrite Exz, Eyz. now rewrite IH.
Qed.

Lemma sort_perm_eq l l' : Permutation l l' -> sort l = sort l'.
Proof.
  induction 1; simpl; [reflexivity|now rewrite IHPermutation|apply insert_comm|congruence].
Qed.

Lemma compare_app p a b : String.compare (p ++ a) (p ++ b) = String.compare a b.
Proof. induction p as [|c p IH]; simpl; [reflexivity|]. now rewrite ascii_compare_refl. Qed.

Lemma leb_app p a b : String.leb (p ++ a) (p ++ b) = String.leb a b.
Proof. unfold String.leb. now rewrite compare_app. Qed.

Section Rows.
Variable f : string -> string.

Lemma sort_rows_map (h : string -> row) l :
  (forall a b, String.leb (r_lhs (h a)) (r_lhs (h b)) = String.leb a b) ->
  sort_rows (map h l) = map h (sort l).
Proof.
  intros Hh. induction l as [|x l IH]; simpl; [reflexivity|]. rewrite IH.
  generalize (sort l). intros m. induction m as [|y m IHm]; simpl; [reflexivity|].
  rewrite Hh. destruct (String.leb x y); simpl; [reflexivity|now rewrite IHm].
Qed.

Lemma sort_rows_length l : List.length (sort_rows l) = List.length l.
Proof.
  induction l as [|x l IH]; simpl; [reflexivity|]. rewrite <- IH. generalize (sort_rows l). intros m.
  induction m as [|y m IHm]; simpl; [reflexivity|]. destruct (String.leb (r_lhs x) (r_lhs y)); simpl; [reflexivity|now rewrite IHm].
Qed.

Lemma insert_row_perm x l : Permutation (x :: l) (insert_row x l).
Proof.
  induction l as [|y l IH]; simpl; [apply Permutation_refl|].
  destruct (String.leb (r_lhs x) (r_lhs y)); [apply Permutation_refl|].
  eapply perm_trans; [apply perm_swap|]. now constructor.
Qed.

Lemma sort_rows_perm l : Permutation l (sort_rows l).
Proof.
  induction l as [|x l IH]; simpl; [constructor|]. eapply perm_trans; [|apply insert_row_perm]. now constructor.
Qed.
End Rows.

Lemma nodup_map_inj (h : string -> string) l : (forall a b, h a = h b -> a = b) ->
  nodup string_dec (map h l) = map h (nodup string_dec l).
Proof.
  intros Hinj. induction l as [|x l IH]; simpl; [reflexivity|].
  destruct (in_dec string_dec x l) as [Hin|Hn]; destruct (in_dec string_dec (h x) (map h l)) as [Hin'|Hn'].
  - exact IH.
  - exfalso. apply Hn'. now apply in_map.
  - exfalso. apply Hn. apply in_map_iff in Hin' as (y & Hy & Hin). apply Hinj in Hy. now subst.
  - simpl. now rewrite IH.
Qed.

(* ------------------------------------------------------------------ *)
(** * Rendering and rows *)

Section RowEq.
Variables f g : string -> string.
Hypothesis Hf : okmap f g.
Hypothesis Hnum : forall x, head_dig x = true -> f x = x.
Hypothesis Hres : forall x, mem x reserved = true -> f x = x.

Notation r := (R f).
Notation S := (ren_sector f).
Notation E := (ren_eqn f).
Notation T := (ren_term f).
Notation V := (ren_vars f).
Notation ZZ := (ren_zone f).

Let reqb := r_eqb f g Hf.
Let rlit := r_lit f g Hf Hnum Hres.
Let rpre := r_pre f g Hf Hnum Hres.
Let rfull := r_full f g Hf Hnum Hres.

Ltac sf := cbn [code country fullcode sid hasF taxable is_market excl vars ren_sector].

Lemma rs_numeric s : numeric s = true -> forall acc, all_dig acc = true -> rs f acc s = acc ++ s.
Proof.
  induction s as [|c s IH]; intros Hs acc Ha; simpl.
  - rewrite RStr.app_nil_r. destruct acc as [|d acc]; [apply (ok_nil _ _ Hf)|]. apply Hnum. simpl in *.
    now apply andb_true_iff in Ha as [Ha _].
  - simpl in Hs. apply andb_true_iff in Hs as [Hc Hs]. unfold numch in Hc.
    destruct (is_dig c) eqn:Hd.
    + assert (Han : is_an c = true) by (unfold is_an; rewrite Hd; apply orb_true_r). rewrite Han.
      rewrite IH; [unfold RStr.snoc; now rewrite RStr.app_assoc|exact Hs|].
      unfold RStr.snoc. clear -Ha Hd. induction acc as [|x acc IHa]; simpl in *; [now rewrite Hd|].
      apply andb_true_iff in Ha as [H1 H2]. now rewrite H1, IHa.
    + simpl in Hc. assert (Han : is_an c = false).
      { apply orb_true_iff in Hc as [Hc|Hc]; [apply orb_true_iff in Hc as [Hc|Hc]|]; apply Ascii.eqb_eq in Hc; subst; reflexivity. }
      rewrite Han. rewrite (IH Hs "" eq_refl). simpl.
      destruct acc as [|d acc]; [now rewrite (ok_nil _ _ Hf)|]. rewrite Hnum; [reflexivity|]. simpl in *.
      now apply andb_true_iff in Ha as [Ha _].
Qed.

Lemma r_numeric s : numeric s = true -> r s = s.
Proof. intros H. unfold R. now rewrite rs_numeric. Qed.

Lemma render_term_ren t : r (render_term t) = render_term (T t).
Proof.
  destruct t as [c fs]. unfold render_term, ren_term. cbn [fst snd].
  destruct (Z.eqb c 0); [apply (R_nil f g Hf)|].
  destruct fs as [|x fs]; cbn [map].
  - apply r_numeric. rewrite !numeric_app, zstr_numeric. now destruct (Z.ltb 0 c).
  - set (fs' := x :: fs). change (r x :: map r fs) with (map r fs').
    rewrite <- (concat_star_ren f g Hf fs').
    destruct (Z.eqb c 1); [now rewrite (rpre "+") by reflexivity|].
    destruct (Z.eqb c (-1)); [now rewrite (rpre "-") by reflexivity|].
    assert (HN : r (zstr c ++ ".0*" ++ String.concat "*" fs') = zstr c ++ ".0*" ++ r (String.concat "*" fs')).
    { rewrite (R_app_r f g Hf) by reflexivity. rewrite (r_numeric (zstr c)) by apply zstr_numeric.
      now rewrite rpre by reflexivity. }
    destruct (Z.ltb 0 c); [|exact HN].
    rewrite (rpre "+") by reflexivity. now rewrite HN.
Qed.

Lemma render_term_starts t : starts_sep (render_term t) = true.
Proof.
  destruct t as [c fs]. unfold render_term. cbn [fst snd].
  destruct (Z.eqb_spec c 0); [reflexivity|].
  assert (HZ : starts_sep ((if Z.ltb 0 c then "+" else "") ++ zstr c ++ ".0") = true /\
               forall y, (Z.ltb 0 c = false -> starts_sep (zstr c ++ y) = true)).
  { destruct (Z.ltb_spec 0 c); [split; [reflexivity|discriminate]|].
    destruct (zstr_neg c ltac:(lia)) as (rest & ->). split; [reflexivity|]. intros; reflexivity. }
  destruct HZ as [H1 H2]. destruct fs as [|x fs]; [exact H1|].
  destruct (Z.eqb c 1); [reflexivity|]. destruct (Z.eqb c (-1)); [reflexivity|].
  destruct (Z.ltb 0 c) eqn:El; [reflexivity|]. now apply H2.
Qed.

Lemma starts_sep_app a b : starts_sep a = true -> starts_sep b = true -> starts_sep (a ++ b) = true.
Proof. destruct a; simpl; auto. Qed.

Lemma concat_terms_starts ts : starts_sep (String.concat "" (map render_term ts)) = true.
Proof.
  induction ts as [|t ts IH]; [reflexivity|]. cbn [map]. destruct ts as [|t2 ts]; [apply render_term_starts|].
  change (String.concat "" (render_term t :: map render_term (t2 :: ts)))
    with (render_term t ++ "" ++ String.concat "" (map render_term (t2 :: ts))).
  apply starts_sep_app; [apply render_term_starts|exact IH].
Qed.

Lemma concat_terms_ren ts :
  r (String.concat "" (map render_term ts)) = String.concat "" (map render_term (map T ts)).
Proof.
  induction ts as [|t ts IH]; [apply (R_nil f g Hf)|]. cbn [map]. destruct ts as [|t2 ts]; [apply render_term_ren|].
  change (String.concat "" (render_term t :: map render_term (t2 :: ts)))
    with (render_term t ++ "" ++ String.concat "" (map render_term (t2 :: ts))).
  change (String.concat "" (render_term (T t) :: map render_term (map T (t2 :: ts))))
    with (render_term (T t) ++ "" ++ String.concat "" (map render_term (map T (t2 :: ts)))).
  cbn [append]. rewrite (R_app_r f g Hf) by apply concat_terms_starts. now rewrite render_term_ren, IH.
Qed.

Theorem render_ren e : render (E e) = r (render e).
Proof.
  unfold render. cbn [blob terms ren_eqn]. rewrite <- concat_terms_ren.
  rewrite <- (R_app_r f g Hf) by apply concat_terms_starts.
  set (out := blob e ++ String.concat "" (map render_term (terms e))).
  assert (HS : match r out with String "+"%char x => x | _ => r out end =
               r (match out with String "+"%char x => x | _ => out end)).
  { assert (HH := head_R f g Hf "+"%char out eq_refl).
    destruct out as [|c x] eqn:Eo; [now rewrite (R_nil f g Hf)|].
    destruct (Ascii.eqb_spec c "+"%char) as [->|Hn].
    - rewrite (R_cons f g Hf) by reflexivity. reflexivity.
    - assert (Hc : match c with "+"%char => x | _ => String c x end = String c x).
      { destruct c as [[] [] [] [] [] [] [] []]; try reflexivity. congruence. }
      rewrite Hc. simpl in HH. destruct (Ascii.eqb_spec c "+"%char); [congruence|].
      destruct (r (String c x)) as [|d y]; [reflexivity|]. simpl in HH.
      destruct (Ascii.eqb_spec d "+"%char) as [->|Hd]; [discriminate|].
      destruct d as [[] [] [] [] [] [] [] []]; try reflexivity. congruence. }
  rewrite HS. set (o2 := match out with String "+"%char x => x | _ => out end).
  rewrite (r_nil_eqb f g Hf Hnum Hres). destruct (String.eqb o2 ""); [now rewrite rlit|reflexivity].
Qed.

Lemma lookup_of_ren s a : lookup_of (S s) (r a) = option_map r (lookup_of s a).
Proof.
  unfold lookup_of. rewrite (has_var_ren f g Hf). destruct (has_var s a); [|reflexivity]. sf. cbn [option_map]. now rewrite rfull.
Qed.

Theorem final_text_ren s e : final_text (S s) (E e) = r (final_text s e).
Proof.
  unfold final_text. rewrite render_ren.
  apply (qualify_ren f g Hf Hnum (lookup_of s) (lookup_of (S s))). intros a. apply lookup_of_ren.
Qed.

(** classification of the rows of a sector is stable under the renaming *)
Definition row_stable (s : sector) : Prop :=
  forall n e, lookup_var n (vars s) = Some e ->
    classify (r (final_text s e)) = ren_kind f (classify (final_text s e)).

Lemma var_row_ren s n : row_stable s -> has_var s n = true -> var_row (S s) (r n) = ren_row f (var_row s n).
Proof.
  intros Hs Hn. unfold var_row, ren_row. cbn [r_lhs r_kind]. sf. rewrite rfull. f_equal.
  change (vars (S s)) with (V (vars s)). rewrite (lookup_ren f g Hf).
  unfold has_var in Hn. destruct (lookup_var n (vars s)) as [e|] eqn:El; [|discriminate]. cbn [option_map].
  rewrite final_text_ren. exact (Hs n e El).
Qed.

Lemma keys_ren s : keys (S s) = map r (keys s).
Proof.
  unfold keys. change (vars (S s)) with (V (vars s)). unfold ren_vars. rewrite map_map. cbn [fst ren_var].
  rewrite <- (map_map fst r). apply nodup_map_inj. apply (R_inj f g Hf).
Qed.

Lemma keys_has s n : List.In n (keys s) -> has_var s n = true.
Proof.
  unfold keys. rewrite nodup_In. intros H. apply in_map_iff in H as ([k e] & <- & Hin). unfold has_var.
  cbn [fst]. induction (vars s) as [|[k' e'] vs IH]; [contradiction|]. simpl.
  destruct (String.eqb_spec k k'); [reflexivity|]. destruct Hin as [Hin|Hin]; [congruence|now apply IH].
Qed.

Theorem sector_rows_ren s : row_stable s ->
  sector_rows (S s) = sort_rows (map (ren_row f) (sector_rows s)).
Proof.
  intros Hs. unfold sector_rows. rewrite keys_ren, map_map.
  assert (H1 : map (fun n => ren_row f (var_row s n)) (sort (keys s)) = map (var_row (S s)) (map r (sort (keys s)))).
  { rewrite map_map. apply map_ext_in. intros n Hin. symmetry. apply var_row_ren; [exact Hs|].
    apply keys_has. now apply sort_In. }
  rewrite H1. rewrite sort_rows_map.
  2:{ intros a b. unfold var_row. cbn [r_lhs]. rewrite <- !RStr.app_assoc. apply leb_app. }
  f_equal. apply sort_perm_eq. apply Permutation_map. apply sort_perm.
Qed.

End RowEq.
