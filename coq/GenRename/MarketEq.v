(** Market._GenerateEquations (coq/GenMarket/Market.v) commutes with a renaming. *)
From Coq Require Import List String Ascii Bool ZArith Arith.
From SFC.Base Require Import Res Str.
From SFC.Gen Require Import Fx Zone.
From SFC.GenMarket Require Import Market.
From SFC.GenRename Require Import RStr RFix Ren ZoneEq.
Import ListNotations.
Local Open Scope string_scope.

Section MarketEq.
Variables f g : string -> string.
Hypothesis Hf : okmap f g.
Hypothesis Hnum : forall x, head_dig x = true -> f x = x.
Hypothesis Hres : forall x, mem x reserved = true -> f x = x.

Notation r := (R f).
Notation S := (ren_sector f).
Notation E := (ren_eqn f).
Notation T := (ren_term f).
Notation V := (ren_vars f).
Notation ZZ := (ren_zone f).

Definition ren_ledger (L : ledger) : ledger := map (fun ct => (r (fst ct), map T (snd ct))) L.
Definition ren_world (W : world) : world :=
  mkWorld (ZZ (home W)) (ZZ (abroad W)) (option_map ren_ledger (fxl W)) (map r (crosses W)).

Let reqb := r_eqb f g Hf.
Let rlit := r_lit f g Hf Hnum Hres.
Let rpre := r_pre f g Hf Hnum Hres.
Let rfull := r_full f g Hf Hnum Hres.
Let rus := r_us f g Hf Hnum Hres.

Ltac sf := cbn [code country fullcode sid hasF taxable is_market excl vars ren_sector].

(* ------------------------------------------------------------------ *)
(** * Names *)

Lemma dem_short_ren mk : dem_short (S mk) = r (dem_short mk).
Proof. unfold dem_short. sf. now rewrite rpre. Qed.
Lemma dem_long_ren mk : dem_long (S mk) = r (dem_long mk).
Proof. unfold dem_long. sf. now rewrite rpre. Qed.
Lemma sup_short_ren mk : sup_short (S mk) = r (sup_short mk).
Proof. unfold sup_short. sf. now rewrite rpre. Qed.
Lemma share_parent_ren mk s : share_parent (S mk) (S s) = share_parent mk s.
Proof. unfold share_parent. sf. apply reqb. Qed.
Lemma dem_name_ren mk s : dem_name (S mk) (S s) = r (dem_name mk s).
Proof. unfold dem_name. rewrite share_parent_ren. destruct (share_parent mk s); [apply dem_short_ren|apply dem_long_ren]. Qed.
Lemma supply_name_ren mk s : supply_name (S mk) (S s) = r (supply_name mk s).
Proof.
  unfold supply_name. rewrite share_parent_ren. destruct (share_parent mk s); [apply sup_short_ren|].
  sf. rewrite rpre by reflexivity. now rewrite rus.
Qed.
Lemma alloc_name_ren s : alloc_name (S s) = r (alloc_name s).
Proof. unfold alloc_name. sf. now rewrite rpre. Qed.
Lemma full_name_ren s n : full_name (S s) (r n) = r (full_name s n).
Proof. unfold full_name. sf. now rewrite rfull. Qed.

(* ------------------------------------------------------------------ *)
(** * Search *)

Lemma is_candidate_ren mk s : is_candidate (S mk) (S s) = is_candidate mk s.
Proof.
  unfold is_candidate. rewrite share_parent_ren, sup_short_ren, (has_var_ren f g Hf). reflexivity.
Qed.

Lemma search_supplier_ren Z mk : search_supplier (ZZ Z) (S mk) = rmap S (search_supplier Z mk).
Proof.
  unfold search_supplier. rewrite (filter_ren f (is_candidate mk)) by (intros; apply is_candidate_ren).
  destruct (filter (is_candidate mk) Z) as [|a [|b l]]; reflexivity.
Qed.

(* ------------------------------------------------------------------ *)
(** * Demand *)

Definition ren_sl (x : sector * list string) : sector * list string := (S (fst x), map r (snd x)).
Definition ren_zl (x : zone * list string) : zone * list string := (ZZ (fst x), map r (snd x)).

Lemma dem_step_ren mk s : dem_step (S mk) (S s) = rmap ren_sl (dem_step mk s).
Proof.
  unfold dem_step. simpl sid. destruct (Nat.eqb (sid s) (sid mk)); [reflexivity|].
  rewrite dem_name_ren, (has_var_ren f g Hf). destruct (has_var s (dem_name mk s)); [|reflexivity].
  change ((-1)%Z, [r (dem_name mk s)]) with (T ((-1)%Z, [dem_name mk s])).
  rewrite (add_cash_flow_lit f g Hf Hnum Hres) by reflexivity.
  destruct (add_cash_flow s ((-1)%Z, [dem_name mk s]) (Some "") true); simpl; [|reflexivity].
  unfold ren_sl. simpl. now rewrite full_name_ren.
Qed.

Lemma dem_loop_ren mk Z : dem_loop (S mk) (ZZ Z) = rmap ren_zl (dem_loop mk Z).
Proof.
  induction Z as [|s Z IH]; simpl; [reflexivity|]. rewrite dem_step_ren.
  destruct (dem_step mk s) as [[s' t1]|]; simpl; [|reflexivity]. rewrite IH.
  destruct (dem_loop mk Z) as [[r' t2]|]; simpl; [|reflexivity]. unfold ren_zl. simpl. now rewrite map_app.
Qed.

Lemma set_rhs_terms_ren s n ts : set_rhs_terms (S s) (r n) (map T ts) = option_map S (set_rhs_terms s n ts).
Proof.
  unfold set_rhs_terms. simpl vars. rewrite (lookup_ren f g Hf). destruct (lookup_var n (vars s)); simpl; [|reflexivity].
  unfold set_eqn. simpl vars. rewrite <- (rlit "" eq_refl) at 1. change (mkEqn (r "") (map T ts)) with (E (mkEqn "" ts)).
  now rewrite (set_var_ren f g Hf).
Qed.

Lemma generate_demand_ren Z m : generate_demand (ZZ Z) m = rmap ZZ (generate_demand Z m).
Proof.
  unfold generate_demand. rewrite (find_sec_ren f). destruct (find_sec m Z) as [mk|]; simpl; [|reflexivity].
  rewrite (upd_ren f m (fun s => Ok (add_variable s (dem_short mk) ""))).
  2:{ intros s. rewrite dem_short_ren. simpl. now rewrite (add_variable_ren_e f g Hf Hnum Hres). }
  destruct (upd m _ Z) as [Za|]; simpl; [|reflexivity].
  rewrite dem_loop_ren. destruct (dem_loop mk Za) as [[Zb fulls]|]; simpl; [|reflexivity].
  apply (upd_ren f). intros s. rewrite dem_short_ren.
  rewrite map_map. rewrite <- (map_map (fun x => (1%Z, [x])) T). rewrite set_rhs_terms_ren. apply opt_key_ren.
Qed.

(* ------------------------------------------------------------------ *)
(** * Supply *)

Lemma resolve_ren W i : resolve (ren_world W) i = rmap (fun bs => (fst bs, S (snd bs))) (resolve W i).
Proof.
  unfold resolve. simpl. rewrite !(find_sec_ren f). destruct (find_sec i (home W)); simpl; [reflexivity|].
  destruct (find_sec i (abroad W)); reflexivity.
Qed.

Lemma ensure_var_ren s n : ensure_var (S s) (r n) = S (ensure_var s n).
Proof.
  unfold ensure_var. rewrite (has_var_ren f g Hf). destruct (has_var s n); [reflexivity|].
  apply (add_variable_ren_e f g Hf Hnum Hres).
Qed.

Lemma supplier_local_ren mk n s : supplier_local (S mk) (r n) (S s) = rmap S (supplier_local mk n s).
Proof.
  unfold supplier_local. rewrite supply_name_ren, ensure_var_ren, full_name_ren.
  change (1%Z, [r (full_name mk n)]) with (T (1%Z, [full_name mk n])).
  rewrite (add_term_to_eq_ren f g Hf).
  destruct (add_term_to_eq (ensure_var s (supply_name mk s)) (supply_name mk s) (1%Z, [full_name mk n])) as [s2|]; simpl; [|reflexivity].
  change (1%Z, [r (supply_name mk s)]) with (T (1%Z, [supply_name mk s])).
  rewrite (add_cash_flow_none f g Hf Hnum Hres). apply opt_key_ren.
Qed.

Lemma supplier_foreign_ren mk t s : supplier_foreign (S mk) (T t) (S s) = rmap S (supplier_foreign mk t s).
Proof.
  unfold supplier_foreign. rewrite supply_name_ren, ensure_var_ren.
  rewrite (add_term_to_eq_ren f g Hf).
  destruct (add_term_to_eq (ensure_var s (supply_name mk s)) (supply_name mk s) t) as [s2|]; simpl; [|reflexivity].
  rewrite (add_cash_flow_none f g Hf Hnum Hres). apply opt_key_ren.
Qed.

Lemma add_to_ren cur t L : add_to (r cur) (T t) (ren_ledger L) = ren_ledger (add_to cur t L).
Proof.
  induction L as [|[c ts] L IH]; simpl; [reflexivity|]. rewrite reqb.
  destruct (String.eqb cur c); simpl; [now rewrite (add_term_ren f g Hf)|now rewrite IH].
Qed.

Lemma xr_name_ren c : xr_name (r c) = r (xr_name c).
Proof. unfold xr_name. now rewrite rpre. Qed.
Lemma cross_name_ren a b : cross_name (r a) (r b) = r (cross_name a b).
Proof. unfold cross_name. rewrite rpre by reflexivity. now rewrite rus. Qed.

Lemma NUM_ren : r NUM = NUM.
Proof. now apply rlit. Qed.

Lemma fx_step_send L src x :
  fx_step (ren_ledger L) (Send (r src) (r x)) = ren_ledger (fx_step L (Send src x)).
Proof.
  simpl. rewrite <- NUM_ren at 1. rewrite xr_name_ren.
  change ((-1)%Z, [r x; r (xr_name src)]) with (T ((-1)%Z, [x; xr_name src])).
  change (1%Z, [r x]) with (T (1%Z, [x])). now rewrite !add_to_ren.
Qed.

Lemma fx_step_receive L src tgt x :
  fx_step (ren_ledger L) (Receive (r src) (r tgt) (r x)) = ren_ledger (fx_step L (Receive src tgt x)).
Proof.
  simpl. rewrite <- NUM_ren at 1. rewrite xr_name_ren, cross_name_ren.
  change (1%Z, [r x; r (xr_name src)]) with (T (1%Z, [x; xr_name src])).
  change ((-1)%Z, [r x; r (cross_name src tgt)]) with (T ((-1)%Z, [x; cross_name src tgt])). now rewrite !add_to_ren.
Qed.

Lemma credited_ren a b x : credited (r a) (r b) (r x) = T (credited a b x).
Proof. unfold credited, ren_term. simpl. now rewrite cross_name_ren. Qed.

Lemma cross_code_ren a b : cross_code (r a) (r b) = r (cross_code a b).
Proof. unfold cross_code. now rewrite rus. Qed.

Lemma add_cross_ren c l : add_cross (r c) (map r l) = map r (add_cross c l).
Proof. unfold add_cross. rewrite (r_mem f g Hf). destruct (mem c l); [reflexivity|]. now rewrite map_app. Qed.

(** the currencies only matter when there is an ExternalSector and a second zone *)
Definition cur_ok (W : world) (hcur acur hcur' acur' : string) : Prop :=
  fxl W = None \/ abroad W = [] \/ (hcur' = r hcur /\ acur' = r acur).

Definition ren_se (se : nat * eqn) : nat * eqn := (fst se, E (snd se)).

Lemma supply_step_ren hcur acur hcur' acur' mk W se : cur_ok W hcur acur hcur' acur' ->
  supply_step hcur' acur' (S mk) (ren_world W) (ren_se se) = rmap ren_world (supply_step hcur acur mk W se).
Proof.
  intros Hc. destruct se as [i e]. unfold supply_step, ren_se. cbn [fst snd]. rewrite resolve_ren.
  destruct (resolve W i) as [[is_local sup]|] eqn:Er; simpl rmap; [|reflexivity]. cbn [fst snd].
  rewrite alloc_name_ren. simpl sid. cbn [home ren_world].
  rewrite (upd_ren f (sid mk) (fun s => Ok (set_eqn s (alloc_name sup) e))).
  2:{ intros s. unfold set_eqn. simpl. now rewrite (set_var_ren f g Hf). }
  destruct (upd (sid mk) _ (home W)) as [H1|]; simpl rmap; [|reflexivity].
  destruct is_local.
  - rewrite (upd_ren f i (supplier_local mk (alloc_name sup))) by (intros; apply supplier_local_ren).
    destruct (upd i _ H1); reflexivity.
  - cbn [fxl ren_world abroad crosses]. destruct (fxl W) as [L|] eqn:HL; cbn [option_map]; [|reflexivity].
    destruct Hc as [Hc|[Hc|[-> ->]]]; [congruence| |].
    { exfalso. unfold resolve in Er. rewrite Hc in Er. destruct (find_sec i (home W)); discriminate. }
    rewrite full_name_ren, credited_ren.
    rewrite (upd_ren f i (supplier_foreign mk (credited hcur acur (full_name mk (alloc_name sup))))) by (intros; apply supplier_foreign_ren).
    destruct (upd i _ (abroad W)) as [A2|]; cbn [rmap]; [|reflexivity].
    unfold ren_world. cbn [home abroad fxl crosses option_map rmap]. now rewrite fx_step_send, fx_step_receive, cross_code_ren, add_cross_ren.
Qed.

Lemma supply_step_keeps hcur acur mk W se W' : supply_step hcur acur mk W se = Ok W' ->
  (fxl W = None -> fxl W' = None) /\ (abroad W = [] -> abroad W' = []).
Proof.
  destruct se as [i e]. unfold supply_step. destruct (resolve W i) as [[il sup]|] eqn:Er; [|discriminate].
  destruct (upd (sid mk) _ (home W)) as [H1|]; [|discriminate]. destruct il.
  - destruct (upd i _ H1); [|discriminate]. intros H. inversion H. simpl. auto.
  - destruct (fxl W) as [L|]; [|discriminate]. destruct (upd i _ (abroad W)) as [A2|] eqn:EA; [|discriminate].
    intros H. inversion H. simpl. split; [discriminate|]. intros Ha. rewrite Ha in EA. discriminate.
Qed.

Lemma cur_ok_keeps hcur acur hcur' acur' mk W se W' : supply_step hcur acur mk W se = Ok W' ->
  cur_ok W hcur acur hcur' acur' -> cur_ok W' hcur acur hcur' acur'.
Proof.
  intros Hs Hc. destruct (supply_step_keeps _ _ _ _ _ _ Hs) as [K1 K2].
  destruct Hc as [Hc|[Hc|Hc]]; [left; auto|right; left; auto|right; right; exact Hc].
Qed.

Lemma foldM_supply hcur acur hcur' acur' mk l : forall W, cur_ok W hcur acur hcur' acur' ->
  foldM (supply_step hcur' acur' (S mk)) (map ren_se l) (ren_world W) = rmap ren_world (foldM (supply_step hcur acur mk) l W).
Proof.
  induction l as [|se l IH]; intros W Hc; cbn [foldM map]; [reflexivity|].
  rewrite (supply_step_ren hcur acur hcur' acur' mk W se Hc).
  destruct (supply_step hcur acur mk W se) as [W1|] eqn:E1; cbn [rmap]; [|reflexivity].
  apply IH. eapply cur_ok_keeps; eauto.
Qed.

Lemma residual_terms_ren mk fcs : residual_terms (S mk) (map r fcs) = map T (residual_terms mk fcs).
Proof.
  unfold residual_terms. rewrite sup_short_ren.
  change [(1%Z, [r (sup_short mk)])] with (map T [(1%Z, [sup_short mk])]).
  generalize [(1%Z, [sup_short mk])]. induction fcs as [|fc fcs IH]; intros acc; cbn [fold_left map]; [reflexivity|].
  rewrite <- IH. f_equal. rewrite <- (rpre "SUP_" fc) by reflexivity.
  change ((-1)%Z, [r ("SUP_" ++ fc)]) with (T ((-1)%Z, ["SUP_" ++ fc])). now rewrite (add_term_ren f g Hf).
Qed.

Lemma resolve_fullcodes_ren W ids : resolve_fullcodes (ren_world W) ids = rmap (map r) (resolve_fullcodes W ids).
Proof.
  induction ids as [|i ids IH]; simpl; [reflexivity|]. rewrite resolve_ren.
  destruct (resolve W i) as [[b s]|]; simpl; [|reflexivity]. rewrite IH.
  destruct (resolve_fullcodes W ids); reflexivity.
Qed.

Definition ren_others (others : list (nat * string)) : list (nat * string) := map (fun o => (fst o, r (snd o))) others.

Lemma with_home_ren W H : with_home (ren_world W) (ZZ H) = ren_world (with_home W H).
Proof. reflexivity. Qed.

Lemma generate_supply_ren hcur acur hcur' acur' W m res others : cur_ok W hcur acur hcur' acur' ->
  generate_supply hcur' acur' (ren_world W) m res (ren_others others) = rmap ren_world (generate_supply hcur acur W m res others).
Proof.
  intros Hc. unfold generate_supply. cbn [home ren_world]. rewrite (find_sec_ren f).
  destruct (find_sec m (home W)) as [mk|]; simpl; [|reflexivity].
  rewrite (upd_ren f m (fun s => opt_key (set_rhs_terms s (sup_short mk) [(1%Z, [dem_short mk])]))).
  2:{ intros s. rewrite sup_short_ren, dem_short_ren.
      change [(1%Z, [r (dem_short mk)])] with (map T [(1%Z, [dem_short mk])]). rewrite set_rhs_terms_ren. apply opt_key_ren. }
  destruct (upd m _ (home W)) as [H0|]; simpl; [|reflexivity].
  rewrite with_home_ren. unfold ren_others. rewrite map_map. cbn [fst].
  rewrite <- (map_map fst (fun x : nat => x)), map_id. rewrite resolve_fullcodes_ren.
  destruct (resolve_fullcodes (with_home W H0) (map fst others)) as [fcs|]; simpl; [|reflexivity].
  rewrite residual_terms_ren.
  assert (EL : (map (fun o : nat * string => (fst o, mkEqn (snd o) []))
                   (map (fun o : nat * string => (fst o, r (snd o))) others) ++ [(res, mkEqn "" (map T (residual_terms mk fcs)))])%list
               = map ren_se (map (fun o => (fst o, mkEqn (snd o) [])) others ++ [(res, mkEqn "" (residual_terms mk fcs))])%list).
  { rewrite map_app, !map_map. cbn [map fst snd]. unfold ren_se, ren_eqn. cbn [fst snd blob terms map].
    rewrite (rlit "" eq_refl). reflexivity. }
  rewrite EL. apply foldM_supply. exact Hc.
Qed.

Lemma the_residual_ren Z mk res : the_residual (ZZ Z) (S mk) res = the_residual Z mk res.
Proof.
  unfold the_residual. destruct res; [reflexivity|]. rewrite search_supplier_ren.
  destruct (search_supplier Z mk); reflexivity.
Qed.

Theorem market_generate_ren hcur acur hcur' acur' W m res others : cur_ok W hcur acur hcur' acur' ->
  market_generate hcur' acur' (ren_world W) m res (ren_others others) = rmap ren_world (market_generate hcur acur W m res others).
Proof.
  intros Hc. unfold market_generate. cbn [home ren_world]. rewrite (find_sec_ren f).
  destruct (find_sec m (home W)) as [mk|]; simpl; [|reflexivity].
  rewrite the_residual_ren. destruct (the_residual (home W) mk res) as [rr|]; simpl; [|reflexivity].
  rewrite generate_demand_ren. destruct (generate_demand (home W) m) as [H1|]; simpl; [|reflexivity].
  rewrite with_home_ren. apply generate_supply_ren. exact Hc.
Qed.

End MarketEq.
