(** Construction of the model object and Model.main() up to the final state of every sector
    commute with a renaming (zone level; the emitted rows are RowEq.v's subject). *)
From Coq Require Import List String Ascii Bool ZArith Arith Lia.
From SFC.Base Require Import Res Str.
From SFC.Gen Require Import Fx Zone.
From SFC.GenMarket Require Import Market.
From SFC.GenTax Require Import Tax TaxProofs Dividends.
From SFC.GenAsset Require Import Common Money Deposit Weighting.
From SFC.GenMain2 Require Import Program Classes Main Ledger MainProofs.
From SFC.GenRename Require Import RStr RFix Ren ZoneEq MarketEq TaxEq AssetEq ConsEq.
Import ListNotations.
Local Open Scope string_scope.

Section MainEq.
Variables f g : string -> string.
Hypothesis Hf : okmap f g.
Hypothesis Hnum : forall x, head_dig x = true -> f x = x.
Hypothesis Hres : forall x, mem x reserved = true -> f x = x.

Notation r := (R f).
Notation S := (ren_sector f).
Notation E := (ren_eqn f).
Notation T := (ren_term f).
Notation V := (ren_vars f).
Notation ZZ := (ren_zone f).

Let reqb := r_eqb f g Hf.
Let rlit := r_lit f g Hf Hnum Hres.
Let rpre := r_pre f g Hf Hnum Hres.
Let rfull := r_full f g Hf Hnum Hres.
Let rus := r_us f g Hf Hnum Hres.

Ltac sf := cbn [code country fullcode sid hasF taxable is_market excl vars ren_sector].

(* ------------------------------------------------------------------ *)
(** * The construction state *)

Definition ren_flow (x : flow) : flow := let '(s, t, v, a, b) := x in (s, t, r v, a, b).
Definition ren_exo (x : nat * string * string) : nat * string * string := let '(s, n, spec) := x in (s, r n, r spec).
Definition ren_icd (x : nat * string * string) : nat * string * string := let '(s, n, v) := x in (s, r n, v).
Definition ren_supinfo (x : supinfo) : supinfo := (fst x, ren_others f (snd x)).
Definition ren_sup (L : list (nat * supinfo)) : list (nat * supinfo) := map (fun kx => (fst kx, ren_supinfo (snd kx))) L.

Definition ren_cstate (st : cstate) : cstate :=
  mkC (map r (c_countries st)) (ZZ (c_secs st)) (map (ren_cls f) (c_classes st)) (ren_sup (c_sup st))
      (map ren_flow (c_flows st)) (map ren_exo (c_exo st)) (map ren_icd (c_ic st)).

Lemma class_of_ren cl i : class_of (map (ren_cls f) cl) i = ren_cls f (class_of cl i).
Proof. unfold class_of. change CGov with (ren_cls f CGov) at 1. apply map_nth. Qed.

Lemma sup_of_ren m L : sup_of m (ren_sup L) = ren_supinfo (sup_of m L).
Proof. induction L as [|[k x] L IH]; simpl; [reflexivity|]. destruct (Nat.eqb k m); [reflexivity|exact IH]. Qed.

Lemma sup_set_ren m x L : sup_set m (ren_supinfo x) (ren_sup L) = ren_sup (sup_set m x L).
Proof. induction L as [|[k y] L IH]; simpl; [reflexivity|]. destruct (Nat.eqb k m); simpl; [reflexivity|now rewrite IH]. Qed.

Lemma set_nth_map {A B} (h : A -> B) i x l : set_nth i (h x) (map h l) = map h (set_nth i x l).
Proof. revert i. induction l as [|a l IH]; intros [|i]; simpl; try reflexivity. now rewrite IH. Qed.

Lemma on_sector_ren i (fn fn' : sector -> result sector) SL :
  (forall s, fn' (S s) = rmap S (fn s)) -> on_sector i fn' (ZZ SL) = rmap ZZ (on_sector i fn SL).
Proof.
  intros H. unfold on_sector. rewrite (find_sec_ren f). destruct (find_sec i SL); simpl; [|reflexivity].
  now apply (upd_ren f).
Qed.

Lemma in_country_ren cc s : in_country (r cc) (S s) = in_country cc s.
Proof. unfold in_country. sf. apply reqb. Qed.

Lemma resolve_markets_ren SL ids : resolve_markets (ZZ SL) ids = rmap (map (ren_mref f)) (resolve_markets SL ids).
Proof.
  induction ids as [|j ids IH]; simpl; [reflexivity|]. rewrite (find_sec_ren f).
  destruct (find_sec j SL) as [m|]; simpl; [|reflexivity]. rewrite IH.
  destruct (resolve_markets SL ids); reflexivity.
Qed.

Lemma market_refs_ren k : market_refs (ren_cls f k) = market_refs k.
Proof. destruct k; reflexivity. Qed.

Lemma has_add_supplier_ren k : has_add_supplier (ren_cls f k) = has_add_supplier k.
Proof. destruct k; reflexivity. Qed.

Lemma squeeze_r t : clean t = true -> squeeze (r t) = r (squeeze t).
Proof. apply (squeeze_ren f g Hf). Qed.

Theorem run_op_ren st o : uop_okb o = true -> run_op (ren_cstate st) (ren_uop f o) = rmap ren_cstate (run_op st o).
Proof.
  intros Ho. destruct o as [s n t|s n spec|src tgt var a b|m sup text|s ws res|s n value|cb tre]; cbn [run_op ren_uop]; simpl in Ho.
  - cbn [c_secs ren_cstate]. rewrite (on_sector_ren s (fun x => addv x n t)).
    2:{ intros x. apply (addv_gen f g Hf); [reflexivity|now apply squeeze_r]. }
    destruct (on_sector s _ (c_secs st)); reflexivity.
  - cbn [c_secs ren_cstate]. rewrite (find_sec_ren f). destruct (find_sec s (c_secs st)); simpl; [|reflexivity].
    unfold ren_cstate. simpl. now rewrite map_app.
  - cbn [c_secs ren_cstate]. rewrite !(find_sec_ren f).
    destruct (find_sec src (c_secs st)); simpl; [|reflexivity]. destruct (find_sec tgt (c_secs st)); simpl; [|reflexivity].
    unfold ren_cstate. simpl. now rewrite map_app.
  - cbn [c_secs c_classes c_sup ren_cstate]. rewrite !(find_sec_ren f).
    destruct (find_sec m (c_secs st)); simpl; [|reflexivity]. destruct (find_sec sup (c_secs st)); simpl; [|reflexivity].
    rewrite class_of_ren, has_add_supplier_ren. destruct (has_add_supplier (class_of (c_classes st) m)); [|reflexivity].
    rewrite sup_of_ren. destruct (sup_of m (c_sup st)) as [res others] eqn:Es. unfold ren_supinfo at 1. cbn [fst snd].
    unfold ren_cstate. simpl. f_equal. f_equal.
    destruct text as [t|]; simpl.
    + rewrite (r_nil_eqb f g Hf Hnum Hres). destruct (String.eqb t "").
      * now rewrite <- sup_set_ren.
      * rewrite <- sup_set_ren. unfold ren_supinfo, ren_others. cbn [fst snd]. rewrite map_app. simpl.
        now rewrite squeeze_r.
    + now rewrite <- sup_set_ren.
  - cbn [c_secs ren_cstate]. rewrite (on_sector_ren s (fun x => asset_weighting x ws res false)).
    2:{ intros x. now apply (asset_weighting_ren f g Hf Hnum Hres). }
    destruct (on_sector s _ (c_secs st)); reflexivity.
  - cbn [c_secs ren_cstate]. rewrite (find_sec_ren f). destruct (find_sec s (c_secs st)); simpl; [|reflexivity].
    unfold ren_cstate. simpl. now rewrite map_app.
  - cbn [c_secs c_classes ren_cstate]. rewrite !(find_sec_ren f).
    destruct (find_sec cb (c_secs st)); simpl; [|reflexivity]. destruct (find_sec tre (c_secs st)); simpl; [|reflexivity].
    unfold ren_cstate. simpl. f_equal. f_equal. rewrite class_of_ren, <- set_nth_map. f_equal.
    destruct (class_of (c_classes st) cb); reflexivity.
Qed.

Theorem run_step_ren st x : step_okb f x = true -> run_step (ren_cstate st) (ren_step f x) = rmap ren_cstate (run_step st x).
Proof.
  intros Hx. destruct x as [c|ci c k|o]; cbn [run_step ren_step].
  - cbn [c_countries ren_cstate]. rewrite (r_mem f g Hf). destruct (mem c (c_countries st)); [reflexivity|].
    unfold ren_cstate. simpl. now rewrite map_app.
  - cbn [c_countries c_secs ren_cstate]. rewrite nth_error_map.
    destruct (nth_error (c_countries st) ci) as [cc|]; simpl; [|reflexivity].
    rewrite (existsb_ren f (fun s => in_country cc s && String.eqb (code s) c)).
    2:{ intros s. rewrite in_country_ren. sf. now rewrite reqb. }
    destruct (existsb _ (c_secs st)); [reflexivity|].
    rewrite market_refs_ren, resolve_markets_ren.
    destruct (resolve_markets (c_secs st) (market_refs k)) as [mrefs|]; simpl; [|reflexivity].
    rewrite (length_ren f). rewrite (construct_ren f g Hf Hnum Hres) by exact Hx.
    destruct (construct _ cc c k mrefs) as [s|]; simpl; [|reflexivity].
    unfold ren_cstate. simpl. unfold ren_zone. now rewrite !map_app.
  - now apply run_op_ren.
Qed.

Lemma foldM_steps p : forallb (step_okb f) p = true -> forall st,
  foldM run_step (map (ren_step f) p) (ren_cstate st) = rmap ren_cstate (foldM run_step p st).
Proof.
  induction p as [|x p IH]; intros Hp st; simpl; [reflexivity|].
  simpl in Hp. apply andb_true_iff in Hp as [H1 H2]. rewrite run_step_ren by exact H1.
  destruct (run_step st x); simpl; [now apply IH|reflexivity].
Qed.

Theorem construct_all_ren p : forallb (step_okb f) p = true ->
  construct_all (rename_program_f f p) = rmap ren_cstate (construct_all p).
Proof. intros Hp. unfold construct_all, rename_program_f. apply (foldM_steps p Hp c_init). Qed.

(** the exogenous declarations recorded by a construction are those of the program *)
Definition exo_okb (x : nat * string * string) : bool := clean (snd x) && starts_sep (snd x).

Lemma run_step_exo st x st' : step_okb f x = true -> run_step st x = Ok st' ->
  forallb exo_okb (c_exo st) = true -> forallb exo_okb (c_exo st') = true.
Proof.
  intros Hx Hs He. destruct x as [c|ci c k|o]; simpl in Hs.
  - destruct (mem c (c_countries st)); [discriminate|]. now injection Hs as <-.
  - destruct (nth_error (c_countries st) ci); [|discriminate]. destruct (existsb _ _); [discriminate|].
    destruct (resolve_markets _ _); [|discriminate]. simpl in Hs. destruct (construct _ _ _ _ _); [|discriminate].
    now injection Hs as <-.
  - destruct o; simpl in Hs, Hx.
    + destruct (on_sector _ _ _); [|discriminate]. now injection Hs as <-.
    + destruct (find_sec _ _); [|discriminate]. injection Hs as <-. simpl. rewrite forallb_app, He. simpl.
      unfold exo_okb. simpl. now rewrite Hx.
    + destruct (find_sec src _); [|discriminate]. destruct (find_sec tgt _); [|discriminate]. now injection Hs as <-.
    + destruct (find_sec market _); [|discriminate]. destruct (find_sec supplier _); [|discriminate].
      destruct (has_add_supplier _); [|discriminate]. destruct (sup_of _ _). now injection Hs as <-.
    + destruct (on_sector _ _ _); [|discriminate]. now injection Hs as <-.
    + destruct (find_sec _ _); [|discriminate]. now injection Hs as <-.
    + destruct (find_sec cb _); [|discriminate]. destruct (find_sec tre _); [|discriminate]. now injection Hs as <-.
Qed.

Lemma construct_all_exo p st : forallb (step_okb f) p = true -> construct_all p = Ok st -> forallb exo_okb (c_exo st) = true.
Proof.
  unfold construct_all. assert (G : forall p st0 st, forallb (step_okb f) p = true -> forallb exo_okb (c_exo st0) = true ->
    foldM run_step p st0 = Ok st -> forallb exo_okb (c_exo st) = true).
  { clear p st. induction p as [|x p IH]; intros st0 st Hp H0 Hr; simpl in *.
    - now injection Hr as <-.
    - apply andb_true_iff in Hp as [H1 H2]. destruct (run_step st0 x) as [st1|] eqn:E1; [|discriminate].
      eapply IH; [exact H2| |exact Hr]. eapply run_step_exo; eauto. }
  intros Hp Hr. exact (G p c_init st Hp eq_refl Hr).
Qed.

(* ------------------------------------------------------------------ *)
(** * Model.main(): full codes and zone order *)

Lemma full_code_ren multi cc c : full_code multi (r cc) (r c) = r (full_code multi cc c).
Proof. unfold full_code. destruct multi; [now rewrite rus|reflexivity]. Qed.

Lemma set_fullcode_ren multi s : set_fullcode multi (S s) = S (set_fullcode multi s).
Proof. unfold set_fullcode, ren_sector. simpl. now rewrite full_code_ren. Qed.

Lemma zone_order_ren cs SL : zone_order (map r cs) (ZZ SL) = ZZ (zone_order cs SL).
Proof.
  unfold zone_order. induction cs as [|cc cs IH]; simpl; [reflexivity|].
  rewrite (filter_ren f (in_country cc)) by (intros; apply in_country_ren).
  rewrite IH. unfold ren_zone. now rewrite map_app.
Qed.

Lemma put_back_ren cc C Z : put_back (r cc) (ZZ C) (ZZ Z) = ZZ (put_back cc C Z).
Proof.
  revert C. induction Z as [|s Z IH]; intros C; simpl; [reflexivity|]. rewrite in_country_ren.
  destruct (in_country cc s).
  - destruct C as [|c C]; simpl; [|now rewrite IH]. f_equal. exact (IH []).
  - now rewrite IH.
Qed.

(* ------------------------------------------------------------------ *)
(** * _GenerateEquations *)

Definition ren_g (st : gstate) : gstate := mkG (ZZ (g_zone st)) (map ren_flow (g_flows st)).
Definition ren_info (I : ginfo) : ginfo := mkI (map (ren_cls f) (i_classes I)) (ren_sup (i_sup I)).

Lemma is_fmb_ren k : is_fmb (ren_cls f k) = is_fmb k.
Proof. destruct k; reflexivity. Qed.

Lemma biz_ids_ren I C : biz_ids (ren_info I) (ZZ C) = biz_ids I C.
Proof.
  unfold biz_ids. cbn [i_classes ren_info].
  rewrite (filter_ren f (fun s => is_fmb (class_of (i_classes I) (sid s)))).
  2:{ intros s. sf. now rewrite class_of_ren, is_fmb_ren. }
  unfold ren_zone. rewrite map_map. reflexivity.
Qed.

Lemma wage_resets_ren mz wage margin lab msg :
  wage_resets mz (r wage) (r margin) (r lab) (r msg) = ren_resets f (wage_resets mz wage margin lab msg).
Proof.
  unfold wage_resets, ren_resets. destruct mz; cbn [map fst snd].
  - now rewrite <- (rpre "DEM_" lab) by reflexivity.
  - rewrite <- (rpre "DEM_" lab) by reflexivity. rewrite (rlit "PROF") by reflexivity.
    rewrite (r_app_r f g Hf wage ("*" ++ msg)), (r_app_r f g Hf margin ("*" ++ msg)) by reflexivity.
    rewrite !(r_app_ends f g Hf "*" msg) by reflexivity.
    now rewrite (rlit "*") by reflexivity.
Qed.

(** the deposit markets of the zone carry codes on which 'INT' + code is renamed consistently *)
Definition is_dep (k : cls) : bool := match k with CDepositMarket _ => true | _ => false end.
Definition int_okb (c : string) : bool := String.eqb (r (int_name c)) (int_name (r c)).

Definition dep_ok (cl : list cls) (Z : zone) : Prop :=
  forall i self, find_sec i Z = Some self -> is_dep (class_of cl i) = true -> int_okb (code self) = true.

Definition rmap_same (rz : result zone) (fl : list flow) : result gstate := do Z' <- rz ;; Ok (mkG Z' fl).

Theorem gen_step_ren I st ik : dep_ok (i_classes I) (g_zone st) -> snd ik = class_of (i_classes I) (fst ik) ->
  gen_step (ren_info I) (ren_g st) (fst ik, ren_cls f (snd ik)) = rmap ren_g (gen_step I st ik).
Proof.
  intros Hdep Hk. destruct ik as [i k]. cbn [fst snd] in *. unfold gen_step. cbn [g_zone ren_g g_flows].
  rewrite (find_sec_ren f). destruct (find_sec i (g_zone st)) as [self|] eqn:Efs; cbn [option_map]; [|reflexivity].
  assert (SF : forall (rz : result zone) (rz' : result zone), rz' = rmap ZZ rz ->
               (do Z' <- rz' ;; Ok (mkG Z' (map ren_flow (g_flows st)))) = rmap ren_g (do Z' <- rz ;; Ok (mkG Z' (g_flows st)))).
  { intros rz rz' ->. destruct rz; reflexivity. }
  destruct k as [| |t|ai af good lab|ai af good lab|ai af good|mz wage margin lab out|mz wage lab ms|rate pt| |iss|iss]; cbn [ren_cls].
  - reflexivity.
  - reflexivity.
  - unfold ren_g. simpl. rewrite map_app. simpl. now rewrite (rlit "INTDEP") by reflexivity.
  - apply SF. apply (upd_ren f). intros s.
    change [("AlphaIncome", r ai); ("AlphaFin", r af)] with [("AlphaIncome", r ai); ("AlphaFin", r af)].
    rewrite <- (rlit "AlphaIncome" eq_refl), <- (rlit "AlphaFin" eq_refl) at 1.
    apply (apply_resets_ren f g Hf [("AlphaIncome", ai); ("AlphaFin", af)]).
  - apply SF. apply (upd_ren f). intros s.
    rewrite <- (rlit "AlphaIncome" eq_refl), <- (rlit "AlphaFin" eq_refl) at 1.
    apply (apply_resets_ren f g Hf [("AlphaIncome", ai); ("AlphaFin", af)]).
  - apply SF. apply (upd_ren f). intros s.
    rewrite <- (rlit "AlphaIncome" eq_refl), <- (rlit "AlphaFin" eq_refl) at 1.
    apply (apply_resets_ren f g Hf [("AlphaIncome", ai); ("AlphaFin", af)]).
  - sf. rewrite (filter_ren f (in_country (country self))) by (intros; apply in_country_ren).
    rewrite (find_ren f (fun s => String.eqb (code s) out)) by (intros s; sf; apply reqb).
    destruct (find (fun s => String.eqb (code s) out) (filter (in_country (country self)) (g_zone st))) as [mk|]; cbn [option_map]; [|reflexivity].
    rewrite <- (rpre "SUP_" out) by reflexivity. rewrite (has_var_ren f g Hf).
    destruct (has_var mk ("SUP_" ++ out)); [|reflexivity].
    apply SF. sf. rewrite <- (rfull (fullcode mk) ("SUP_" ++ out)). rewrite wage_resets_ren, biz_ids_ren.
    rewrite (firm_generate_ren f g Hf Hnum Hres).
    destruct (firm_generate _ _ _) as [C'|]; simpl; [|reflexivity]. now rewrite put_back_ren.
  - rewrite (upd_ren f i (apply_resets [("DEM_" ++ lab, if mz then "SUP" else wage ++ "*SUP")])).
    2:{ intros s. rewrite <- (rpre "DEM_" lab) by reflexivity.
        assert (HT : (if mz then "SUP" else r wage ++ "*SUP") = r (if mz then "SUP" else wage ++ "*SUP")).
        { destruct mz; [now rewrite (rlit "SUP")|]. rewrite (r_app_r f g Hf) by reflexivity. now rewrite (rlit "*SUP"). }
        rewrite HT. apply (apply_resets_ren f g Hf [("DEM_" ++ lab, if mz then "SUP" else wage ++ "*SUP")]). }
    destruct (upd i _ (g_zone st)) as [Z1|]; simpl; [|reflexivity]. sf.
    rewrite (filter_ren f (in_country (country self))) by (intros; apply in_country_ren).
    rewrite (existsb_ren f (fun s => has_var s "DIV")) by (intros; apply (has_var_lit f g Hf Hnum Hres); reflexivity).
    destruct (existsb _ _); reflexivity.
  - apply SF. apply (tax_generate_ren f g Hf Hnum Hres).
  - cbn [i_sup ren_info]. rewrite sup_of_ren. destruct (sup_of i (i_sup I)) as [res others]. unfold ren_supinfo. cbn [fst snd].
    apply SF.
    change (mkWorld (ZZ (g_zone st)) [] None []) with (ren_world f (mkWorld (g_zone st) [] None [])).
    rewrite (market_generate_ren f g Hf Hnum Hres HCUR ACUR HCUR ACUR) by (left; reflexivity).
    destruct (market_generate HCUR ACUR _ i res others); reflexivity.
  - apply SF. sf. apply (money_generate_checked_ren f g Hf Hnum Hres).
  - apply SF. sf. apply (deposit_generate_checked_ren f g Hf Hnum Hres).
    unfold int_ok. apply String.eqb_eq. apply (Hdep i self Efs). now rewrite <- Hk.
Qed.

(* ------------------------------------------------------------------ *)
(** * Registered cash flows, exogenous variables, initial conditions *)

Theorem flow_step_ren Z fl : flow_step (ZZ Z) (ren_flow fl) = rmap ZZ (flow_step Z fl).
Proof.
  destruct fl as [[[[src tgt] var] a] b]. unfold flow_step, ren_flow. destruct tgt as [tg|]; [|reflexivity].
  rewrite !(find_sec_ren f). destruct (find_sec src Z) as [s|]; cbn [option_map]; [|reflexivity].
  destruct (find_sec tg Z); cbn [option_map]; [|reflexivity].
  rewrite (has_var_ren f g Hf). destruct (has_var s var); [|reflexivity]. sf. rewrite <- rfull.
  rewrite (upd_ren f src (fun x => opt_key (add_cash_flow x ((-1)%Z, [fullcode s ++ "__" ++ var]) None a))).
  2:{ intros x. change ((-1)%Z, [r (fullcode s ++ "__" ++ var)]) with (T ((-1)%Z, [fullcode s ++ "__" ++ var])).
      rewrite (add_cash_flow_none f g Hf Hnum Hres). apply opt_key_ren. }
  destruct (upd src _ Z) as [Z1|]; cbn [rmap bind]; [|reflexivity].
  apply (upd_ren f). intros x. change (1%Z, [r (fullcode s ++ "__" ++ var)]) with (T (1%Z, [fullcode s ++ "__" ++ var])).
  rewrite (add_cash_flow_none f g Hf Hnum Hres). apply opt_key_ren.
Qed.

Lemma squeeze_exo spec : clean spec = true -> squeeze ("EXOGENOUS " ++ spec) = "EXOGENOUS" ++ spec.
Proof.
  intros H. unfold squeeze, strip. destruct spec as [|c spec]; [reflexivity|].
  assert (HR : rstrip ("EXOGENOUS " ++ String c spec) = "EXOGENOUS " ++ String c spec).
  { rewrite rstrip_app; rewrite (rstrip_clean _ H); [reflexivity|discriminate]. }
  rewrite HR. change (lstrip ("EXOGENOUS " ++ String c spec)) with ("EXOGENOUS " ++ String c spec).
  rewrite remove_char_app. now rewrite (remove_blank_clean _ H).
Qed.

Theorem exo_step_ren Z x : exo_okb x = true -> exo_step (ZZ Z) (ren_exo x) = rmap ZZ (exo_step Z x).
Proof.
  destruct x as [[s n] spec]. unfold exo_okb. cbn [snd]. intros Hx. apply andb_true_iff in Hx as [H1 H2].
  unfold exo_step, ren_exo. rewrite (find_sec_ren f). destruct (find_sec s Z); cbn [option_map]; [|reflexivity].
  apply (upd_ren f). intros y. rewrite !squeeze_exo by (try exact H1; now rewrite (clean_R f g Hf)).
  assert (HE : "EXOGENOUS" ++ r spec = r ("EXOGENOUS" ++ spec)).
  { rewrite (r_app_r f g Hf) by exact H2. now rewrite (rlit "EXOGENOUS") by reflexivity. }
  rewrite HE, (set_rhs_ren f g Hf). apply opt_key_ren.
Qed.

Definition ren_ic := ren_ic f.

Theorem ic_rows_ren Z l : ic_rows (ZZ Z) (map ren_icd l) = rmap (map ren_ic) (ic_rows Z l).
Proof.
  induction l as [|[[s n] v] l IH]; [reflexivity|]. cbn [map ic_rows ren_icd]. rewrite (find_sec_ren f).
  destruct (find_sec s Z) as [x|]; cbn [option_map]; [|reflexivity].
  rewrite (has_var_ren f g Hf). destruct (has_var x n); [|reflexivity]. rewrite IH.
  destruct (ic_rows Z l); cbn [rmap bind map]; [|reflexivity]. unfold ren_ic, Ren.ren_ic. cbn [fst snd]. sf. now rewrite rfull.
Qed.

(* ------------------------------------------------------------------ *)
(** * The run, step by step *)

Lemma dep_ok_frame cl Z Z' : Forall2 frame Z Z' -> dep_ok cl Z -> dep_ok cl Z'.
Proof.
  intros HF Hd i self' Hfs Hk. assert (exists self, find_sec i Z = Some self /\ code self = code self').
  { clear Hd Hk. revert Hfs. induction HF as [|s s' Z Z' Hs _ IH]; simpl; [discriminate|].
    unfold find_sec in *. simpl. rewrite Hs. simpl. destruct (Nat.eqb (sid s) i).
    - intros H. injection H as <-. exists s. split; [reflexivity|]. now rewrite Hs.
    - exact IH. }
  destruct H as (self & H1 & H2). rewrite <- H2. now apply (Hd i self).
Qed.

Lemma gen_steps_ren I l : forall st, dep_ok (i_classes I) (g_zone st) ->
  Forall (fun ik => snd ik = class_of (i_classes I) (fst ik)) l ->
  foldM (gen_step (ren_info I)) (map (fun ik => (fst ik, ren_cls f (snd ik))) l) (ren_g st) = rmap ren_g (foldM (gen_step I) l st).
Proof.
  induction l as [|ik l IH]; intros st Hd Hl; [reflexivity|]. cbn [map foldM].
  inversion Hl as [|? ? H1 H2]; subst. rewrite gen_step_ren by assumption.
  destruct (gen_step I st ik) as [st1|] eqn:E1; cbn [rmap]; [|reflexivity].
  apply IH; [|exact H2]. eapply dep_ok_frame; [|exact Hd].
  destruct ik as [i k]. eapply zstep_frame. eapply gen_step_zstep. exact E1.
Qed.

Lemma run_trace_foldM {A B} (fn : A -> B -> result A) l : forall a,
  rmap snd (run_trace fn l a) = foldM fn l a.
Proof.
  induction l as [|b l IH]; intros a; simpl; [reflexivity|]. destruct (fn a b) as [a1|]; simpl; [|reflexivity].
  rewrite <- IH. destruct (run_trace fn l a1); reflexivity.
Qed.

Lemma flow_steps_ren l : forall Z, foldM flow_step (map ren_flow l) (ZZ Z) = rmap ZZ (foldM flow_step l Z).
Proof. intros Z. apply (foldM_ren ZZ ren_flow flow_step flow_step l). intros; apply flow_step_ren. Qed.

Lemma exo_steps_ren l : forallb exo_okb l = true -> forall Z, foldM exo_step (map ren_exo l) (ZZ Z) = rmap ZZ (foldM exo_step l Z).
Proof.
  induction l as [|x l IH]; intros Hl Z; simpl; [reflexivity|]. simpl in Hl. apply andb_true_iff in Hl as [H1 H2].
  rewrite exo_step_ren by exact H1. destruct (exo_step Z x); simpl; [now apply IH|reflexivity].
Qed.

(** the final zone and initial conditions of a construction state (what main_run computes before
    it emits the rows) *)
Definition final_zone (st : cstate) : result (zone * list (string * string)) :=
  let multi := Nat.ltb 1 (List.length (c_countries st)) in
  let Z0 := zone_order (c_countries st) (map (set_fullcode multi) (c_secs st)) in
  let I := mkI (c_classes st) (c_sup st) in
  do gf <- foldM (gen_step I) (map (fun s => (sid s, class_of (c_classes st) (sid s))) Z0) (mkG Z0 (c_flows st)) ;;
  do Z1 <- foldM flow_step (g_flows gf) (g_zone gf) ;;
  do Zf <- foldM exo_step (c_exo st) Z1 ;;
  do ics <- ic_rows Zf (c_ic st) ;;
  Ok (Zf, ics).

Definition emit (x : zone * list (string * string)) : result final_system :=
  match zone_rows (fst x), snd x with
  | [], [] => Err Warning_
  | _, _ => Ok (mkFS (fst x) (zone_rows (fst x)) (snd x))
  end.

Lemma main_run_final st : rmap r_final (main_run st) = bind (final_zone st) emit.
Proof.
  unfold main_run, final_zone.
  set (Z0 := zone_order (c_countries st) (map (set_fullcode (Nat.ltb 1 (List.length (c_countries st)))) (c_secs st))).
  set (I := mkI (c_classes st) (c_sup st)).
  rewrite <- (run_trace_foldM (gen_step I)).
  destruct (run_trace (gen_step I) _ (mkG Z0 (c_flows st))) as [[tg gf]|]; simpl; [|reflexivity].
  rewrite <- (run_trace_foldM flow_step).
  destruct (run_trace flow_step (g_flows gf) (g_zone gf)) as [[tf Z1]|]; simpl; [|reflexivity].
  rewrite <- (run_trace_foldM exo_step).
  destruct (run_trace exo_step (c_exo st) Z1) as [[tx Zf]|]; simpl; [|reflexivity].
  destruct (ic_rows Zf (c_ic st)) as [ics|]; simpl; [|reflexivity].
  unfold emit. simpl. destruct (zone_rows Zf); [destruct ics|]; reflexivity.
Qed.

Definition ren_zi (x : zone * list (string * string)) : zone * list (string * string) := (ZZ (fst x), map ren_ic (snd x)).

Definition dep_okb (st : cstate) : bool :=
  let Z0 := zone_order (c_countries st) (c_secs st) in
  forallb (fun s => if is_dep (class_of (c_classes st) (sid s))
                    then match find_sec (sid s) Z0 with Some self => int_okb (code self) | None => true end
                    else true) Z0.

Lemma find_sec_In i Z s : find_sec i Z = Some s -> List.In s Z /\ sid s = i.
Proof.
  unfold find_sec. intros H. apply find_some in H as [H1 H2]. split; [exact H1|now apply Nat.eqb_eq].
Qed.

Lemma find_sec_map_code h i Z : (forall s, sid (h s) = sid s) -> (forall s, code (h s) = code s) ->
  option_map code (find_sec i (map h Z)) = option_map code (find_sec i Z).
Proof.
  intros H1 H2. unfold find_sec. induction Z as [|s Z IH]; simpl; [reflexivity|]. rewrite H1.
  destruct (Nat.eqb (sid s) i); simpl; [now rewrite H2|exact IH].
Qed.

Lemma zone_order_map h cs SL : (forall s, country (h s) = country s) ->
  zone_order cs (map h SL) = map h (zone_order cs SL).
Proof.
  intros Hc. unfold zone_order. induction cs as [|cc cs IH]; simpl; [reflexivity|]. rewrite IH, map_app. f_equal.
  clear IH. induction SL as [|s SL IH2]; simpl; [reflexivity|].
  assert (Hs : in_country cc (h s) = in_country cc s) by (unfold in_country; now rewrite Hc). rewrite Hs.
  destruct (in_country cc s); simpl; now rewrite IH2.
Qed.

Lemma dep_okb_ok st multi : dep_okb st = true ->
  dep_ok (c_classes st) (zone_order (c_countries st) (map (set_fullcode multi) (c_secs st))).
Proof.
  intros H i self Hfs Hk. unfold dep_okb in H. rewrite forallb_forall in H.
  rewrite zone_order_map in Hfs by reflexivity.
  set (Z0 := zone_order (c_countries st) (c_secs st)) in *.
  assert (HC := find_sec_map_code (set_fullcode multi) i Z0 (fun _ => eq_refl) (fun _ => eq_refl)).
  rewrite Hfs in HC. simpl in HC. destruct (find_sec i Z0) as [s0|] eqn:E0; [|discriminate].
  simpl in HC. injection HC as HC. destruct (find_sec_In _ _ _ E0) as [Hin Hsid].
  specialize (H s0 Hin). rewrite Hsid, Hk, E0 in H. now rewrite HC.
Qed.

Theorem final_zone_ren st : dep_okb st = true -> forallb exo_okb (c_exo st) = true ->
  final_zone (ren_cstate st) = rmap ren_zi (final_zone st).
Proof.
  intros Hd He. unfold final_zone. cbn [c_countries c_secs c_classes c_sup c_flows c_exo c_ic ren_cstate].
  rewrite map_length.
  set (multi := Nat.ltb 1 (List.length (c_countries st))).
  assert (HZ0 : zone_order (map r (c_countries st)) (map (set_fullcode multi) (ZZ (c_secs st))) =
                ZZ (zone_order (c_countries st) (map (set_fullcode multi) (c_secs st)))).
  { rewrite <- zone_order_ren. f_equal. unfold ren_zone. rewrite !map_map. apply map_ext. intros s. apply set_fullcode_ren. }
  rewrite HZ0. set (Z0 := zone_order (c_countries st) (map (set_fullcode multi) (c_secs st))).
  change (mkI (map (ren_cls f) (c_classes st)) (ren_sup (c_sup st))) with (ren_info (mkI (c_classes st) (c_sup st))).
  change (mkG (ZZ Z0) (map ren_flow (c_flows st))) with (ren_g (mkG Z0 (c_flows st))).
  assert (HL : map (fun s => (sid s, class_of (map (ren_cls f) (c_classes st)) (sid s))) (ZZ Z0) =
               map (fun ik => (fst ik, ren_cls f (snd ik))) (map (fun s => (sid s, class_of (c_classes st) (sid s))) Z0)).
  { unfold ren_zone. rewrite !map_map. apply map_ext. intros s. sf. now rewrite class_of_ren. }
  rewrite HL. rewrite gen_steps_ren.
  2:{ apply dep_okb_ok. exact Hd. }
  2:{ apply Forall_forall. intros ik Hin. apply in_map_iff in Hin as (s & <- & _). reflexivity. }
  destruct (foldM (gen_step _) _ (mkG Z0 (c_flows st))) as [gf|]; simpl; [|reflexivity].
  rewrite flow_steps_ren. destruct (foldM flow_step (g_flows gf) (g_zone gf)) as [Z1|]; simpl; [|reflexivity].
  rewrite exo_steps_ren by exact He. destruct (foldM exo_step (c_exo st) Z1) as [Zf|]; simpl; [|reflexivity].
  rewrite ic_rows_ren. destruct (ic_rows Zf (c_ic st)); reflexivity.
Qed.

End MainEq.
