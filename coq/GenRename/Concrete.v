(** Finite renamings: a list of pairs (old piece, new piece) that is a permutation of a finite set
    of well-formed pieces, the identity elsewhere.  (An injective renaming of the codes in use onto
    fresh codes is the restriction of such a permutation: add the pairs (new, old).) *)
From Coq Require Import List String Ascii Bool ZArith Arith Lia.
From SFC.Base Require Import Res Str.
From SFC.GenMain2 Require Import Program Main.
From SFC.GenRename Require Import RStr RFix Ren QScan.
Import ListNotations.
Local Open Scope string_scope.

(** 'e5', 'E12' (would change the float literal 1.e5), 'j', 'J' (1.j) *)
Definition exp_like (x : string) : bool :=
  match x with
  | String c r =>
      ((Ascii.eqb c "e"%char || Ascii.eqb c "E"%char) && negb (String.eqb r "") &&
       (fix dig (s : string) := match s with EmptyString => true | String d t => is_dig d && dig t end) r)
      || ((Ascii.eqb c "j"%char || Ascii.eqb c "J"%char) && String.eqb r "")
  | EmptyString => false
  end.

(** a piece a renaming may move: a non-empty alphanumeric word starting with a letter, not one of
    the words the library writes itself, not containing the word EXOGENOUS (rows are classified by
    that substring), not the tail of a numeric literal *)
Definition piece_ok (x : string) : bool :=
  all_an x && head_let x && negb (mem x reserved) && negb (has_substring "EXOGENOUS" x) && negb (exp_like x).

Fixpoint nodups (l : list string) : bool :=
  match l with [] => true | x :: r => negb (mem x r) && nodups r end.

Definition perm_ok (rho : renaming) : bool :=
  forallb (fun ab => piece_ok (fst ab) && piece_ok (snd ab)) rho &&
  nodups (map fst rho) && nodups (map snd rho) &&
  forallb (fun v => mem v (map fst rho)) (map snd rho) &&
  forallb (fun k => mem k (map snd rho)) (map fst rho).

Lemma nodups_NoDup l : nodups l = true -> NoDup l.
Proof.
  induction l as [|x l IH]; simpl; [constructor|]. intros H. apply andb_true_iff in H as [H1 H2].
  constructor; [|now apply IH]. intros Hin. apply mem_In in Hin. rewrite Hin in H1. discriminate.
Qed.

Lemma ap_notin rho x : ~ List.In x (map fst rho) -> ap rho x = x.
Proof.
  induction rho as [|[a b] rho IH]; simpl; [reflexivity|]. intros H.
  destruct (String.eqb_spec x a) as [->|Hn]; [exfalso; apply H; now left|]. apply IH. intros Hin. apply H. now right.
Qed.

Lemma ap_in rho a b : NoDup (map fst rho) -> List.In (a, b) rho -> ap rho a = b.
Proof.
  induction rho as [|[a' b'] rho IH]; simpl; [contradiction|]. intros Hnd Hin. inversion Hnd as [|? ? Hn Hnd']; subst.
  destruct Hin as [Hin|Hin].
  - injection Hin as -> ->. now rewrite String.eqb_refl.
  - destruct (String.eqb_spec a a') as [->|Hne]; [|now apply IH].
    exfalso. apply Hn. apply in_map_iff. exists (a', b). split; [reflexivity|exact Hin].
Qed.

Lemma ap_cases rho x : (ap rho x = x /\ ~ List.In x (map fst rho)) \/ List.In (x, ap rho x) rho.
Proof.
  induction rho as [|[a b] rho IH]; simpl; [left; split; [reflexivity|tauto]|].
  destruct (String.eqb_spec x a) as [->|Hn]; [right; now left|].
  destruct IH as [[H1 H2]|H]; [left; split; [exact H1|]|right; now right]. intros [H|H]; [simpl in H; congruence|contradiction].
Qed.

Lemma inv_fst rho : map fst (inv rho) = map snd rho.
Proof. unfold inv. rewrite map_map. reflexivity. Qed.
Lemma inv_snd rho : map snd (inv rho) = map fst rho.
Proof. unfold inv. rewrite map_map. reflexivity. Qed.
Lemma inv_In rho a b : List.In (a, b) rho -> List.In (b, a) (inv rho).
Proof. intros H. unfold inv. apply in_map_iff. exists (a, b). split; [reflexivity|exact H]. Qed.

Lemma perm_ok_inv rho : perm_ok rho = true -> perm_ok (inv rho) = true.
Proof.
  unfold perm_ok. rewrite !inv_fst, !inv_snd. intros H.
  apply andb_true_iff in H as [H H5]. apply andb_true_iff in H as [H H4]. apply andb_true_iff in H as [H H3].
  apply andb_true_iff in H as [H1 H2]. rewrite H2, H3, H4, H5, !andb_true_r.
  unfold inv. rewrite forallb_forall in *. intros [a b] Hin. apply in_map_iff in Hin as ([a' b'] & E & Hin).
  injection E as <- <-. specialize (H1 (a', b') Hin). simpl in *. now rewrite andb_comm.
Qed.

Section Perm.
Variable rho : renaming.
Hypothesis Hok : perm_ok rho = true.

Let parts : forallb (fun ab => piece_ok (fst ab) && piece_ok (snd ab)) rho = true /\
  NoDup (map fst rho) /\ NoDup (map snd rho) /\
  (forall v, List.In v (map snd rho) -> List.In v (map fst rho)) /\
  (forall k, List.In k (map fst rho) -> List.In k (map snd rho)).
Proof.
  unfold perm_ok in Hok.
  apply andb_true_iff in Hok as [H H5]. apply andb_true_iff in H as [H H4]. apply andb_true_iff in H as [H H3].
  apply andb_true_iff in H as [H1 H2]. split; [exact H1|]. split; [now apply nodups_NoDup|]. split; [now apply nodups_NoDup|].
  rewrite forallb_forall in H4, H5. split; intros x Hx; apply mem_In; auto.
Qed.

Lemma key_ok k : List.In k (map fst rho) -> piece_ok k = true.
Proof.
  destruct parts as (H1 & _). rewrite forallb_forall in H1. intros Hin. apply in_map_iff in Hin as ([a b] & <- & Hin).
  specialize (H1 _ Hin). now apply andb_true_iff in H1 as [H1 _].
Qed.

Lemma val_ok v : List.In v (map snd rho) -> piece_ok v = true.
Proof.
  destruct parts as (H1 & _). rewrite forallb_forall in H1. intros Hin. apply in_map_iff in Hin as ([a b] & <- & Hin).
  specialize (H1 _ Hin). now apply andb_true_iff in H1 as [_ H1].
Qed.

Lemma ap_inv x : ap (inv rho) (ap rho x) = x.
Proof.
  destruct parts as (_ & Nk & Nv & Hvk & _).
  destruct (ap_cases rho x) as [[E Hn]|Hin].
  - rewrite E. apply ap_notin. rewrite inv_fst. intros Hv. apply Hn. now apply Hvk.
  - apply ap_in; [now rewrite inv_fst|]. now apply inv_In.
Qed.

Lemma piece_ok_parts x : piece_ok x = true ->
  all_an x = true /\ head_let x = true /\ mem x reserved = false /\ x <> "".
Proof.
  unfold piece_ok. intros H. apply andb_true_iff in H as [H _]. apply andb_true_iff in H as [H _]. apply andb_true_iff in H as [H H3].
  apply andb_true_iff in H as [H1 H2]. apply negb_true_iff in H3. repeat split; try assumption.
  intros ->. discriminate.
Qed.

Lemma piece_ok_exo x : piece_ok x = true -> has_substring "EXOGENOUS" x = false.
Proof.
  unfold piece_ok. intros H. apply andb_true_iff in H as [H _]. apply andb_true_iff in H as [_ H]. now apply negb_true_iff.
Qed.

Lemma ap_okmap : okmap (ap rho) (ap (inv rho)).
Proof.
  constructor.
  - apply ap_notin. intros Hin. apply key_ok in Hin. apply piece_ok_parts in Hin as (_ & _ & _ & H). congruence.
  - intros x Hx. destruct (ap_cases rho x) as [[E _]|Hin]; [now rewrite E|].
    assert (Hv : List.In (ap rho x) (map snd rho)) by (apply in_map_iff; exists (x, ap rho x); split; [reflexivity|exact Hin]).
    apply val_ok in Hv. now apply piece_ok_parts in Hv as (H & _).
  - apply ap_inv.
Qed.

Lemma ap_num x : head_dig x = true -> ap rho x = x.
Proof.
  intros Hd. apply ap_notin. intros Hin. apply key_ok in Hin. apply piece_ok_parts in Hin as (_ & HL & _).
  destruct x as [|c x]; [discriminate|]. simpl in *. rewrite (let_not_dig c HL) in Hd. discriminate.
Qed.

Lemma ap_res x : mem x reserved = true -> ap rho x = x.
Proof.
  intros Hr. apply ap_notin. intros Hin. apply key_ok in Hin. apply piece_ok_parts in Hin as (_ & _ & H & _). congruence.
Qed.

(** pieces that contain the word EXOGENOUS are not moved, and no piece is moved onto one *)
Lemma ap_exo_cases x : ap rho x = x \/ (has_substring "EXOGENOUS" x = false /\ has_substring "EXOGENOUS" (ap rho x) = false).
Proof.
  destruct (ap_cases rho x) as [[E _]|Hin]; [now left|]. right. split.
  - apply piece_ok_exo, key_ok. apply in_map_iff. exists (x, ap rho x). split; [reflexivity|exact Hin].
  - apply piece_ok_exo, val_ok. apply in_map_iff. exists (x, ap rho x). split; [reflexivity|exact Hin].
Qed.

End Perm.

Lemma ap_okmap_inv rho : perm_ok rho = true -> okmap (ap (inv rho)) (ap rho).
Proof.
  intros H. assert (H2 := ap_okmap (inv rho) (perm_ok_inv rho H)).
  assert (E : inv (inv rho) = rho).
  { unfold inv. rewrite map_map. rewrite <- (map_id rho) at 2. apply map_ext. now intros [a b]. }
  now rewrite E in H2.
Qed.
