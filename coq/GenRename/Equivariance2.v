(** The multi-currency pipeline commutes with a renaming:
      build2 (rename_program2 p) = rename_system (build2 p)
    for every piece map with inverse that fixes the reserved words, under [renaming_ok2_f]. *)
From Coq Require Import List String Ascii Bool ZArith Arith Lia Permutation.
From SFC.Base Require Import Res Str Sorting.
From SFC.Gen Require Import Fx Zone.
From SFC.GenMarket Require Import Market.
From SFC.GenTax Require Import TaxProofs.
From SFC.GenMain2 Require Import Program Classes Main Ledger MainProofs Program2 Main2 Ledger2.
From SFC.GenRename Require Import RStr RFix Ren ZoneEq MarketEq ConsEq MainEq QScan RowEq Equivariance Cons2Eq Main2Eq.
Import ListNotations.
Local Open Scope string_scope.

(** what main_run2 computes before it emits the rows *)
Definition final_zone2 (st : kstate) : result (zone * list (string * string)) :=
  let multi := Nat.ltb 1 (List.length (k_countries st)) in
  let Z0 := zone_order (map fst (k_countries st)) (map (set_fullcode multi) (k_secs st)) in
  let J := mkI2 (k_classes st) (k_sup st) (k_countries st) (k_ext st) in
  do gf <- foldM (gen_step2 J) (map (fun s => (sid s, class_of2 (k_classes st) (sid s))) Z0) (mkG2 Z0 (k_flows st) (k_ic st)) ;;
  do Z1 <- foldM (flow_step2 J) (h_flows gf) (h_zone gf) ;;
  do Zf <- foldM exo_step (k_exo st) Z1 ;;
  do ics <- ic_rows Zf (h_ic gf) ;;
  Ok (Zf, ics).

Lemma main_run2_final st : rmap q_final (main_run2 st) = bind (final_zone2 st) emit.
Proof.
  unfold main_run2, final_zone2.
  set (Z0 := zone_order (map fst (k_countries st)) (map (set_fullcode (Nat.ltb 1 (List.length (k_countries st)))) (k_secs st))).
  set (J := mkI2 (k_classes st) (k_sup st) (k_countries st) (k_ext st)).
  rewrite <- (run_trace_foldM (gen_step2 J)).
  destruct (run_trace (gen_step2 J) _ (mkG2 Z0 (k_flows st) (k_ic st))) as [[tg gf]|]; simpl; [|reflexivity].
  rewrite <- (run_trace_foldM (flow_step2 J)).
  destruct (run_trace (flow_step2 J) (h_flows gf) (h_zone gf)) as [[tf Z1]|]; simpl; [|reflexivity].
  rewrite <- (run_trace_foldM exo_step).
  destruct (run_trace exo_step (k_exo st) Z1) as [[tx Zf]|]; simpl; [|reflexivity].
  destruct (ic_rows Zf (h_ic gf)) as [ics|]; simpl; [|reflexivity].
  unfold emit. simpl. destruct (zone_rows Zf); [destruct ics|]; reflexivity.
Qed.

Lemma build2_final p : build2 p = bind (construct_all2 p) (fun st => bind (final_zone2 st) emit).
Proof.
  unfold build2, build_run2. destruct (construct_all2 p) as [st|]; simpl; [|reflexivity].
  rewrite <- main_run2_final. destruct (main_run2 st); reflexivity.
Qed.

Section Main2.
Variables f g : string -> string.

Notation r := (R f).
Notation ZZ := (ren_zone f).

Definition zone02 (st : kstate) : zone :=
  zone_order (map fst (k_countries st)) (map (set_fullcode (Nat.ltb 1 (List.length (k_countries st)))) (k_secs st)).

(** full codes without white space *)
Definition zclean_b (st : kstate) : bool := forallb (fun s => clean (fullcode s)) (zone02 st).

Definition dep_okb2 (st : kstate) : bool :=
  let Z0 := zone02 st in
  forallb (fun s => if is_dep2 (class_of2 (k_classes st) (sid s))
                    then match find_sec (sid s) Z0 with Some self => int_okb f (code self) | None => true end
                    else true) Z0.

Definition renaming_ok2_f (p : program2) : bool :=
  forallb (step2_okb f) p &&
  match construct_all2 p with
  | Ok st => zclean_b st && dep_okb2 st && match final_zone2 st with Ok x => stable_b f (fst x) | Err _ => true end
  | Err _ => true
  end.

Hypothesis Hf : okmap f g.
Hypothesis Hnum : forall x, head_dig x = true -> f x = x.
Hypothesis Hres : forall x, mem x reserved = true -> f x = x.

Lemma run_step2_exo st x st' : step2_okb f x = true -> run_step2 st x = Ok st' ->
  forallb exo_okb (k_exo st) = true -> forallb exo_okb (k_exo st') = true.
Proof.
  intros Hx Hs He.
  assert (AC : forall s c cur s', add_country s c cur = Ok s' -> k_exo s' = k_exo s).
  { intros s c cur s'. unfold add_country. destruct (mem c _); [discriminate|].
    destruct (match k_ext s with Some _ => _ | None => _ end); [|discriminate]. cbn [bind]. intros H. now injection H as <-. }
  assert (AS : forall s ci c k s', add_sector s ci c k = Ok s' -> k_exo s' = k_exo s).
  { intros s ci c k s'. unfold add_sector. destruct (nth_error _ ci) as [[cc cur]|]; [|discriminate].
    destruct (existsb _ _); [discriminate|]. destruct (resolve_markets _ _); [|discriminate]. cbn [bind].
    destruct (construct2 _ _ _ _ _); [|discriminate]. cbn [bind]. intros H. now injection H as <-. }
  destruct x as [c cur rg| |ci c k|o]; cbn [run_step2] in Hs.
  - now rewrite (AC _ _ _ _ Hs).
  - destruct (k_ext st); [discriminate|].
    destruct (add_country st "EXT" "NUMERAIRE") as [st1|] eqn:E1; cbn [bind] in Hs; [|discriminate].
    destruct (add_sector st1 _ "XR" CXR) as [st2|] eqn:E2; cbn [bind] in Hs; [|discriminate].
    destruct (add_sector st2 _ "FX" CFX) as [st3|] eqn:E3; cbn [bind] in Hs; [|discriminate].
    destruct (add_sector st3 _ "GOLD" CGOLD) as [st4|] eqn:E4; cbn [bind] in Hs; [|discriminate].
    destruct (register_all _ _ _); cbn [bind] in Hs; [|discriminate]. injection Hs as <-. cbn [k_exo].
    now rewrite (AS _ _ _ _ _ E4), (AS _ _ _ _ _ E3), (AS _ _ _ _ _ E2), (AC _ _ _ _ E1).
  - now rewrite (AS _ _ _ _ _ Hs).
  - destruct o as [o|s m]; [destruct o|]; cbn [run_op2] in Hs; cbn [step2_okb] in Hx;
      repeat match type of Hs with
             | bind ?x _ = _ => destruct x; cbn [bind] in Hs; [|discriminate]
             | match ?x with _ => _ end = _ => destruct x; try discriminate
             | (let '(_, _) := ?x in _) = _ => destruct x
             end; try (injection Hs as <-; cbn; exact He).
    injection Hs as <-. cbn [k_exo]. rewrite forallb_app, He. cbn [forallb andb]. unfold exo_okb. cbn [snd]. cbn [uop_okb] in Hx. now rewrite Hx.
Qed.

Lemma construct_all2_exo p st : forallb (step2_okb f) p = true -> construct_all2 p = Ok st -> forallb exo_okb (k_exo st) = true.
Proof.
  unfold construct_all2. assert (G : forall p st0 st, forallb (step2_okb f) p = true -> forallb exo_okb (k_exo st0) = true ->
    foldM run_step2 p st0 = Ok st -> forallb exo_okb (k_exo st) = true).
  { clear p st. induction p as [|x p IH]; intros st0 st Hp H0 Hr; simpl in *.
    - now injection Hr as <-.
    - apply andb_true_iff in Hp as [H1 H2]. destruct (run_step2 st0 x) as [st1|] eqn:E1; [|discriminate].
      eapply IH; [exact H2| |exact Hr]. eapply run_step2_exo; eauto. }
  intros Hp Hr. exact (G p k_init st Hp eq_refl Hr).
Qed.

Lemma dep_ok2_frame cl Z Z' : Forall2 frame Z Z' -> dep_ok2 f cl Z -> dep_ok2 f cl Z'.
Proof.
  intros HF Hd i self' Hfs Hk. assert (exists self, find_sec i Z = Some self /\ code self = code self').
  { clear Hd Hk. revert Hfs. induction HF as [|s s' Z Z' Hs _ IH]; simpl; [discriminate|].
    unfold find_sec in *. simpl. rewrite Hs. simpl. destruct (Nat.eqb (sid s) i).
    - intros H. injection H as <-. exists s. split; [reflexivity|]. now rewrite Hs.
    - exact IH. }
  destruct H as (self & H1 & H2). rewrite <- H2. now apply (Hd i self).
Qed.

Lemma gen_steps2_ren J l : jinv J -> forall st, zinv (h_zone st) -> dep_ok2 f (j_classes J) (h_zone st) ->
  Forall (fun ik => snd ik = class_of2 (j_classes J) (fst ik)) l ->
  foldM (gen_step2 (ren_info2 f J)) (map (fun ik => (fst ik, ren_cls2 f (snd ik))) l) (ren_g2 f st) =
  rmap (ren_g2 f) (foldM (gen_step2 J) l st).
Proof.
  intros HJ. induction l as [|ik l IH]; intros st HZ Hd Hl; [reflexivity|]. cbn [map foldM].
  inversion Hl as [|? ? H1 H2]; subst. rewrite (gen_step2_ren f g Hf Hnum Hres) by assumption.
  destruct (gen_step2 J st ik) as [st1|] eqn:E1; cbn [rmap]; [|reflexivity].
  assert (FR : Forall2 frame (h_zone st) (h_zone st1)).
  { destruct ik as [i k]. eapply zstep_frame. eapply gen_step2_zstep. exact E1. }
  apply IH; [eapply zinv_frame; eauto|eapply dep_ok2_frame; eauto|exact H2].
Qed.

Lemma flow_steps2_ren J l : jinv J -> forall Z,
  foldM (flow_step2 (ren_info2 f J)) (map (ren_flow f) l) (ZZ Z) = rmap ZZ (foldM (flow_step2 J) l Z).
Proof.
  intros HJ Z. apply (foldM_ren ZZ (ren_flow f) (flow_step2 J) (flow_step2 (ren_info2 f J)) l).
  intros; now apply (flow_step2_ren f g Hf Hnum Hres).
Qed.

Lemma dep_okb2_ok st : dep_okb2 st = true -> dep_ok2 f (k_classes st) (zone02 st).
Proof.
  intros H i self Hfs Hk. unfold dep_okb2 in H. rewrite forallb_forall in H.
  destruct (find_sec_In _ _ _ Hfs) as [Hin Hsid]. specialize (H self Hin). now rewrite Hsid, Hk, Hfs in H.
Qed.

Lemma kinv_jinv st : kinv st -> jinv (mkI2 (k_classes st) (k_sup st) (k_countries st) (k_ext st)).
Proof.
  intros [_ K]. unfold jinv. cbn. rewrite forallb_forall in *. intros cc Hin. specialize (K cc Hin).
  unfold cur_okb in K. now apply andb_true_iff in K as [K _].
Qed.

Theorem final_zone2_ren st : kinv st -> zclean_b st = true -> dep_okb2 st = true -> forallb exo_okb (k_exo st) = true ->
  final_zone2 (ren_kstate f st) = rmap (ren_zi f) (final_zone2 st).
Proof.
  intros HK HZ Hd He. unfold final_zone2. cbv zeta. fold (zone02 st).
  cbn [k_countries k_secs k_classes k_sup k_flows k_exo k_ic k_ext ren_kstate].
  rewrite map_length. set (multi := Nat.ltb 1 (List.length (k_countries st))).
  assert (HZ0 : zone_order (map fst (map (ren_cc f) (k_countries st))) (map (set_fullcode multi) (ZZ (k_secs st))) = ZZ (zone02 st)).
  { unfold zone02. fold multi. rewrite <- (zone_order_ren f g Hf). f_equal.
    - rewrite !map_map. reflexivity.
    - unfold ren_zone. rewrite !map_map. apply map_ext. intros s. apply (set_fullcode_ren f g Hf Hnum Hres). }
  rewrite HZ0. set (Z0 := zone02 st).
  set (J := mkI2 (k_classes st) (k_sup st) (k_countries st) (k_ext st)).
  change (mkI2 (map (ren_cls2 f) (k_classes st)) (ren_sup f (k_sup st)) (map (ren_cc f) (k_countries st)) (k_ext st)) with (ren_info2 f J).
  change (mkG2 (ZZ Z0) (map (ren_flow f) (k_flows st)) (map (ren_icd f) (k_ic st))) with (ren_g2 f (mkG2 Z0 (k_flows st) (k_ic st))).
  assert (HL : map (fun s => (sid s, class_of2 (map (ren_cls2 f) (k_classes st)) (sid s))) (ZZ Z0) =
               map (fun ik => (fst ik, ren_cls2 f (snd ik))) (map (fun s => (sid s, class_of2 (k_classes st) (sid s))) Z0)).
  { unfold ren_zone. rewrite !map_map. apply map_ext. intros s. cbn [sid ren_sector fst snd]. now rewrite (class_of2_ren f). }
  rewrite HL. assert (HJ : jinv J) by (now apply kinv_jinv).
  rewrite gen_steps2_ren; [|exact HJ|exact HZ|now apply dep_okb2_ok|].
  2:{ apply Forall_forall. intros ik Hin. apply in_map_iff in Hin as (s & <- & _). reflexivity. }
  destruct (foldM (gen_step2 J) _ (mkG2 Z0 (k_flows st) (k_ic st))) as [gf|]; cbn [rmap bind]; [|reflexivity].
  cbn [h_flows h_zone h_ic ren_g2]. rewrite flow_steps2_ren by exact HJ.
  destruct (foldM (flow_step2 J) (h_flows gf) (h_zone gf)) as [Z1|]; cbn [rmap bind]; [|reflexivity].
  rewrite (exo_steps_ren f g Hf Hnum Hres) by exact He. destruct (foldM exo_step (k_exo st) Z1) as [Zf|]; cbn [rmap bind]; [|reflexivity].
  rewrite (ic_rows_ren f g Hf Hnum Hres). destruct (ic_rows Zf (h_ic gf)); reflexivity.
Qed.

Theorem build2_ren p : renaming_ok2_f p = true ->
  build2 (rename_program2_f f p) = rmap (rename_system_f f) (build2 p).
Proof.
  unfold renaming_ok2_f. intros H. apply andb_true_iff in H as [Hp H]. rewrite !build2_final.
  destruct (construct_all2_ren f g Hf Hnum Hres p Hp) as [EC KI]. rewrite EC.
  destruct (construct_all2 p) as [st|] eqn:Ec; cbn [rmap bind]; [|reflexivity].
  apply andb_true_iff in H as [H Hst]. apply andb_true_iff in H as [Hz Hd].
  rewrite final_zone2_ren; [|now apply KI|exact Hz|exact Hd|eapply construct_all2_exo; eauto].
  destruct (final_zone2 st) as [x|]; cbn [rmap bind]; [|reflexivity]. now apply (emit_ren f g Hf Hnum Hres).
Qed.

End Main2.
