(** TaxFlow._GenerateEquations and the dividend part of FixedMarginBusiness._GenerateEquations
    (coq/GenTax) commute with a renaming. *)
From Coq Require Import List String Ascii Bool ZArith Arith.
From SFC.Base Require Import Res Str.
From SFC.Gen Require Import Fx Zone.
From SFC.GenMarket Require Import Market.
From SFC.GenTax Require Import Tax Dividends.
From SFC.GenRename Require Import RStr RFix Ren ZoneEq.
Import ListNotations.
Local Open Scope string_scope.

Section TaxEq.
Variables f g : string -> string.
Hypothesis Hf : okmap f g.
Hypothesis Hnum : forall x, head_dig x = true -> f x = x.
Hypothesis Hres : forall x, mem x reserved = true -> f x = x.

Notation r := (R f).
Notation S := (ren_sector f).
Notation E := (ren_eqn f).
Notation T := (ren_term f).
Notation V := (ren_vars f).
Notation ZZ := (ren_zone f).

Let reqb := r_eqb f g Hf.
Let rlit := r_lit f g Hf Hnum Hres.
Let rfull := r_full f g Hf Hnum Hres.

Ltac sf := cbn [code country fullcode sid hasF taxable is_market excl vars ren_sector].

Lemma install_ren s n e : install (S s) (r n) (E e) = S (install s n e).
Proof. unfold install. sf. now rewrite (set_var_ren f g Hf). Qed.

Lemma set_struct_ren s n e : set_struct (S s) (r n) (E e) = option_map S (set_struct s n e).
Proof.
  unfold set_struct. sf. rewrite (lookup_ren f g Hf). destruct (lookup_var n (vars s)); simpl; [|reflexivity].
  now rewrite install_ren.
Qed.

Lemma set_struct_lit s n e : inert n = true -> set_struct (S s) n (E e) = option_map S (set_struct s n e).
Proof. intros H. rewrite <- (rlit n H) at 1. apply set_struct_ren. Qed.

Lemma E_nil_blob ts : mkEqn "" (map T ts) = E (mkEqn "" ts).
Proof. unfold ren_eqn. simpl. now rewrite (rlit "" eq_refl). Qed.

Lemma add_cash_flow_struct_ren s t def inc :
  add_cash_flow_struct (S s) (T t) (E def) inc = option_map S (add_cash_flow_struct s t def inc).
Proof.
  unfold add_cash_flow_struct. rewrite (add_cash_flow_none f g Hf Hnum Hres).
  destruct (add_cash_flow s t None inc) as [s2|]; simpl; [|reflexivity]. f_equal.
  change (snd (T t)) with (map r (snd t)). rewrite <- (concat_star_ren f g Hf).
  change (vars (S s2)) with (V (vars s2)). rewrite (lookup_ren f g Hf).
  destruct (lookup_var (String.concat "*" (snd t)) (vars s2)) as [e|]; simpl.
  - rewrite (renders_empty_ren f g Hf Hnum Hres). destruct (renders_empty e); [apply install_ren|reflexivity].
  - apply install_ren.
Qed.

Lemma vname_ren s n : vname (S s) (r n) = r (vname s n).
Proof. unfold vname. sf. now rewrite rfull. Qed.

Lemma vname_lit s n : inert n = true -> vname (S s) n = r (vname s n).
Proof. intros H. rewrite <- (rlit n H) at 1. apply vname_ren. Qed.

Lemma is_payer_ren me s : is_payer me (S s) = is_payer me s.
Proof. reflexivity. Qed.

Lemma rate_name_ren rm s : rate_name (r rm) (S s) = r (rate_name rm s).
Proof.
  unfold rate_name. rewrite (has_var_lit f g Hf Hnum Hres) by reflexivity.
  destruct (has_var s "TaxRate"); [now apply vname_lit|reflexivity].
Qed.

Lemma tax_term_ren rm s : tax_term (r rm) (S s) = T (tax_term rm s).
Proof. unfold tax_term, ren_term. simpl. rewrite rate_name_ren, vname_lit by reflexivity. reflexivity. Qed.

Lemma pay_tax_ren rm s : pay_tax (r rm) (S s) = rmap S (pay_tax rm s).
Proof.
  unfold pay_tax. rewrite (has_var_lit f g Hf Hnum Hres) by reflexivity.
  destruct (has_var s "INC"); [|reflexivity]. rewrite tax_term_ren.
  change [T (tax_term rm s)] with (map T [tax_term rm s]). rewrite E_nil_blob.
  change ((-1)%Z, ["T"]) with ((-1)%Z, ["T"]).
  assert (HT : ((-1)%Z, ["T"]) = T ((-1)%Z, ["T"])).
  { unfold ren_term. simpl. now rewrite (rlit "T" eq_refl). }
  rewrite HT at 1. rewrite add_cash_flow_struct_ren.
  destruct (add_cash_flow_struct s ((-1)%Z, ["T"]) (mkEqn "" [tax_term rm s]) false); reflexivity.
Qed.

Definition ren_zt (zt : zone * list term) : zone * list term := (ZZ (fst zt), map T (snd zt)).

Lemma tax_loop_ren me rm Z : tax_loop me (r rm) (ZZ Z) = rmap ren_zt (tax_loop me rm Z).
Proof.
  induction Z as [|s Z IH]; simpl; [reflexivity|]. rewrite is_payer_ren.
  assert (H1 : (if is_payer me s then pay_tax (r rm) (S s) else Ok (S s)) = rmap S (if is_payer me s then pay_tax rm s else Ok s)).
  { destruct (is_payer me s); [apply pay_tax_ren|reflexivity]. }
  rewrite H1. destruct (if is_payer me s then pay_tax rm s else Ok s) as [s'|]; simpl; [|reflexivity].
  rewrite IH. destruct (tax_loop me rm Z) as [zr|]; simpl; [|reflexivity]. unfold ren_zt. simpl.
  rewrite map_app. destruct (is_payer me s); simpl; [now rewrite tax_term_ren|reflexivity].
Qed.

Lemma update_where_ren (p p' : sector -> bool) (fn fn' : sector -> result sector) Z :
  (forall s, p' (S s) = p s) -> (forall s, fn' (S s) = rmap S (fn s)) ->
  update_where p' fn' (ZZ Z) = rmap ZZ (update_where p fn Z).
Proof.
  intros Hp Hfn. induction Z as [|s Z IH]; simpl; [reflexivity|]. rewrite Hp.
  assert (H1 : (if p s then fn' (S s) else Ok (S s)) = rmap S (if p s then fn s else Ok s)).
  { destruct (p s); [apply Hfn|reflexivity]. }
  rewrite H1. destruct (if p s then fn s else Ok s); simpl; [|reflexivity].
  rewrite IH. destruct (update_where p fn Z); reflexivity.
Qed.

Lemma self_update_ren rt ts s : self_update (r rt) (map T ts) (S s) = rmap S (self_update rt ts s).
Proof.
  unfold self_update. rewrite (set_rhs_lit f g Hf Hnum Hres) by reflexivity.
  destruct (set_rhs s "TaxRate" rt) as [s1|]; simpl; [|reflexivity].
  rewrite E_nil_blob, set_struct_lit by reflexivity. destruct (set_struct s1 "T" (mkEqn "" ts)); reflexivity.
Qed.

Lemma code_is_ren c s : code_is (r c) (S s) = code_is c s.
Proof. unfold code_is. sf. apply reqb. Qed.

Lemma count_code_ren c Z : count_code (r c) (ZZ Z) = count_code c Z.
Proof.
  unfold count_code. rewrite (filter_ren f (code_is c)) by (intros; apply code_is_ren). apply (length_ren f).
Qed.

Lemma receive_tax_ren tf s : receive_tax (r tf) (S s) = rmap S (receive_tax tf s).
Proof.
  unfold receive_tax.
  change [(1%Z, [r tf])] with (map T [(1%Z, [tf])]). rewrite E_nil_blob, set_struct_lit by reflexivity.
  destruct (set_struct s "T" (mkEqn "" [(1%Z, [tf])])) as [g1|]; simpl; [|reflexivity].
  assert (HT : (1%Z, ["T"]) = T (1%Z, ["T"])).
  { unfold ren_term. simpl. now rewrite (rlit "T" eq_refl). }
  rewrite HT at 1. rewrite (add_cash_flow_some f g Hf Hnum Hres).
  destruct (add_cash_flow g1 (1%Z, ["T"]) (Some tf) true); reflexivity.
Qed.

Theorem tax_generate_ren me rt pt Z : tax_generate me (r rt) (r pt) (ZZ Z) = rmap ZZ (tax_generate me rt pt Z).
Proof.
  unfold tax_generate. rewrite (find_ren f (sid_is me)) by reflexivity.
  destruct (find (sid_is me) Z) as [self|]; simpl; [|reflexivity].
  rewrite vname_lit by reflexivity. rewrite tax_loop_ren.
  destruct (tax_loop me (vname self "TaxRate") Z) as [zt|]; simpl; [|reflexivity].
  rewrite (update_where_ren (sid_is me) (sid_is me) (self_update rt (snd zt))); [|reflexivity|intros; apply self_update_ren].
  destruct (update_where (sid_is me) (self_update rt (snd zt)) (fst zt)) as [Z2|]; simpl; [|reflexivity].
  rewrite count_code_ren. destruct (count_code pt Z2) as [|[|n]]; try reflexivity.
  rewrite vname_lit by reflexivity.
  apply update_where_ren; [intros; apply code_is_ren|intros; apply receive_tax_ren].
Qed.

(* ------------------------------------------------------------------ *)
(** * Dividends *)

Lemma pay_div_ren s : pay_div (S s) = rmap S (pay_div s).
Proof.
  unfold pay_div.
  assert (HT : ((-1)%Z, ["DIV"]) = T ((-1)%Z, ["DIV"])).
  { unfold ren_term. simpl. now rewrite (rlit "DIV" eq_refl). }
  assert (HE : mkEqn "" [(1%Z, ["PROF"])] = E (mkEqn "" [(1%Z, ["PROF"])])).
  { unfold ren_eqn, ren_term. simpl. now rewrite (rlit "" eq_refl), (rlit "PROF" eq_refl). }
  rewrite HT, HE at 1. rewrite add_cash_flow_struct_ren.
  destruct (add_cash_flow_struct s ((-1)%Z, ["DIV"]) (mkEqn "" [(1%Z, ["PROF"])]) false); reflexivity.
Qed.

Lemma f_has_div_ren s : f_has_div (S s) = f_has_div s.
Proof.
  unfold f_has_div. sf. rewrite (lookup_lit f g Hf Hnum Hres) by reflexivity.
  destruct (lookup_var "F" (vars s)) as [e|]; simpl; [|reflexivity]. f_equal.
  induction (terms e) as [|t l IH]; simpl; [reflexivity|]. rewrite IH. f_equal.
  change (snd (T t)) with (map r (snd t)).
  rewrite <- (rlit "DIV" eq_refl) at 1. change [r "DIV"] with (map r ["DIV"]). apply (factors_eqb_ren f g Hf).
Qed.

Lemma append_def_ren e t : append_def (E e) (T t) = E (append_def e t).
Proof.
  unfold append_def. rewrite (renders_empty_ren f g Hf Hnum Hres). destruct (renders_empty e).
  - unfold ren_eqn. simpl. now rewrite (rlit "0.0" eq_refl).
  - unfold ren_eqn. simpl. now rewrite map_app.
Qed.

Lemma receive_div_ren rebook pf s : receive_div rebook (r pf) (S s) = rmap S (receive_div rebook pf s).
Proof.
  unfold receive_div. rewrite f_has_div_ren. destruct (f_has_div s) as [booked|]; [|reflexivity].
  destruct (booked && negb rebook).
  - sf. rewrite (lookup_lit f g Hf Hnum Hres) by reflexivity.
    destruct (lookup_var "DIV" (vars s)) as [e|]; simpl; [|reflexivity].
    change (1%Z, [r pf]) with (T (1%Z, [pf])). rewrite append_def_ren.
    rewrite <- (rlit "DIV" eq_refl) at 1. now rewrite install_ren.
  - assert (HT : (1%Z, ["DIV"]) = T (1%Z, ["DIV"])).
    { unfold ren_term. simpl. now rewrite (rlit "DIV" eq_refl). }
    rewrite HT at 1. change [(1%Z, [r pf])] with (map T [(1%Z, [pf])]). rewrite E_nil_blob.
    rewrite add_cash_flow_struct_ren.
    destruct (add_cash_flow_struct s (1%Z, ["DIV"]) (mkEqn "" [(1%Z, [pf])]) true); reflexivity.
Qed.

Lemma div_pass_ren (cand cand' : sector -> bool) rebook p pf : (forall s, cand' (S s) = cand s) ->
  forall C found, div_pass cand' rebook p (r pf) found (ZZ C) = rmap ZZ (div_pass cand rebook p pf found C).
Proof.
  intros Hc. induction C as [|s C IH]; intros found; simpl; [reflexivity|].
  change (sid_is p (S s)) with (sid_is p s).
  assert (H1 : (if sid_is p s then pay_div (S s) else Ok (S s)) = rmap S (if sid_is p s then pay_div s else Ok s)).
  { destruct (sid_is p s); [apply pay_div_ren|reflexivity]. }
  rewrite H1. destruct (if sid_is p s then pay_div s else Ok s) as [s1|]; simpl; [|reflexivity].
  rewrite Hc.
  assert (H2 : (if negb found && cand s then receive_div rebook (r pf) (S s1) else Ok (S s1)) =
               rmap S (if negb found && cand s then receive_div rebook pf s1 else Ok s1)).
  { destruct (negb found && cand s); [apply receive_div_ren|reflexivity]. }
  rewrite H2. destruct (if negb found && cand s then receive_div rebook pf s1 else Ok s1) as [s2|]; simpl; [|reflexivity].
  rewrite IH. destruct (div_pass cand rebook p pf (found || cand s) C); reflexivity.
Qed.

Lemma div_step_ren (cand cand' : sector -> bool) rebook p C : (forall s, cand' (S s) = cand s) ->
  div_step cand' rebook p (ZZ C) = rmap ZZ (div_step cand rebook p C).
Proof.
  intros Hc. unfold div_step. rewrite (existsb_ren f cand cand') by exact Hc.
  destruct (existsb cand C); [|reflexivity].
  rewrite (find_ren f (sid_is p)) by reflexivity. destruct (find (sid_is p) C) as [self|]; simpl; [|reflexivity].
  rewrite (has_var_lit f g Hf Hnum Hres) by reflexivity. destruct (has_var self "PROF"); [|reflexivity].
  rewrite vname_lit by reflexivity. now apply div_pass_ren.
Qed.

Lemma candidate_ren bizs p s : candidate bizs p (S s) = candidate bizs p s.
Proof. unfold candidate. rewrite (has_var_lit f g Hf Hnum Hres) by reflexivity. reflexivity. Qed.

Definition ren_resets (rs : list (string * string)) : list (string * string) :=
  map (fun kt => (r (fst kt), r (snd kt))) rs.

Lemma apply_resets_ren rs : forall s, apply_resets (ren_resets rs) (S s) = rmap S (apply_resets rs s).
Proof.
  induction rs as [|[k t] rs IH]; intros s; simpl; [reflexivity|].
  rewrite (set_rhs_ren f g Hf). destruct (set_rhs s k t); simpl; [apply IH|reflexivity].
Qed.

Theorem firm_generate_ren bizs p rs C :
  firm_generate bizs (p, ren_resets rs) (ZZ C) = rmap ZZ (firm_generate bizs (p, rs) C).
Proof.
  unfold firm_generate. cbn [fst snd].
  rewrite (update_where_ren (sid_is p) (sid_is p) (apply_resets rs)); [|reflexivity|intros; apply apply_resets_ren].
  destruct (update_where (sid_is p) (apply_resets rs) C) as [C1|]; simpl; [|reflexivity].
  apply div_step_ren. intros; apply candidate_ren.
Qed.

End TaxEq.
