(** Boolean helpers evaluated by the generated cases of harness/gen_rename.py. *)
From Coq Require Import List String Ascii Bool ZArith Arith.
From SFC.Base Require Import Res Str.
From SFC.Gen Require Import Fx Zone.
From SFC.GenMain2 Require Import Program Classes Main CaseDefs.
From SFC.GenRename Require Import RStr RFix Ren ConsEq MainEq Equivariance Concrete ClassEq Static Rename.
Import ListNotations.
Local Open Scope string_scope.

Definition ostr_eqb (a b : option string) : bool :=
  match a, b with Some x, Some y => String.eqb x y | None, None => true | _, _ => false end.
Definition onat_eqb (a b : option nat) : bool :=
  match a, b with Some x, Some y => Nat.eqb x y | None, None => true | _, _ => false end.
Fixpoint nats_eqb (a b : list nat) : bool :=
  match a, b with [] , [] => true | x :: a', y :: b' => Nat.eqb x y && nats_eqb a' b' | _, _ => false end.

Definition cls_eqb (a b : cls) : bool :=
  match a, b with
  | CGov, CGov | CTreasury, CTreasury | CMarket, CMarket => true
  | CCentralBank t, CCentralBank t' => onat_eqb t t'
  | CHousehold a1 a2 a3 a4, CHousehold b1 b2 b3 b4
  | CHouseholdExp a1 a2 a3 a4, CHouseholdExp b1 b2 b3 b4 =>
      String.eqb a1 b1 && String.eqb a2 b2 && String.eqb a3 b3 && String.eqb a4 b4
  | CCapitalists a1 a2 a3, CCapitalists b1 b2 b3 => String.eqb a1 b1 && String.eqb a2 b2 && String.eqb a3 b3
  | CBusiness z a1 a2 a3 a4, CBusiness z' b1 b2 b3 b4 =>
      Bool.eqb z z' && String.eqb a1 b1 && String.eqb a2 b2 && String.eqb a3 b3 && String.eqb a4 b4
  | CBusinessMulti z a1 a2 ms, CBusinessMulti z' b1 b2 ms' =>
      Bool.eqb z z' && String.eqb a1 b1 && String.eqb a2 b2 && nats_eqb ms ms'
  | CTaxFlow a1 a2, CTaxFlow b1 b2 => String.eqb a1 b1 && String.eqb a2 b2
  | CMoneyMarket a1, CMoneyMarket b1 | CDepositMarket a1, CDepositMarket b1 => String.eqb a1 b1
  | _, _ => false
  end.

Definition uop_eqb (a b : uop) : bool :=
  match a, b with
  | OAddVariable s n t, OAddVariable s' n' t' => Nat.eqb s s' && String.eqb n n' && String.eqb t t'
  | OSetExogenous s n t, OSetExogenous s' n' t' => Nat.eqb s s' && String.eqb n n' && String.eqb t t'
  | ORegisterCashFlow s t v x y, ORegisterCashFlow s' t' v' x' y' =>
      Nat.eqb s s' && Nat.eqb t t' && String.eqb v v' && Bool.eqb x x' && Bool.eqb y y'
  | OAddSupplier m s t, OAddSupplier m' s' t' => Nat.eqb m m' && Nat.eqb s s' && ostr_eqb t t'
  | OAssetWeighting s ws res, OAssetWeighting s' ws' res' => Nat.eqb s s' && pairs_eqb ws ws' && String.eqb res res'
  | OAddInitialCondition s n v, OAddInitialCondition s' n' v' => Nat.eqb s s' && String.eqb n n' && String.eqb v v'
  | OSetTreasury a1 a2, OSetTreasury b1 b2 => Nat.eqb a1 b1 && Nat.eqb a2 b2
  | _, _ => false
  end.

Definition step_eqb (a b : step) : bool :=
  match a, b with
  | StCountry c, StCountry c' => String.eqb c c'
  | StSector i c k, StSector i' c' k' => Nat.eqb i i' && String.eqb c c' && cls_eqb k k'
  | StOp o, StOp o' => uop_eqb o o'
  | _, _ => false
  end.

Fixpoint prog_eqb (a b : program) : bool :=
  match a, b with [], [] => true | x :: a', y :: b' => step_eqb x y && prog_eqb a' b' | _, _ => false end.

(** [CaseDefs.main_case] on an outcome *)
Definition sys_case (r : result final_system) (x : expected) : bool :=
  match r, x with
  | Err e, ExpErr e' => err_eqb e e'
  | Ok E, ExpOk endo lag exo ic =>
      pairs_eqb (endo_rows E) endo && pairs_eqb (lag_rows E) lag && pairs_eqb (exo_rows E) exo &&
      ic_eqb (fs_ic E) ic
  | _, _ => false
  end.

(** [p] = the program, [p2] = the program the harness obtained by renaming the Python program,
    [x2] = the implementation's outcome on the renamed Python program:
      the model's [rename_program] is that renaming, the model agrees with the implementation on the
      renamed program, and (when the side condition holds) renaming the model's output of [p] gives
      the implementation's output for the renamed program *)
Definition rename_check (rho : renaming) (p p2 : program) (x2 : expected) : bool :=
  prog_eqb (rename_program rho p) p2 &&
  sys_case (build (rename_program rho p)) x2 &&
  (if renaming_ok rho p then sys_case (rmap (rename_system rho) (build p)) x2 else true).

Definition renamed_sys_case (rho : renaming) (p : program) (x2 : expected) : bool :=
  sys_case (rmap (rename_system rho) (build p)) x2.

(** which part of the side condition fails (for the distribution the harness reports):
    0 = holds, 1 = perm_ok, 2 = a step, 3 = deposit code, 4 = EXOGENOUS inside a longer word of a row text *)
Definition why_not (rho : renaming) (p : program) : nat :=
  if negb (perm_ok rho) then 1
  else if negb (forallb (step_okb (ap rho)) p) then 2
  else match construct_all p with
       | Err _ => 0
       | Ok st => if negb (dep_okb (ap rho) st) then 3
                  else match final_zone st with
                       | Ok x => if exo_free (fst x) then 0 else 4
                       | Err _ => 0
                       end
       end.
