(** C18 "codes are labels" at program level: theorems about the Gallina models [Main.build]
    (single-currency programs) and [Main2.build2] (several currency zones, ExternalSector, cross-zone
    flows and suppliers, gold standard) of the whole generator pipeline (coq/GenMain2), for ALL
    programs and all finite renamings of codes (currency codes included).

    Reading guide:
      [renaming]               a finite map on pieces (maximal alphanumeric words: country codes,
                               sector codes, market codes, the parts of longer codes between
                               underscores); [ap rho] applies it, the identity elsewhere;
      [R (ap rho) s]           the renamed string: every piece x of s replaced by [ap rho x], all
                               other characters copied.  On an identifier this is the piecewise
                               renaming of harness/c18.py, on an expression text it renames every
                               identifier in it ([Rename_piecewise]);
      [rename_program rho p]   country codes, sector codes, every name parameter of the constructors
                               (consumption good, labour, output, taxes_paid_to, issuer_short_code),
                               variable names and expression texts of the user operations renamed;
      [rename_system rho E]    the final system renamed: sector codes / full codes, local variable
                               names, factor names, opaque texts, row names and row texts,
                               initial-condition names; the rows of each sector are put back into the
                               order of their new names (Sector._CreateFinalEquations emits them
                               sorted by local name, so renaming permutes rows within a sector);
      [renaming_ok rho p]      the decidable side condition, see Rename.v: rho is a permutation of
                               admissible pieces that moves no reserved word; texts without white
                               space; exogenous texts not starting with a letter or digit;
                               GOOD / PRIM / BAL / FISC fixed next to a government class (D18c);
                               'INT' + code renamed consistently for every deposit market; the
                               word EXOGENOUS occurs in the emitted row texts only as a whole word. *)
From Coq Require Import List String Bool ZArith Arith Permutation Reals.
From SFC.Base Require Import Res Str.
From SFC.Gen Require Import Fx Zone.
From SFC.GenMain2 Require Import Program Classes Main Conflict Witness Program2 Main2 Witness2.
From SFC.GenRename Require Import RStr RFix Ren ZoneEq ConsEq MainEq Equivariance Concrete Sem ClassEq Static Rename WitnessR
                                  Cons2Eq Main2Eq Equivariance2 Rename2 CaseDefs2 Witness2R.
Import ListNotations.
Local Open Scope string_scope.

(* ------------------------------------------------------------------ *)
(** * 1. Renaming a program renames its system *)

Theorem Main_rename_equivariant : forall rho p, renaming_ok rho p = true ->
  build (rename_program rho p) = rmap (rename_system rho) (build p).
Proof. exact main_rename_equivariant. Qed.
Print Assumptions Main_rename_equivariant.

(** errors included: the renamed program fails with the same exception class *)
Theorem Main_rename_errors : forall rho p e, renaming_ok rho p = true ->
  build p = Err e -> build (rename_program rho p) = Err e.
Proof. exact main_rename_errors. Qed.
Print Assumptions Main_rename_errors.

(** the final state of every sector is the renamed state; the emitted rows are the renamed rows up
    to a permutation (within each sector: the order of the new names); same initial conditions *)
Theorem Main_rename_rows : forall rho p E, renaming_ok rho p = true -> build p = Ok E ->
  exists E', build (rename_program rho p) = Ok E' /\ fs_zone E' = ren_zone (ap rho) (fs_zone E) /\
             Permutation (fs_rows E') (map (ren_row (ap rho)) (fs_rows E)) /\
             fs_ic E' = map (ren_ic (ap rho)) (fs_ic E).
Proof. exact main_rename_rows. Qed.
Print Assumptions Main_rename_rows.

(* ------------------------------------------------------------------ *)
(** * 2. Every variable follows the same series under the renaming *)

(** one period: (v, vprev, bv) satisfies the system of the renamed program iff its pull-back
    (the value of a name is the value of its renamed name) satisfies the system of the program *)
Theorem Main_rename_sat : forall rho p E (v vprev : string -> Rename.real) (bv : string -> string -> Rename.real),
  renaming_ok rho p = true -> build p = Ok E ->
  exists E', build (rename_program rho p) = Ok E' /\
    (sat E' v vprev bv <-> sat E (pull (ap rho) v) (pull (ap rho) vprev) (pull2 (ap rho) bv)).
Proof. exact main_rename_sat. Qed.
Print Assumptions Main_rename_sat.

(** whole histories: a history follows the system of [p] iff the same numbers under the new names
    follow the system of the renamed program *)
Theorem Main_rename_histories : forall rho p E h b, renaming_ok rho p = true -> build p = Ok E ->
  exists E', build (rename_program rho p) = Ok E' /\
    (follows E h b <-> follows E' (rename_history rho h) (rename_opaque rho b)).
Proof. exact main_rename_histories. Qed.
Print Assumptions Main_rename_histories.

(* ------------------------------------------------------------------ *)
(** * 3. The renaming of names *)

(** a bijection on all strings (inverse: the inverse permutation) ... *)
Theorem Rename_bijective : forall rho, perm_ok rho = true ->
  (forall s, RStr.R (ap (inv rho)) (RStr.R (ap rho) s) = s) /\ (forall s, RStr.R (ap rho) (RStr.R (ap (inv rho)) s) = s).
Proof.
  intros rho H. split; intros s; [apply (R_inv _ _ (ap_okmap rho H))|apply (R_inv _ _ (ap_okmap_inv rho H))].
Qed.
Print Assumptions Rename_bijective.

(** ... that acts piece by piece: on an alphanumeric word it is the map itself, and it commutes
    with joining by '_' and with forming a full variable name *)
Theorem Rename_piecewise : forall rho, perm_ok rho = true ->
  (forall x, all_an x = true -> RStr.R (ap rho) x = ap rho x) /\
  (forall a b, RStr.R (ap rho) (a ++ "_" ++ b) = RStr.R (ap rho) a ++ "_" ++ RStr.R (ap rho) b) /\
  (forall a n, RStr.R (ap rho) (a ++ "__" ++ n) = RStr.R (ap rho) a ++ "__" ++ RStr.R (ap rho) n).
Proof.
  intros rho H. split; [intros x Hx; now apply R_an|]. split.
  - apply (r_us _ _ (ap_okmap rho H) (ap_num rho H) (ap_res rho H)).
  - apply (r_full _ _ (ap_okmap rho H) (ap_num rho H) (ap_res rho H)).
Qed.
Print Assumptions Rename_piecewise.

(** the classification of a row text by substring tests (exogenous / lagged / endogenous) commutes
    with every admissible renaming when EXOGENOUS occurs in it only as a whole word *)
Theorem Rename_classification : forall rho t, perm_ok rho = true -> exo_clean t = true ->
  classify (RStr.R (ap rho) t) = ren_kind (ap rho) (classify t).
Proof. intros rho t H. now apply classify_ren_rho. Qed.
Print Assumptions Rename_classification.

(* ------------------------------------------------------------------ *)
(** * 4. The side condition holds on concrete programs with non-identity renamings *)

Example Main_rename_example_SIM : renaming_ok rho_SIM (sq_program p_SIM) = true /\ build (sq_program p_SIM) = build p_SIM /\
  is_ok (build p_SIM) = true /\ rename_program rho_SIM (sq_program p_SIM) <> sq_program p_SIM.
Proof. exact SIM_renaming_ok. Qed.
Print Assumptions Main_rename_example_SIM.

Example Main_rename_example_PC : renaming_ok rho_PC (sq_program p_PC) = true /\ build (sq_program p_PC) = build p_PC /\
  is_ok (build p_PC) = true /\ rename_program rho_PC (sq_program p_PC) <> sq_program p_PC.
Proof. exact PC_renaming_ok. Qed.
Print Assumptions Main_rename_example_PC.

Example Main_rename_example_REG : renaming_ok rho_REG (sq_program p_REG) = true /\ build (sq_program p_REG) = build p_REG /\
  is_ok (build p_REG) = true /\ rename_program rho_REG (sq_program p_REG) <> sq_program p_REG.
Proof. exact REG_renaming_ok. Qed.
Print Assumptions Main_rename_example_REG.

(* ------------------------------------------------------------------ *)
(** * 5. Each part of the side condition matters *)

(** finding D18c: ConsolidatedGovernment / Treasury spell DEM_GOOD themselves; renaming the goods
    market GOOD through the constructors' name parameters does not rename the government's demand *)
Theorem Main_rename_government_good_refuted : let rho := swap [("GOOD", "WIDGET")] in
  perm_ok rho = true /\ renaming_ok rho (sq_program p_SIM) = false /\ differs rho (sq_program p_SIM).
Proof. exact gov_good_refuted. Qed.
Print Assumptions Main_rename_government_good_refuted.

(** a renaming that is not injective on the codes in use *)
Theorem Main_rename_collision_refuted : let rho := [("HH", "BUS")] in
  perm_ok rho = false /\ differs rho (sq_program p_SIM) /\ build (rename_program rho (sq_program p_SIM)) = Err LogicError.
Proof. exact collision_refuted. Qed.
Print Assumptions Main_rename_collision_refuted.

(** a code renamed to a reserved word *)
Theorem Main_rename_reserved_refuted : let rho := swap [("LAB", "LAG")] in
  perm_ok rho = false /\ differs rho (sq_program p_SIM).
Proof. exact reserved_refuted. Qed.
Print Assumptions Main_rename_reserved_refuted.

(** a blank between two identifiers of an expression text *)
Theorem Main_rename_blank_refuted : let rho := swap [("LAB", "WORK")] in
  perm_ok rho = true /\ renaming_ok rho p_blank = false /\ differs rho p_blank.
Proof. exact blank_refuted. Qed.
Print Assumptions Main_rename_blank_refuted.

(** an exogenous text that starts with an identifier *)
Theorem Main_rename_exogenous_head_refuted : let rho := swap [("LAB", "WORK")] in
  perm_ok rho = true /\ renaming_ok rho p_exo = false /\ differs rho p_exo.
Proof. exact exo_head_refuted. Qed.
Print Assumptions Main_rename_exogenous_head_refuted.

(** the code of a deposit market ('INT' + code is one word) *)
Theorem Main_rename_deposit_code_refuted : let rho := swap [("SAV", "BOND")] in
  perm_ok rho = true /\ is_ok (build p_dep) = true /\ renaming_ok rho p_dep = false /\ differs rho p_dep.
Proof. exact deposit_code_refuted. Qed.
Print Assumptions Main_rename_deposit_code_refuted.

(** a row text in which EXOGENOUS is part of a longer word: the classification by substring changes *)
Theorem Main_rename_classification_refuted : let rho := swap [("LAB", "WORK")] in
  perm_ok rho = true /\ forallb (step_okb (ap rho)) p_cls = true /\ renaming_ok rho p_cls = false /\ differs rho p_cls.
Proof. exact classification_refuted. Qed.
Print Assumptions Main_rename_classification_refuted.

(* ------------------------------------------------------------------ *)
(** * 6. Multi-currency programs ([Main2.build2]) *)

(** [rename_program2] renames, in addition, explicit currency codes; a country without explicit
    currency has its (renamed) code as currency.  [renaming_ok2]: see Rename2.v. *)
Theorem Main2_rename_equivariant : forall rho p, renaming_ok2 rho p = true ->
  build2 (rename_program2 rho p) = rmap (rename_system rho) (build2 p).
Proof. exact main2_rename_equivariant. Qed.
Print Assumptions Main2_rename_equivariant.

Theorem Main2_rename_errors : forall rho p e, renaming_ok2 rho p = true ->
  build2 p = Err e -> build2 (rename_program2 rho p) = Err e.
Proof. exact main2_rename_errors. Qed.
Print Assumptions Main2_rename_errors.

Theorem Main2_rename_rows : forall rho p E, renaming_ok2 rho p = true -> build2 p = Ok E ->
  exists E', build2 (rename_program2 rho p) = Ok E' /\ fs_zone E' = ren_zone (ap rho) (fs_zone E) /\
             Permutation (fs_rows E') (map (ren_row (ap rho)) (fs_rows E)) /\
             fs_ic E' = map (ren_ic (ap rho)) (fs_ic E).
Proof. exact main2_rename_rows. Qed.
Print Assumptions Main2_rename_rows.

Theorem Main2_rename_histories : forall rho p E h b, renaming_ok2 rho p = true -> build2 p = Ok E ->
  exists E', build2 (rename_program2 rho p) = Ok E' /\
    (follows E h b <-> follows E' (rename_history rho h) (rename_opaque rho b)).
Proof. exact main2_rename_histories. Qed.
Print Assumptions Main2_rename_histories.

(** an open economy (two currency zones, ExternalSector between the countries, a cross-zone gift, an
    import from the other zone) and its gold-standard variant, with both country / currency codes,
    sector codes, the labour market and a user variable renamed *)
Example Main2_rename_example_OPEN : renaming_ok2 rho_OPEN (sq_program2 p_OPEN) = true /\ build2 (sq_program2 p_OPEN) = build2 p_OPEN /\
  is_ok (build2 p_OPEN) = true /\ rename_program2 rho_OPEN (sq_program2 p_OPEN) <> sq_program2 p_OPEN.
Proof. exact OPEN_renaming_ok. Qed.
Print Assumptions Main2_rename_example_OPEN.

Example Main2_rename_example_GOLD : renaming_ok2 rho_OPEN (sq_program2 p_GOLD) = true /\ build2 (sq_program2 p_GOLD) = build2 p_GOLD /\
  is_ok (build2 p_GOLD) = true /\ rename_program2 rho_OPEN (sq_program2 p_GOLD) <> sq_program2 p_GOLD.
Proof. exact GOLD_renaming_ok. Qed.
Print Assumptions Main2_rename_example_GOLD.

Theorem Main2_rename_currency_reserved_refuted : let rho := swap [("US", "NUMERAIRE")] in
  perm_ok rho = false /\ differs2 rho (sq_program2 p_OPEN).
Proof. exact currency_reserved_refuted. Qed.
Print Assumptions Main2_rename_currency_reserved_refuted.

Theorem Main2_rename_gold_government_good_refuted : let rho := swap [("GOOD", "WIDGET")] in
  perm_ok rho = true /\ renaming_ok2 rho (sq_program2 p_GOLD) = false /\ differs2 rho (sq_program2 p_GOLD).
Proof. exact gold_gov_good_refuted. Qed.
Print Assumptions Main2_rename_gold_government_good_refuted.
