(** The construction phase (sector constructors of Classes.v, user operations, Main.run_step)
    commutes with a renaming, under the conditions [step_okb] on each step of the program:
      - expression texts handed to Term(..., is_blob=True) contain no white space (so that removing
        blanks, which the constructor does, cannot join two identifiers);
      - the text of SetExogenous does not start with a letter or digit (it is written right after
        the word EXOGENOUS);
      - the words GOOD, PRIM, BAL, FISC are left alone when a government class is used
        (ConsolidatedGovernment and Treasury spell DEM_GOOD, PRIM_BAL, FISC_BAL themselves whatever
        the goods market is called: finding D18c). *)
From Coq Require Import List String Ascii Bool ZArith Arith.
From SFC.Base Require Import Res Str.
From SFC.Gen Require Import Fx Zone.
From SFC.GenMarket Require Import Market.
From SFC.GenAsset Require Import Common Weighting.
From SFC.GenMain2 Require Import Program Classes Main.
From SFC.GenRename Require Import RStr RFix Ren ZoneEq MarketEq TaxEq AssetEq.
Import ListNotations.
Local Open Scope string_scope.

(* ------------------------------------------------------------------ *)
(** * Blanks in the texts the classes write *)

Lemma rstrip_app a b : rstrip b <> "" -> rstrip (a ++ b) = a ++ rstrip b.
Proof.
  intros H. induction a as [|x a IH]; simpl; [reflexivity|]. rewrite IH.
  destruct (a ++ rstrip b) eqn:E; [|reflexivity].
  apply app_eq_nil in E as [_ E]. contradiction.
Qed.

Lemma remove_char_app c a b : remove_char c (a ++ b) = remove_char c a ++ remove_char c b.
Proof. induction a as [|x a IH]; simpl; [reflexivity|]. destruct (Ascii.eqb x c); simpl; now rewrite IH. Qed.

(** a text that starts and ends with literal non-blank characters around clean parameters *)
Lemma squeeze_mid p x q : lstrip p = p -> p <> "" -> rstrip q = q -> q <> "" -> clean x = true ->
  squeeze (p ++ x ++ q) = remove_char " "%char p ++ x ++ remove_char " "%char q.
Proof.
  intros Hp Hpn Hq Hqn Hx. unfold squeeze, strip.
  rewrite <- app_assoc, rstrip_app by (rewrite Hq; exact Hqn). rewrite Hq.
  assert (HL : lstrip ((p ++ x) ++ q) = (p ++ x) ++ q).
  { destruct p as [|c p]; [congruence|]. simpl in *. destruct (is_space c); [|reflexivity].
    exfalso. clear -Hp. assert (L : forall s, String.length (lstrip s) <= String.length s).
    { induction s as [|d s IH]; simpl; [auto|]. destruct (is_space d); simpl; auto. }
    specialize (L p). rewrite Hp in L. simpl in L. apply (Nat.nle_succ_diag_l _ L). }
  rewrite HL. rewrite !remove_char_app. rewrite (remove_blank_clean x Hx). now rewrite app_assoc.
Qed.

Lemma squeeze_end p x : lstrip p = p -> p <> "" -> rstrip p = p -> clean x = true ->
  squeeze (p ++ x) = remove_char " "%char p ++ x.
Proof.
  intros Hp Hpn Hr Hx. unfold squeeze, strip.
  assert (HR : rstrip (p ++ x) = p ++ x).
  { destruct x as [|c x]; [now rewrite !app_nil_r|]. rewrite rstrip_app; rewrite (rstrip_clean _ Hx); [reflexivity|discriminate]. }
  rewrite HR.
  assert (HL : lstrip (p ++ x) = p ++ x).
  { destruct p as [|c p]; [congruence|]. simpl in *. destruct (is_space c); [|reflexivity].
    exfalso. clear -Hp. assert (L : forall s, String.length (lstrip s) <= String.length s).
    { induction s as [|d s IH]; simpl; [auto|]. destruct (is_space d); simpl; auto. }
    specialize (L p). rewrite Hp in L. simpl in L. apply (Nat.nle_succ_diag_l _ L). }
  rewrite HL, remove_char_app. now rewrite (remove_blank_clean x Hx).
Qed.

Section ConsEq.
Variables f g : string -> string.
Hypothesis Hf : okmap f g.
Hypothesis Hnum : forall x, head_dig x = true -> f x = x.
Hypothesis Hres : forall x, mem x reserved = true -> f x = x.

Notation r := (R f).
Notation S := (ren_sector f).
Notation E := (ren_eqn f).
Notation T := (ren_term f).
Notation V := (ren_vars f).
Notation ZZ := (ren_zone f).

Let reqb := r_eqb f g Hf.
Let rlit := r_lit f g Hf Hnum Hres.
Let rpre := r_pre f g Hf Hnum Hres.
Let rfull := r_full f g Hf Hnum Hres.
Let rus := r_us f g Hf Hnum Hres.

Ltac sf := cbn [code country fullcode sid hasF taxable is_market excl vars ren_sector].

(* ------------------------------------------------------------------ *)
(** * Conditions on the steps of a program *)

Definition fixes (ws : list string) : bool := forallb (fun w => String.eqb (f w) w) ws.

Definition cls_okb (k : cls) : bool :=
  match k with
  | CGov => fixes gov_words
  | CTreasury => fixes tre_words
  | CHousehold ai af _ _ | CHouseholdExp ai af _ _ | CCapitalists ai af _ => clean ai && clean af
  | CBusiness _ _ _ lab out => clean lab && clean out
  | CBusinessMulti _ _ lab _ => clean lab
  | CTaxFlow rate _ => clean rate
  | _ => true
  end.

Definition uop_okb (o : uop) : bool :=
  match o with
  | OAddVariable _ _ t => clean t
  | OSetExogenous _ _ spec => clean spec && starts_sep spec
  | OAddSupplier _ _ (Some t) => clean t
  | OAssetWeighting _ ws _ => dict_clean ws
  | _ => true
  end.

Definition step_okb (x : step) : bool :=
  match x with StSector _ _ k => cls_okb k | StOp o => uop_okb o | StCountry _ => true end.

Lemma rlitG ws s : fixes ws = true -> inert_x ws s = true -> r s = s.
Proof.
  intros HG Hs. apply (R_fix_x f g Hf Hnum Hres ws s); [|exact Hs]. intros y Hy.
  unfold fixes in HG. rewrite forallb_forall in HG. apply String.eqb_eq. apply HG. now apply mem_In.
Qed.

(* ------------------------------------------------------------------ *)
(** * AddVariable *)

Lemma squeeze_r t : clean t = true -> squeeze (r t) = r (squeeze t).
Proof. apply (squeeze_ren f g Hf). Qed.

Lemma addv_gen s n n' t t' : n' = r n -> squeeze t' = r (squeeze t) -> addv (S s) n' t' = rmap S (addv s n t).
Proof.
  intros -> Ht. unfold addv. rewrite (r_dunder f g Hf). destruct (has_substring "__" n); [reflexivity|].
  rewrite Ht. simpl. now rewrite (add_variable_ren f g Hf).
Qed.

Definition nt_rel (x' x : string * string) : Prop := fst x' = r (fst x) /\ squeeze (snd x') = r (squeeze (snd x)).

Lemma addvs_gen l' l : Forall2 nt_rel l' l -> forall s, addvs (S s) l' = rmap S (addvs s l).
Proof.
  induction 1 as [|[n' t'] [n t] l' l [H1 H2] _ IH]; intros s; simpl; [reflexivity|].
  simpl in H1, H2. rewrite (addv_gen s n n' t t' H1 H2). destruct (addv s n t); simpl; [apply IH|reflexivity].
Qed.

Lemma V_ledger : V ledger_vars = ledger_vars.
Proof.
  unfold ledger_vars, ren_vars, ren_var, ren_eqn, ren_term. simpl.
  now rewrite !(rlit "F"), !(rlit "INC"), !(rlit "LAG_F"), !(rlit ""), (rlit "F(k-1)") by reflexivity.
Qed.

Lemma base_sector_ren i c cc hf tx mk ex :
  base_sector i (r c) (r cc) hf tx mk (map r ex) = S (base_sector i c cc hf tx mk ex).
Proof.
  unfold base_sector, ren_sector. simpl. rewrite (rlit "") by reflexivity.
  destruct hf; [now rewrite V_ledger|reflexivity].
Qed.

Lemma base_sector_nil i c cc hf tx mk :
  base_sector i (r c) (r cc) hf tx mk [] = S (base_sector i c cc hf tx mk []).
Proof. exact (base_sector_ren i c cc hf tx mk []). Qed.

Ltac lit0 := first [ symmetry; apply rlit; reflexivity | apply rlit; reflexivity ].

Lemma base_household_ren i c cc ai af good : clean ai = true -> clean af = true ->
  base_household i (r c) (r cc) (r ai) (r af) (r good) = rmap S (base_household i c cc ai af good).
Proof.
  intros H1 H2. unfold base_household.
  assert (HD : "DEM_" ++ r good = r ("DEM_" ++ good)) by (now rewrite rpre).
  rewrite HD. change [r ("DEM_" ++ good)] with (map r ["DEM_" ++ good]). rewrite base_sector_ren.
  apply addvs_gen. repeat constructor; cbn [fst snd]; try lit0; try (now apply squeeze_r).
Qed.

Lemma base_market_ren i c cc : base_market i (r c) (r cc) = rmap S (base_market i c cc).
Proof.
  unfold base_market. rewrite base_sector_nil.
  apply addvs_gen. repeat constructor; cbn [fst snd]; try lit0; now rewrite rpre.
Qed.

Definition ren_mref (m : string * string) : string * string := (r (fst m), r (snd m)).

Lemma add_market_ren s m : add_market (S s) (ren_mref m) = rmap S (add_market s m).
Proof.
  unfold add_market, ren_mref. cbn [fst snd]. sf. rewrite reqb.
  set (t := if String.eqb (snd m) (country s) then "SUP_" ++ fst m else "SUP_" ++ snd m ++ "_" ++ fst m).
  assert (Ht : (if String.eqb (snd m) (country s) then "SUP_" ++ r (fst m) else "SUP_" ++ r (snd m) ++ "_" ++ r (fst m)) = r t).
  { unfold t. destruct (String.eqb (snd m) (country s)); [now rewrite rpre|]. rewrite rpre by reflexivity. now rewrite rus. }
  rewrite Ht. rewrite (addv_gen s t (r t) "" "" eq_refl) by lit0.
  destruct (addv s t ""); simpl; [|reflexivity].
  change (1%Z, [r t]) with (T (1%Z, [t])). rewrite (add_term_to_eq_lit f g Hf Hnum Hres) by reflexivity.
  destruct (add_term_to_eq s0 "SUP" (1%Z, [t])); reflexivity.
Qed.

Lemma add_markets_ren l : forall s, add_markets (S s) (map ren_mref l) = rmap S (add_markets s l).
Proof.
  induction l as [|m l IH]; intros s; simpl; [reflexivity|]. rewrite add_market_ren.
  destruct (add_market s m); simpl; [apply IH|reflexivity].
Qed.

Theorem construct_ren i cc c k mrefs : cls_okb k = true ->
  construct i (r cc) (r c) (ren_cls f k) (map ren_mref mrefs) = rmap S (construct i cc c k mrefs).
Proof.
  intros Hk. destruct k as [| |t|ai af good lab|ai af good lab|ai af good|mz wage margin lab out|mz wage lab ms|rate pt| |iss|iss];
    cbn [construct ren_cls]; cbn [cls_okb] in Hk.
  - rewrite base_sector_nil. apply addvs_gen.
    repeat constructor; cbn [fst snd]; symmetry; apply (rlitG _ _ Hk); reflexivity.
  - rewrite base_sector_nil. apply addvs_gen.
    repeat constructor; cbn [fst snd]; symmetry; apply (rlitG _ _ Hk); reflexivity.
  - rewrite base_sector_nil. apply addvs_gen.
    repeat constructor; cbn [fst snd]; lit0.
  - apply andb_true_iff in Hk as [H1 H2]. rewrite base_household_ren by assumption.
    destruct (base_household i c cc ai af good) as [s|]; cbn [bind rmap]; [|reflexivity].
    apply addv_gen; [now rewrite rpre|lit0].
  - apply andb_true_iff in Hk as [H1 H2]. rewrite base_household_ren by assumption.
    destruct (base_household i c cc ai af good) as [s|]; cbn [bind rmap]; [|reflexivity].
    rewrite (addv_gen s ("SUP_" ++ lab) _ "0." "0.") by (try (now rewrite rpre); lit0).
    destruct (addv s ("SUP_" ++ lab) "0.") as [s1|]; cbn [bind rmap]; [|reflexivity].
    rewrite <- (rpre "DEM_" good) by reflexivity.
    rewrite <- (rlit (squeeze "AlphaIncome * EXP_AfterTax + AlphaFin * LAG_F")) at 1 by reflexivity.
    rewrite (set_rhs_ren f g Hf). destruct (set_rhs s1 ("DEM_" ++ good) _) as [s2|]; cbn [bind rmap]; [|reflexivity].
    apply addvs_gen. repeat constructor; cbn [fst snd]; lit0.
  - apply andb_true_iff in Hk as [H1 H2]. rewrite base_household_ren by assumption.
    destruct (base_household i c cc ai af good) as [s|]; cbn [bind rmap]; [|reflexivity].
    apply addv_gen; lit0.
  - apply andb_true_iff in Hk as [H1 H2].
    rewrite base_sector_nil. apply addvs_gen.
    assert (C1 : clean (r out) = true) by (now rewrite (clean_R f g Hf)).
    assert (C2 : clean (r lab) = true) by (now rewrite (clean_R f g Hf)).
    repeat constructor; cbn [fst snd]; try lit0; try (now rewrite rpre).
    assert (Q : forall o l, clean o = true -> clean l = true ->
                squeeze ("SUP_" ++ o ++ " - DEM_" ++ l) = "SUP_" ++ o ++ "-DEM_" ++ l).
    { intros o l Ho Hl.
      replace ("SUP_" ++ o ++ " - DEM_" ++ l) with (("SUP_" ++ o ++ " - DEM_") ++ l) by (now rewrite !RStr.app_assoc).
      rewrite squeeze_end; [ | reflexivity | discriminate | | exact Hl].
      - rewrite !remove_char_app, (remove_blank_clean o Ho). simpl. now rewrite !RStr.app_assoc.
      - replace ("SUP_" ++ o ++ " - DEM_") with (("SUP_" ++ o ++ " - DEM") ++ "_") by (now rewrite !RStr.app_assoc).
        rewrite rstrip_app; [reflexivity|discriminate]. }
    rewrite !Q by assumption. rewrite rpre by reflexivity. rewrite (r_app_r f g Hf) by reflexivity.
    now rewrite (rpre "-DEM_") by reflexivity.
  - rewrite base_sector_nil.
    rewrite (addv_gen _ "SUP" "SUP" "" "") by lit0.
    destruct (addv (base_sector i c cc true false false []) "SUP" "") as [s|]; cbn [bind rmap]; [|reflexivity].
    rewrite add_markets_ren. destruct (add_markets s mrefs) as [s1|]; cbn [bind rmap]; [|reflexivity].
    assert (C2 : clean (r lab) = true) by (now rewrite (clean_R f g Hf)).
    apply addvs_gen. repeat constructor; cbn [fst snd]; try lit0; try (now rewrite rpre).
    assert (Q : forall l, clean l = true -> squeeze ("SUP - DEM_" ++ l) = "SUP-DEM_" ++ l).
    { intros l Hl. rewrite squeeze_end; [reflexivity|reflexivity|discriminate|reflexivity|exact Hl]. }
    rewrite !Q by assumption. now rewrite rpre.
  - rewrite base_sector_nil. apply addvs_gen.
    repeat constructor; cbn [fst snd]; try lit0. now apply squeeze_r.
  - apply base_market_ren.
  - apply base_market_ren.
  - rewrite base_market_ren. destruct (base_market i c cc) as [s|]; cbn [bind rmap]; [|reflexivity].
    apply addvs_gen. repeat constructor; cbn [fst snd]; lit0.
Qed.

End ConsEq.
