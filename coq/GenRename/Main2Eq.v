(** Model.main() of the multi-currency model (Main2.main_run2) commutes with a renaming, zone level:
    currency zones, the FX ledger, cross rates, cross-zone flows and suppliers, gold purchases. *)
From Coq Require Import List String Ascii Bool ZArith Arith Lia.
From SFC.Base Require Import Res Str.
From SFC.Gen Require Import Fx Zone.
From SFC.GenMarket Require Import Market.
From SFC.GenTax Require Import Tax TaxProofs Dividends.
From SFC.GenAsset Require Import Common Money Deposit Weighting.
From SFC.GenMain2 Require Import Program Classes Main Ledger MainProofs Program2 Main2 Ledger2.
From SFC.GenRename Require Import RStr RFix Ren ZoneEq MarketEq TaxEq AssetEq ConsEq MainEq RowEq Cons2Eq.
Import ListNotations.
Local Open Scope string_scope.

Lemma squeeze_slash a b : clean a = true -> clean b = true -> squeeze (a ++ "/" ++ b) = a ++ "/" ++ b.
Proof.
  intros Ha Hb. assert (Hc : clean (a ++ "/" ++ b) = true) by (rewrite !clean_app, Ha, Hb; reflexivity).
  now apply squeeze_clean.
Qed.

Section Main2Eq.
Variables f g : string -> string.
Hypothesis Hf : okmap f g.
Hypothesis Hnum : forall x, head_dig x = true -> f x = x.
Hypothesis Hres : forall x, mem x reserved = true -> f x = x.

Notation r := (R f).
Notation S := (ren_sector f).
Notation E := (ren_eqn f).
Notation T := (ren_term f).
Notation V := (ren_vars f).
Notation ZZ := (ren_zone f).
Notation RL := (ren_ledger f).
Notation RW := (ren_world f).
Notation RC := (ren_cc f).

Let reqb := r_eqb f g Hf.
Let rlit := r_lit f g Hf Hnum Hres.
Let rpre := r_pre f g Hf Hnum Hres.
Let rfull := r_full f g Hf Hnum Hres.
Let rus := r_us f g Hf Hnum Hres.

Ltac sf := cbn [code country fullcode sid hasF taxable is_market excl vars ren_sector].
Ltac lit0 := first [ symmetry; apply rlit; reflexivity | apply rlit; reflexivity ].

Definition ren_info2 (J : ginfo2) : ginfo2 :=
  mkI2 (map (ren_cls2 f) (j_classes J)) (ren_sup f (j_sup J)) (map RC (j_countries J)) (j_ext J).
Definition ren_g2 (st : gstate2) : gstate2 :=
  mkG2 (ZZ (h_zone st)) (map (ren_flow f) (h_flows st)) (map (ren_icd f) (h_ic st)).

(** currencies on record are clean; full codes of the zone are clean *)
Definition jinv (J : ginfo2) : Prop := forallb (fun cc => clean (snd cc)) (j_countries J) = true.
Definition zinv (Z : zone) : Prop := forallb (fun s => clean (fullcode s)) Z = true.

Lemma currency_of_clean cs cc : forallb (fun x => clean (snd x)) cs = true -> clean (currency_of cs cc) = true.
Proof.
  induction cs as [|[c cur] cs IH]; simpl; [reflexivity|]. intros H. apply andb_true_iff in H as [H1 H2].
  destruct (String.eqb c cc); [exact H1|now apply IH].
Qed.

Lemma cur_of_sec_ren J s : cur_of_sec (ren_info2 J) (S s) = r (cur_of_sec J s).
Proof. unfold cur_of_sec. cbn [j_countries ren_info2]. sf. apply (currency_of_ren f g Hf). Qed.

Lemma cur_of_sec_clean J s : jinv J -> clean (cur_of_sec J s) = true.
Proof. intros H. now apply currency_of_clean. Qed.

Lemma zinv_find Z i s : zinv Z -> find_sec i Z = Some s -> clean (fullcode s) = true.
Proof.
  unfold zinv. rewrite forallb_forall. intros H Hf0. apply H. unfold find_sec in Hf0. now apply find_some in Hf0 as [Hin _].
Qed.

Lemma zinv_frame Z Z' : Forall2 TaxProofs.frame Z Z' -> zinv Z -> zinv Z'.
Proof.
  unfold zinv. induction 1 as [|a b l l' Hab _ IH]; simpl; [auto|]. intros H. apply andb_true_iff in H as [Ha Hl].
  rewrite (frame_fullcode _ _ Hab), Ha. now apply IH.
Qed.

(* ------------------------------------------------------------------ *)
(** * Parts of the zone *)

Lemma put_back_p_ren (p p' : sector -> bool) : (forall s, p' (S s) = p s) ->
  forall Z C, put_back_p p' (ZZ C) (ZZ Z) = ZZ (put_back_p p C Z).
Proof.
  intros Hp. induction Z as [|s Z IH]; intros C; simpl; [reflexivity|]. rewrite Hp. destruct (p s).
  - destruct C as [|c C]; simpl; [|now rewrite IH]. f_equal. exact (IH []).
  - now rewrite IH.
Qed.

Lemma on_part_ren (p p' : sector -> bool) (fn fn' : zone -> result zone) Z :
  (forall s, p' (S s) = p s) -> (forall C, fn' (ZZ C) = rmap ZZ (fn C)) ->
  on_part p' fn' (ZZ Z) = rmap ZZ (on_part p fn Z).
Proof.
  intros Hp Hfn. unfold on_part. rewrite (filter_ren f p p' Z Hp), Hfn.
  destruct (fn (filter p Z)); cbn [rmap bind]; [|reflexivity]. now rewrite (put_back_p_ren p p' Hp).
Qed.

(* ------------------------------------------------------------------ *)
(** * The FX ledger *)

Lemma net_name_ren c : "NET_" ++ r c = r ("NET_" ++ c).
Proof. now rewrite rpre. Qed.

Lemma net_of_ren fx c : net_of (S fx) (r c) = map T (net_of fx c).
Proof.
  unfold net_of. sf. rewrite net_name_ren, (lookup_ren f g Hf). destruct (lookup_var ("NET_" ++ c) (vars fx)); reflexivity.
Qed.

Lemma ledger_of_ren J Z : ledger_of (ren_info2 J) (ZZ Z) = option_map RL (ledger_of J Z).
Proof.
  unfold ledger_of. cbn [j_ext j_countries ren_info2]. destruct (j_ext J) as [e|]; [|reflexivity].
  rewrite (find_sec_ren f). destruct (find_sec (e_fx e) Z) as [fx|]; cbn [option_map]; [|reflexivity].
  f_equal. rewrite (zones_of_ren f g Hf). unfold ren_ledger. rewrite !map_map. apply map_ext. intros c. cbn [fst snd].
  now rewrite net_of_ren.
Qed.

Lemma store_net_ren fx ct : store_net (S fx) (r (fst ct), map T (snd ct)) = S (store_net fx ct).
Proof.
  unfold store_net. cbv zeta. cbn [fst snd]. sf. rewrite net_name_ren, (lookup_ren f g Hf).
  destruct (lookup_var ("NET_" ++ fst ct) (vars fx)) as [e|]; cbn [option_map]; unfold set_eqn; sf.
  - change (mkEqn (blob (E e)) (map T (snd ct))) with (E (mkEqn (blob e) (snd ct))). now rewrite (set_var_ren f g Hf).
  - assert (HE : mkEqn "" (map T (snd ct)) = E (mkEqn "" (snd ct))) by (unfold ren_eqn; cbn [blob terms]; now rewrite (rlit "" eq_refl)).
    rewrite HE. now rewrite (set_var_ren f g Hf).
Qed.

Lemma fold_store_ren l : forall fx, fold_left store_net (RL l) (S fx) = S (fold_left store_net l fx).
Proof.
  induction l as [|ct l IH]; intros fx; simpl; [reflexivity|]. rewrite store_net_ren. apply IH.
Qed.

Lemma store_ledger_ren J L Z : store_ledger (ren_info2 J) (option_map RL L) (ZZ Z) = rmap ZZ (store_ledger J L Z).
Proof.
  unfold store_ledger. cbn [j_ext ren_info2]. destruct (j_ext J) as [e|]; [|reflexivity].
  destruct L as [l|]; cbn [option_map]; [|reflexivity].
  apply (upd_ren f). intros fx. cbn [rmap]. now rewrite fold_store_ren.
Qed.

Lemma ensure_cross_ren J a b Z : clean a = true -> clean b = true ->
  ensure_cross (ren_info2 J) (r a) (r b) (ZZ Z) = rmap ZZ (ensure_cross J a b Z).
Proof.
  intros Ha Hb. unfold ensure_cross. cbn [j_ext ren_info2]. destruct (j_ext J) as [e|]; [|reflexivity].
  apply (upd_ren f). intros xr. rewrite <- rus, (has_var_ren f g Hf). destruct (has_var xr (a ++ "_" ++ b)); [reflexivity|].
  apply (addv_gen f g Hf); [reflexivity|].
  rewrite !squeeze_slash by (try assumption; now rewrite (clean_R f g Hf)).
  rewrite (r_app_r f g Hf) by reflexivity. now rewrite (rpre "/") by reflexivity.
Qed.

Lemma xr_full_ren J Z n : xr_full (ren_info2 J) (ZZ Z) (r n) = rmap r (xr_full J Z n).
Proof.
  unfold xr_full. cbn [j_ext ren_info2]. destruct (j_ext J) as [e|]; [|reflexivity].
  rewrite (find_sec_ren f). destruct (find_sec (e_xr e) Z) as [xr|]; cbn [option_map]; [|reflexivity].
  rewrite (has_var_ren f g Hf). destruct (has_var xr n); [|reflexivity]. sf. cbn [rmap]. now rewrite rfull.
Qed.

Lemma fx_add_ren J cur t Z : fx_add (ren_info2 J) (r cur) (T t) (ZZ Z) = rmap ZZ (fx_add J cur t Z).
Proof.
  unfold fx_add. cbn [j_ext ren_info2]. destruct (j_ext J) as [e|]; [|reflexivity].
  apply (upd_ren f). intros fx. rewrite net_name_ren, (add_term_to_eq_ren f g Hf). apply opt_key_ren.
Qed.

Lemma send_money_ren J cur x Z : send_money (ren_info2 J) (r cur) (r x) (ZZ Z) = rmap ZZ (send_money J cur x Z).
Proof.
  unfold send_money. rewrite xr_full_ren. destruct (xr_full J Z cur) as [xr|]; cbn [rmap bind]; [|reflexivity].
  change (1%Z, [r x]) with (T (1%Z, [x])). rewrite fx_add_ren.
  destruct (fx_add J cur (1%Z, [x]) Z) as [Z1|]; cbn [rmap bind]; [|reflexivity].
  rewrite <- (NUM_ren f g Hf Hnum Hres) at 1. change ((-1)%Z, [r x; r xr]) with (T ((-1)%Z, [x; xr])). apply fx_add_ren.
Qed.

Definition ren_zt2 (zt : zone * term) : zone * term := (ZZ (fst zt), T (snd zt)).

Lemma receive_money_ren J a b x Z : clean a = true -> clean b = true ->
  receive_money (ren_info2 J) (r a) (r b) (r x) (ZZ Z) = rmap ren_zt2 (receive_money J a b x Z).
Proof.
  intros Ha Hb. unfold receive_money. rewrite ensure_cross_ren by assumption.
  destruct (ensure_cross J a b Z) as [Z1|]; cbn [rmap bind]; [|reflexivity].
  rewrite <- rus, xr_full_ren. destruct (xr_full J Z1 (a ++ "_" ++ b)) as [cross|]; cbn [rmap bind]; [|reflexivity].
  change ((-1)%Z, [r x; r cross]) with (T ((-1)%Z, [x; cross])). rewrite fx_add_ren.
  destruct (fx_add J b _ Z1) as [Z2|]; cbn [rmap bind]; [|reflexivity].
  rewrite xr_full_ren. destruct (xr_full J Z2 a) as [xr|]; cbn [rmap bind]; [|reflexivity].
  rewrite <- (NUM_ren f g Hf Hnum Hres) at 1. change (1%Z, [r x; r xr]) with (T (1%Z, [x; xr])). rewrite fx_add_ren.
  destruct (fx_add J NUM _ Z2); reflexivity.
Qed.

(* ------------------------------------------------------------------ *)
(** * Markets *)

Lemma supply_multi_ren hcur (cur_of cur_of' : nat -> string) mk l : (forall i, cur_of' i = r (cur_of i)) ->
  forall W, supply_multi (r hcur) cur_of' (S mk) (RW W) (map (ren_se f) l) = rmap RW (supply_multi hcur cur_of mk W l).
Proof.
  intros Hc. induction l as [|ie l IH]; intros W; cbn [map supply_multi]; [reflexivity|].
  assert (E1 : fst (ren_se f ie) = fst ie) by (destruct ie; reflexivity). rewrite E1.
  rewrite (supply_step_ren f g Hf Hnum Hres hcur (cur_of (fst ie)) (r hcur) (cur_of' (fst ie)) mk W ie).
  2:{ right. right. split; [reflexivity|apply Hc]. }
  destruct (supply_step hcur (cur_of (fst ie)) mk W ie) as [W1|]; cbn [rmap bind]; [apply IH|reflexivity].
Qed.

Lemma market_generate_multi_ren hcur (cur_of cur_of' : nat -> string) W m res others : (forall i, cur_of' i = r (cur_of i)) ->
  market_generate_multi (r hcur) cur_of' (RW W) m res (ren_others f others) =
  rmap RW (market_generate_multi hcur cur_of W m res others).
Proof.
  intros Hc. unfold market_generate_multi. cbn [home ren_world]. rewrite (find_sec_ren f).
  destruct (find_sec m (home W)) as [mk|]; cbn [option_map]; [|reflexivity].
  rewrite (the_residual_ren f g Hf Hnum Hres). destruct (the_residual (home W) mk res) as [rr|]; cbn [rmap bind]; [|reflexivity].
  rewrite (generate_demand_ren f g Hf Hnum Hres). destruct (generate_demand (home W) m) as [H1|]; cbn [rmap bind]; [|reflexivity].
  rewrite (find_sec_ren f). destruct (find_sec m H1) as [mk1|]; cbn [option_map]; [|reflexivity].
  rewrite (upd_ren f m (fun s => opt_key (set_rhs_terms s (sup_short mk1) [(1%Z, [dem_short mk1])]))).
  2:{ intros s. rewrite (sup_short_ren f g Hf Hnum Hres), (dem_short_ren f g Hf Hnum Hres).
      change [(1%Z, [r (dem_short mk1)])] with (map T [(1%Z, [dem_short mk1])]).
      rewrite (set_rhs_terms_ren f g Hf Hnum Hres). apply opt_key_ren. }
  destruct (upd m _ H1) as [H0|]; cbn [rmap bind]; [|reflexivity].
  rewrite (with_home_ren f). unfold ren_others. rewrite map_map. cbn [fst].
  rewrite <- (map_map fst (fun x : nat => x)), map_id. rewrite (resolve_fullcodes_ren f).
  destruct (resolve_fullcodes (with_home W H0) (map fst others)) as [fcs|]; cbn [rmap bind]; [|reflexivity].
  rewrite (residual_terms_ren f g Hf Hnum Hres).
  assert (EL : (map (fun o : nat * string => (fst o, mkEqn (snd o) []))
                   (map (fun o : nat * string => (fst o, r (snd o))) others) ++ [(rr, mkEqn "" (map T (residual_terms mk1 fcs)))])%list
               = map (ren_se f) (map (fun o => (fst o, mkEqn (snd o) [])) others ++ [(rr, mkEqn "" (residual_terms mk1 fcs))])%list).
  { rewrite map_app, !map_map. cbn [map fst snd]. unfold ren_se, ren_eqn. cbn [fst snd blob terms map].
    rewrite (rlit "" eq_refl). reflexivity. }
  rewrite EL. now apply supply_multi_ren.
Qed.

Lemma supplier_currencies_ren J Z hcur ids :
  supplier_currencies (ren_info2 J) (ZZ Z) (r hcur) ids = map r (supplier_currencies J Z hcur ids).
Proof.
  unfold supplier_currencies.
  assert (H : flat_map (fun i => match find_sec i (ZZ Z) with
                                 | Some s => if String.eqb (cur_of_sec (ren_info2 J) s) (r hcur) then [] else [cur_of_sec (ren_info2 J) s]
                                 | None => []
                                 end) ids =
              map r (flat_map (fun i => match find_sec i Z with
                                        | Some s => if String.eqb (cur_of_sec J s) hcur then [] else [cur_of_sec J s]
                                        | None => []
                                        end) ids)).
  { induction ids as [|i ids IH]; simpl; [reflexivity|]. rewrite map_app, <- IH. f_equal.
    rewrite (find_sec_ren f). destruct (find_sec i Z) as [s|]; cbn [option_map]; [|reflexivity].
    rewrite cur_of_sec_ren, reqb. destruct (String.eqb (cur_of_sec J s) hcur); reflexivity. }
  rewrite H. apply nodup_map_inj. apply (R_inj f g Hf).
Qed.

Lemma supplier_currencies_clean J Z hcur ids : jinv J -> forallb clean (supplier_currencies J Z hcur ids) = true.
Proof.
  intros HJ. apply forallb_forall. intros c Hin. unfold supplier_currencies in Hin. apply nodup_In in Hin.
  apply in_flat_map in Hin as (i & _ & Hin). destruct (find_sec i Z) as [s|]; [|contradiction].
  destruct (String.eqb _ _); [contradiction|]. destruct Hin as [<-|[]]. now apply cur_of_sec_clean.
Qed.

Lemma sec_currency_ren J Z i : sec_currency (ren_info2 J) (ZZ Z) i = r (sec_currency J Z i).
Proof.
  unfold sec_currency. rewrite (find_sec_ren f). destruct (find_sec i Z); cbn [option_map]; [apply cur_of_sec_ren|].
  symmetry. apply (R_nil f g Hf).
Qed.

Lemma ensure_crosses_ren J hcur codes acurs : clean hcur = true -> forallb clean acurs = true -> forall Z,
  ensure_crosses (ren_info2 J) (r hcur) (map r codes) (map r acurs) (ZZ Z) = rmap ZZ (ensure_crosses J hcur codes acurs Z).
Proof.
  intros Hh. induction acurs as [|a acurs IH]; intros Ha Z; cbn [map ensure_crosses]; [reflexivity|].
  simpl in Ha. apply andb_true_iff in Ha as [H1 H2].
  rewrite (cross_code_ren f g Hf Hnum Hres), (r_mem f g Hf).
  assert (E1 : (if mem (cross_code hcur a) codes then ensure_cross (ren_info2 J) (r hcur) (r a) (ZZ Z) else Ok (ZZ Z)) =
               rmap ZZ (if mem (cross_code hcur a) codes then ensure_cross J hcur a Z else Ok Z)).
  { destruct (mem _ codes); [now apply ensure_cross_ren|reflexivity]. }
  rewrite E1. destruct (if mem (cross_code hcur a) codes then ensure_cross J hcur a Z else Ok Z); cbn [rmap bind]; [now apply IH|reflexivity].
Qed.

Theorem market_step_ren J i self Z : jinv J ->
  market_step (ren_info2 J) i (S self) (ZZ Z) = rmap ZZ (market_step J i self Z).
Proof.
  intros HJ. unfold market_step. rewrite cur_of_sec_ren. cbn [j_sup j_countries ren_info2]. rewrite (sup_of_ren f).
  destruct (sup_of i (j_sup J)) as [res others]. unfold ren_supinfo. cbn [fst snd].
  set (hcur := cur_of_sec J self).
  assert (Eids : map fst (ren_others f others) = map fst others).
  { unfold ren_others. rewrite map_map. reflexivity. }
  rewrite Eids. set (ids := (map fst others ++ match res with Some r0 => [r0] | None => [] end)%list).
  rewrite supplier_currencies_ren.
  assert (Hac := supplier_currencies_clean J Z hcur ids HJ).
  assert (Hh : clean hcur = true) by (now apply cur_of_sec_clean).
  set (inh := in_zone (j_countries J) hcur).
  assert (Pinh : forall s, in_zone (map RC (j_countries J)) (r hcur) (S s) = inh s) by (intros; apply (in_zone_ren f g Hf)).
  destruct (supplier_currencies J Z hcur ids) as [|acur [|a2 rest]] eqn:Eac; cbn [map].
  - rewrite (filter_ren f inh _ Z Pinh), ledger_of_ren.
    change (mkWorld (ZZ (filter inh Z)) [] (option_map RL (ledger_of J Z)) []) with (RW (mkWorld (filter inh Z) [] (ledger_of J Z) [])).
    rewrite (market_generate_ren f g Hf Hnum Hres hcur ACUR (r hcur) ACUR) by (right; left; reflexivity).
    destruct (market_generate hcur ACUR _ i res others) as [W|]; cbn [rmap bind]; [|reflexivity].
    cbn [fxl home ren_world]. rewrite (put_back_p_ren inh _ Pinh). apply store_ledger_ren.
  - set (ina := in_zone (j_countries J) acur).
    assert (Pina : forall s, in_zone (map RC (j_countries J)) (r acur) (S s) = ina s) by (intros; apply (in_zone_ren f g Hf)).
    rewrite (filter_ren f inh _ Z Pinh), (filter_ren f ina _ Z Pina), ledger_of_ren.
    change (mkWorld (ZZ (filter inh Z)) (ZZ (filter ina Z)) (option_map RL (ledger_of J Z)) [])
      with (RW (mkWorld (filter inh Z) (filter ina Z) (ledger_of J Z) [])).
    rewrite (market_generate_ren f g Hf Hnum Hres hcur acur (r hcur) (r acur)) by (right; right; split; reflexivity).
    destruct (market_generate hcur acur _ i res others) as [W|]; cbn [rmap bind]; [|reflexivity].
    cbn [fxl home abroad crosses ren_world]. rewrite (put_back_p_ren inh _ Pinh), (put_back_p_ren ina _ Pina), store_ledger_ren.
    destruct (store_ledger J (fxl W) _) as [Z1|]; cbn [rmap bind]; [|reflexivity].
    change [r acur] with (map r [acur]). now apply ensure_crosses_ren.
  - set (rest0 := fun s => negb (inh s)).
    assert (Prest : forall s, negb (in_zone (map RC (j_countries J)) (r hcur) (S s)) = rest0 s) by (intros; unfold rest0; now rewrite Pinh).
    rewrite (filter_ren f inh _ Z Pinh), (filter_ren f rest0 _ Z Prest), ledger_of_ren.
    change (mkWorld (ZZ (filter inh Z)) (ZZ (filter rest0 Z)) (option_map RL (ledger_of J Z)) [])
      with (RW (mkWorld (filter inh Z) (filter rest0 Z) (ledger_of J Z) [])).
    rewrite (market_generate_multi_ren hcur (sec_currency J Z) (sec_currency (ren_info2 J) (ZZ Z))) by (intros; apply sec_currency_ren).
    destruct (market_generate_multi hcur (sec_currency J Z) _ i res others) as [W|]; cbn [rmap bind]; [|reflexivity].
    cbn [fxl home abroad crosses ren_world]. rewrite (put_back_p_ren inh _ Pinh), (put_back_p_ren rest0 _ Prest), store_ledger_ren.
    destruct (store_ledger J (fxl W) _) as [Z1|]; cbn [rmap bind]; [|reflexivity].
    change (r acur :: r a2 :: map r rest) with (map r (acur :: a2 :: rest)). now apply ensure_crosses_ren.
Qed.

(* ------------------------------------------------------------------ *)
(** * Gold *)

Lemma squeeze_lit_end p x : lstrip p = p -> p <> "" -> rstrip p = p -> clean x = true ->
  squeeze (p ++ x) = remove_char " "%char p ++ x.
Proof. apply squeeze_end. Qed.

Theorem gold_step_ren J i self stock with_ic st : jinv J -> zinv (h_zone st) ->
  gold_step (ren_info2 J) i (S self) stock with_ic (ren_g2 st) = rmap ren_g2 (gold_step J i self stock with_ic st).
Proof.
  intros HJ HZ. unfold gold_step. cbn [j_ext ren_info2 h_zone h_flows h_ic ren_g2]. destruct (j_ext J) as [e|] eqn:Ee; [|reflexivity].
  rewrite cur_of_sec_ren. set (cur := cur_of_sec J self). assert (Hcur : clean cur = true) by (now apply cur_of_sec_clean).
  rewrite (find_sec_ren f). destruct (find_sec (e_fx e) (h_zone st)) as [fx|] eqn:Efx; cbn [option_map]; [|reflexivity].
  rewrite net_name_ren, (has_var_ren f g Hf). destruct (has_var fx ("NET_" ++ cur)); [|reflexivity].
  assert (Hfx : clean (fullcode fx) = true) by (eapply zinv_find; eauto).
  sf. rewrite <- (rfull (fullcode fx) ("NET_" ++ cur)).
  set (balance := fullcode fx ++ "__" ++ "NET_" ++ cur).
  assert (Hbal : clean balance = true) by (unfold balance; rewrite !clean_app, Hfx, Hcur; reflexivity).
  rewrite (upd_ren f i (fun s => addv s "GOLDPURCHASES" ("GOLDPURCHASES - " ++ balance))).
  2:{ intros s. apply (addv_gen f g Hf); [lit0|].
      assert (Hbn : balance <> "") by (unfold balance; destruct (fullcode fx); discriminate).
      change ("GOLDPURCHASES - " ++ r balance) with ("GOLDPURCHASES" ++ " - " ++ r balance).
      change ("GOLDPURCHASES - " ++ balance) with ("GOLDPURCHASES" ++ " - " ++ balance).
      rewrite !squeeze_join; try reflexivity; try discriminate; try assumption; try (now rewrite (clean_R f g Hf));
        try (intros H0; apply (proj1 (R_nil_iff f g Hf _)) in H0; contradiction).
      cbn [remove_char Ascii.eqb Bool.eqb]. change ("GOLDPURCHASES" ++ "-" ++ balance) with ("GOLDPURCHASES-" ++ balance).
      now rewrite rpre by reflexivity. }
  destruct (upd i _ (h_zone st)) as [Z1|] eqn:E1; cbn [rmap bind]; [|reflexivity].
  rewrite (upd_ren f (e_gold e) (fun g0 => do g1 <- (if has_var g0 "PRICE" then Ok g0 else addv g0 "PRICE" "1.0") ;;
                                           if has_var g1 "NETOZ" then Ok g1 else addv g1 "NETOZ" "")).
  2:{ intros g0. rewrite (has_var_lit f g Hf Hnum Hres) by reflexivity.
      assert (E0 : (if has_var g0 "PRICE" then Ok (S g0) else addv (S g0) "PRICE" "1.0") =
                   rmap S (if has_var g0 "PRICE" then Ok g0 else addv g0 "PRICE" "1.0")).
      { destruct (has_var g0 "PRICE"); [reflexivity|]. apply (addv_gen f g Hf); lit0. }
      rewrite E0. destruct (if has_var g0 "PRICE" then Ok g0 else addv g0 "PRICE" "1.0") as [g1|]; cbn [rmap bind]; [|reflexivity].
      rewrite (has_var_lit f g Hf Hnum Hres) by reflexivity. destruct (has_var g1 "NETOZ"); [reflexivity|].
      apply (addv_gen f g Hf); lit0. }
  destruct (upd (e_gold e) _ Z1) as [Z2|] eqn:E2; cbn [rmap bind]; [|reflexivity].
  rewrite (find_sec_ren f). destruct (find_sec (e_gold e) Z2) as [gs|] eqn:Eg; cbn [option_map]; [|reflexivity].
  rewrite xr_full_ren. destruct (xr_full J Z2 cur) as [xr|] eqn:Ex; cbn [rmap bind]; [|reflexivity].
  (* full codes stay clean along the steps *)
  assert (F1 : Forall2 TaxProofs.frame (h_zone st) Z1).
  { eapply upd_frame; [exact E1|]. intros s s' Hs. eapply addv_frame; exact Hs. }
  assert (F2 : Forall2 TaxProofs.frame Z1 Z2).
  { eapply upd_frame; [exact E2|]. intros s s' Hs. cbv beta in Hs.
    destruct (if has_var s "PRICE" then Ok s else addv s "PRICE" "1.0") as [g1|] eqn:Eg1.
    2:{ discriminate Hs. }
    simpl in Hs.
    assert (Fa : TaxProofs.frame s g1).
    { destruct (has_var s "PRICE"); [injection Eg1 as <-; apply frame_refl|eapply addv_frame; exact Eg1]. }
    assert (Fb : TaxProofs.frame g1 s').
    { destruct (has_var g1 "NETOZ"); [injection Hs as <-; apply frame_refl|eapply addv_frame; exact Hs]. }
    eapply frame_trans; eauto. }
  assert (HZ2 : zinv Z2).
  { apply (zinv_frame Z1 Z2 F2). apply (zinv_frame _ Z1 F1). exact HZ. }
  assert (Hgs : clean (fullcode gs) = true) by (eapply zinv_find; eauto).
  assert (Hxr : clean xr = true).
  { unfold xr_full in Ex. rewrite Ee in Ex. destruct (find_sec (e_xr e) Z2) as [xs|] eqn:Exs; [|discriminate].
    destruct (has_var xs cur); [|discriminate]. injection Ex as <-. rewrite !clean_app.
    rewrite (zinv_find _ _ _ HZ2 Exs). cbn [andb]. apply andb_true_iff. split; [reflexivity|exact Hcur]. }
  sf. set (price := fullcode gs ++ "__" ++ "PRICE").
  assert (Hprice : r (fullcode gs) ++ "__" ++ "PRICE" = r price).
  { unfold price. rewrite rfull. now rewrite (rlit "PRICE") by reflexivity. }
  assert (Hpr : clean price = true) by (unfold price; rewrite !clean_app, Hgs; reflexivity).
  set (full := fullcode self ++ "__" ++ "GOLDPURCHASES").
  assert (Hfull : r (fullcode self) ++ "__" ++ "GOLDPURCHASES" = r full).
  { unfold full. rewrite rfull. now rewrite (rlit "GOLDPURCHASES") by reflexivity. }
  rewrite (upd_ren f i (fun s => addvs s [("GOLDPRICE", price ++ " / " ++ xr);
                                           ("GOLD", "(LAG_GOLD_OZ * GOLDPRICE) + GOLDPURCHASES");
                                           ("LAG_GOLD_OZ", "GOLD_OZ(k-1)"); ("GOLD_OZ", "GOLD / GOLDPRICE")])).
  2:{ intros s. apply (addvs_gen f g Hf). repeat constructor; cbn [fst snd]; try lit0.
      assert (Hxn : xr <> "").
      { unfold xr_full in Ex. rewrite Ee in Ex. destruct (find_sec (e_xr e) Z2) as [xs|]; [|discriminate].
        destruct (has_var _ cur); [|discriminate]. injection Ex as <-. destruct (fullcode xs); discriminate. }
      assert (Hpn : price <> "") by (unfold price; destruct (fullcode gs); discriminate).
      rewrite Hprice.
      rewrite !squeeze_join; try assumption; try (now rewrite (clean_R f g Hf));
        try (intros H0; apply (proj1 (R_nil_iff f g Hf _)) in H0; contradiction).
      cbn [remove_char Ascii.eqb Bool.eqb]. rewrite (r_app_r f g Hf) by reflexivity. now rewrite (rpre "/") by reflexivity. }
  destruct (upd i _ Z2) as [Z3|]; cbn [rmap bind]; [|reflexivity].
  rewrite Hfull. rewrite send_money_ren. fold full. destruct (send_money J cur full Z3) as [Z4|]; cbn [rmap bind]; [|reflexivity].
  rewrite (upd_ren f i (fun s => opt_key (add_cash_flow s ((-1)%Z, ["GOLDPURCHASES"]) None false))).
  2:{ intros s. assert (HT : ((-1)%Z, ["GOLDPURCHASES"]) = T ((-1)%Z, ["GOLDPURCHASES"])).
      { unfold ren_term. simpl. now rewrite (rlit "GOLDPURCHASES" eq_refl). }
      rewrite HT at 1. rewrite (add_cash_flow_none f g Hf Hnum Hres). apply opt_key_ren. }
  destruct (upd i _ Z4) as [Z5|]; cbn [rmap bind]; [|reflexivity].
  rewrite (upd_ren f (e_gold e) (fun g0 => opt_key (add_term_to_eq g0 "NETOZ" (1%Z, [xr; full])))).
  2:{ intros g0. change (1%Z, [r xr; r full]) with (T (1%Z, [xr; full])).
      rewrite (add_term_to_eq_lit f g Hf Hnum Hres) by reflexivity. apply opt_key_ren. }
  destruct (upd (e_gold e) _ Z5) as [Z6|]; cbn [rmap bind]; [|reflexivity].
  unfold ren_g2. cbn [h_zone h_flows h_ic]. f_equal. f_equal. rewrite !map_app. f_equal.
  destruct with_ic; cbn [map app ren_icd]; now rewrite ?(rlit "GOLDPURCHASES"), ?(rlit "GOLD_OZ"), ?(rlit "LAG_GOLD_OZ") by reflexivity.
Qed.

(* ------------------------------------------------------------------ *)
(** * _GenerateEquations, sector by sector *)

Lemma biz_ids2_ren J C : biz_ids2 (ren_info2 J) (ZZ C) = biz_ids2 J C.
Proof.
  unfold biz_ids2. cbn [j_classes ren_info2].
  rewrite (filter_ren f (fun s => match class_of2 (j_classes J) (sid s) with COld k => is_fmb k | _ => false end)).
  2:{ intros s. sf. rewrite (class_of2_ren f). destruct (class_of2 (j_classes J) (sid s)) as [k0| | | | |]; try reflexivity.
      apply (is_fmb_ren f). }
  unfold ren_zone. rewrite map_map. reflexivity.
Qed.

Definition is_dep2 (k : cls2) : bool := match k with COld (CDepositMarket _) => true | _ => false end.

Definition dep_ok2 (cl : list cls2) (Z : zone) : Prop :=
  forall i self, find_sec i Z = Some self -> is_dep2 (class_of2 cl i) = true -> int_okb f (code self) = true.

Theorem gen_step2_ren J st ik : jinv J -> zinv (h_zone st) -> dep_ok2 (j_classes J) (h_zone st) ->
  snd ik = class_of2 (j_classes J) (fst ik) ->
  gen_step2 (ren_info2 J) (ren_g2 st) (fst ik, ren_cls2 f (snd ik)) = rmap ren_g2 (gen_step2 J st ik).
Proof.
  intros HJ HZ Hdep Hk. destruct ik as [i k]. cbn [fst snd] in *. unfold gen_step2. cbn [h_zone ren_g2 h_flows h_ic].
  rewrite (find_sec_ren f). destruct (find_sec i (h_zone st)) as [self|] eqn:Efs; cbn [option_map]; [|reflexivity].
  assert (SF : forall (rz rz' : result zone), rz' = rmap ZZ rz ->
               (do Z' <- rz' ;; Ok (mkG2 Z' (map (ren_flow f) (h_flows st)) (map (ren_icd f) (h_ic st)))) =
               rmap ren_g2 (do Z' <- rz ;; Ok (mkG2 Z' (h_flows st) (h_ic st)))).
  { intros rz rz' ->. destruct rz; reflexivity. }
  assert (REG : forall t, mkG2 (ZZ (h_zone st)) (map (ren_flow f) (h_flows st) ++ [(i, t, "INTDEP", true, true)])%list (map (ren_icd f) (h_ic st)) =
                          ren_g2 (mkG2 (h_zone st) (h_flows st ++ [(i, t, "INTDEP", true, true)])%list (h_ic st))).
  { intros t. unfold ren_g2. cbn [h_zone h_flows h_ic]. rewrite map_app. cbn [map ren_flow]. now rewrite (rlit "INTDEP") by reflexivity. }
  rewrite cur_of_sec_ren. cbn [j_countries ren_info2].
  set (inz := in_zone (j_countries J) (cur_of_sec J self)).
  assert (Pinz : forall s, in_zone (map RC (j_countries J)) (r (cur_of_sec J self)) (S s) = inz s) by (intros; apply (in_zone_ren f g Hf)).
  destruct k as [k0|stock|t stock| | |]; cbn [ren_cls2]; try reflexivity.
  2:{ now apply gold_step_ren. }
  2:{ rewrite REG. apply (gold_step_ren J i self stock false (mkG2 (h_zone st) (h_flows st ++ [(i, t, "INTDEP", true, true)])%list (h_ic st))); assumption. }
  destruct k0 as [| |t|ai af good lab|ai af good lab|ai af good|mz wage margin lab out|mz wage lab ms|rate pt| |iss|iss]; cbn [ren_cls].
  - reflexivity.
  - reflexivity.
  - cbn [rmap]. now rewrite REG.
  - apply SF. apply (upd_ren f). intros s.
    rewrite <- (rlit "AlphaIncome" eq_refl), <- (rlit "AlphaFin" eq_refl) at 1.
    apply (apply_resets_ren f g Hf [("AlphaIncome", ai); ("AlphaFin", af)]).
  - apply SF. apply (upd_ren f). intros s.
    rewrite <- (rlit "AlphaIncome" eq_refl), <- (rlit "AlphaFin" eq_refl) at 1.
    apply (apply_resets_ren f g Hf [("AlphaIncome", ai); ("AlphaFin", af)]).
  - apply SF. apply (upd_ren f). intros s.
    rewrite <- (rlit "AlphaIncome" eq_refl), <- (rlit "AlphaFin" eq_refl) at 1.
    apply (apply_resets_ren f g Hf [("AlphaIncome", ai); ("AlphaFin", af)]).
  - sf. rewrite (filter_ren f (in_country (country self))) by (intros; apply (in_country_ren f g Hf)).
    rewrite (find_ren f (fun s => String.eqb (code s) out)) by (intros s; sf; apply reqb).
    destruct (find (fun s => String.eqb (code s) out) (filter (in_country (country self)) (h_zone st))) as [mk|]; cbn [option_map]; [|reflexivity].
    rewrite <- (rpre "SUP_" out) by reflexivity. rewrite (has_var_ren f g Hf).
    destruct (has_var mk ("SUP_" ++ out)); [|reflexivity].
    apply SF. sf. rewrite <- (rfull (fullcode mk) ("SUP_" ++ out)). rewrite (wage_resets_ren f g Hf Hnum Hres), biz_ids2_ren.
    apply on_part_ren; [intros; apply (in_country_ren f g Hf)|]. intros C. apply (firm_generate_ren f g Hf Hnum Hres).
  - rewrite (upd_ren f i (apply_resets [("DEM_" ++ lab, if mz then "SUP" else wage ++ "*SUP")])).
    2:{ intros s. rewrite <- (rpre "DEM_" lab) by reflexivity.
        assert (HT : (if mz then "SUP" else r wage ++ "*SUP") = r (if mz then "SUP" else wage ++ "*SUP")).
        { destruct mz; [now rewrite (rlit "SUP")|]. rewrite (r_app_r f g Hf) by reflexivity. now rewrite (rlit "*SUP"). }
        rewrite HT. apply (apply_resets_ren f g Hf [("DEM_" ++ lab, if mz then "SUP" else wage ++ "*SUP")]). }
    destruct (upd i _ (h_zone st)) as [Z1|]; cbn [rmap bind]; [|reflexivity]. sf.
    rewrite (filter_ren f (in_country (country self))) by (intros; apply (in_country_ren f g Hf)).
    rewrite (existsb_ren f (fun s => has_var s "DIV")) by (intros; apply (has_var_lit f g Hf Hnum Hres); reflexivity).
    destruct (existsb _ _); reflexivity.
  - apply SF. apply on_part_ren; [exact Pinz|]. intros C. apply (tax_generate_ren f g Hf Hnum Hres).
  - apply SF. now apply market_step_ren.
  - apply SF. apply on_part_ren; [exact Pinz|]. intros C. sf. apply (money_generate_checked_ren f g Hf Hnum Hres).
  - apply SF. apply on_part_ren; [exact Pinz|]. intros C. sf. apply (deposit_generate_checked_ren f g Hf Hnum Hres).
    unfold int_ok. apply String.eqb_eq. apply (Hdep i self Efs). now rewrite <- Hk.
Qed.

(* ------------------------------------------------------------------ *)
(** * Registered cash flows *)

Theorem flow_step2_ren J Z fl : jinv J -> flow_step2 (ren_info2 J) (ZZ Z) (ren_flow f fl) = rmap ZZ (flow_step2 J Z fl).
Proof.
  intros HJ. destruct fl as [[[[src tgt] var] a] b]. unfold flow_step2, ren_flow. destruct tgt as [tg|]; [|reflexivity].
  rewrite !(find_sec_ren f). destruct (find_sec src Z) as [s|]; cbn [option_map]; [|reflexivity].
  destruct (find_sec tg Z) as [t|]; cbn [option_map]; [|reflexivity].
  rewrite !cur_of_sec_ren, reqb. cbn [j_ext ren_info2].
  set (csrc := cur_of_sec J s). set (ctgt := cur_of_sec J t).
  destruct (negb (String.eqb csrc ctgt) && match j_ext J with None => true | Some _ => false end); [reflexivity|].
  rewrite (has_var_ren f g Hf). destruct (has_var s var); [|reflexivity]. sf. rewrite <- rfull.
  set (full := fullcode s ++ "__" ++ var).
  rewrite (upd_ren f src (fun x => opt_key (add_cash_flow x ((-1)%Z, [full]) None a))).
  2:{ intros x. change ((-1)%Z, [r full]) with (T ((-1)%Z, [full])).
      rewrite (add_cash_flow_none f g Hf Hnum Hres). apply opt_key_ren. }
  destruct (upd src _ Z) as [Z1|]; cbn [rmap bind]; [|reflexivity].
  destruct (negb (String.eqb csrc ctgt)).
  - rewrite send_money_ren. destruct (send_money J csrc full Z1) as [Z2|]; cbn [rmap bind]; [|reflexivity].
    rewrite receive_money_ren by (now apply cur_of_sec_clean).
    destruct (receive_money J csrc ctgt full Z2) as [zt|]; cbn [rmap bind]; [|reflexivity].
    apply (upd_ren f). intros x. cbn [fst snd ren_zt2]. rewrite (add_cash_flow_none f g Hf Hnum Hres). apply opt_key_ren.
  - apply (upd_ren f). intros x. change (1%Z, [r full]) with (T (1%Z, [full])).
    rewrite (add_cash_flow_none f g Hf Hnum Hres). apply opt_key_ren.
Qed.

End Main2Eq.
