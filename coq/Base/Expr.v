(** Arithmetic expressions as Python's [ast] sees them (the harness parses every
    right-hand side with [ast.parse], the same parser [eval] uses, and emits this AST),
    with two evaluators:
    - [evalF]: IEEE doubles ([PrimFloat]) with Python's exception semantics
      (left-to-right evaluation, [ZeroDivisionError] on [/ 0.0], [ValueError] from
      [math.sqrt] of a negative, [NameError] for an unbound name); overflow to [inf]
      and NaN propagate silently, as in Python float arithmetic;
    - [evalR]: the same expression over the reals, literals interpreted by [lit]
      (the "exact-arithmetic instance" used by the residual/contraction theorems).
    Literals are a parameter [L]: [float] for the solver models, [Q] for the exact
    checkers of the generator properties. *)
From Coq Require Import List String Bool PrimFloat Reals.
From SFC.Base Require Import Res.
Import ListNotations.

Inductive fn1 := Fabs | Fsqrt | Ffloat.
Inductive fn2 := Fmax | Fmin.

Inductive expr (L : Type) : Type :=
| ENum : L -> expr L
| EVar : string -> expr L
| ENeg : expr L -> expr L
| EPos : expr L -> expr L
| EAdd : expr L -> expr L -> expr L
| ESub : expr L -> expr L -> expr L
| EMul : expr L -> expr L -> expr L
| EDiv : expr L -> expr L -> expr L
| ECall1 : fn1 -> expr L -> expr L
| ECall2 : fn2 -> expr L -> expr L -> expr L.
Arguments ENum {L} _.
Arguments EVar {L} _.
Arguments ENeg {L} _.
Arguments EPos {L} _.
Arguments EAdd {L} _ _.
Arguments ESub {L} _ _.
Arguments EMul {L} _ _.
Arguments EDiv {L} _ _.
Arguments ECall1 {L} _ _.
Arguments ECall2 {L} _ _ _.

(** Names occurring in an expression, in order of appearance (Python [list_tokens]
    restricted to variables; function names are not part of this AST). *)
Fixpoint names {L} (e : expr L) : list string :=
  match e with
  | ENum _ => []
  | EVar x => [x]
  | ENeg a | EPos a | ECall1 _ a => names a
  | EAdd a b | ESub a b | EMul a b | EDiv a b | ECall2 _ a b => names a ++ names b
  end.

(** Simultaneous renaming of variables. *)
Fixpoint rename {L} (m : string -> string) (e : expr L) : expr L :=
  match e with
  | ENum c => ENum c
  | EVar x => EVar (m x)
  | ENeg a => ENeg (rename m a)
  | EPos a => EPos (rename m a)
  | EAdd a b => EAdd (rename m a) (rename m b)
  | ESub a b => ESub (rename m a) (rename m b)
  | EMul a b => EMul (rename m a) (rename m b)
  | EDiv a b => EDiv (rename m a) (rename m b)
  | ECall1 f a => ECall1 f (rename m a)
  | ECall2 f a b => ECall2 f (rename m a) (rename m b)
  end.

(** Substitution of a variable by an expression (what alias substitution does). *)
Fixpoint subst {L} (x : string) (r : expr L) (e : expr L) : expr L :=
  match e with
  | ENum c => ENum c
  | EVar y => if String.eqb y x then r else EVar y
  | ENeg a => ENeg (subst x r a)
  | EPos a => EPos (subst x r a)
  | EAdd a b => EAdd (subst x r a) (subst x r b)
  | ESub a b => ESub (subst x r a) (subst x r b)
  | EMul a b => EMul (subst x r a) (subst x r b)
  | EDiv a b => EDiv (subst x r a) (subst x r b)
  | ECall1 f a => ECall1 f (subst x r a)
  | ECall2 f a b => ECall2 f (subst x r a) (subst x r b)
  end.

(* ------------------------------------------------------------------ *)
(** * IEEE-double evaluation with Python's exceptions *)

Local Open Scope float_scope.

Definition is_zero (x : float) : bool := PrimFloat.eqb x 0.   (* true for +0.0 and -0.0, false for NaN *)

(** Python [max(a, b)]: keeps [a] unless [b > a]; [min(a, b)]: keeps [a] unless [b < a]. *)
Definition py_max (a b : float) : float := if PrimFloat.ltb a b then b else a.
Definition py_min (a b : float) : float := if PrimFloat.ltb b a then b else a.

Definition call1F (f : fn1) (x : float) : result float :=
  match f with
  | Fabs => Ok (PrimFloat.abs x)
  | Ffloat => Ok x
  | Fsqrt => if PrimFloat.ltb x 0 then Err ValueError else Ok (PrimFloat.sqrt x)
  end.

Definition call2F (f : fn2) (a b : float) : float :=
  match f with Fmax => py_max a b | Fmin => py_min a b end.

Fixpoint evalF (env : string -> option float) (e : expr float) : result float :=
  match e with
  | ENum c => Ok c
  | EVar x => match env x with Some v => Ok v | None => Err NameError end
  | ENeg a => bind (evalF env a) (fun x => Ok (PrimFloat.opp x))
  | EPos a => evalF env a
  | EAdd a b => bind (evalF env a) (fun x => bind (evalF env b) (fun y => Ok (x + y)))
  | ESub a b => bind (evalF env a) (fun x => bind (evalF env b) (fun y => Ok (x - y)))
  | EMul a b => bind (evalF env a) (fun x => bind (evalF env b) (fun y => Ok (x * y)))
  | EDiv a b => bind (evalF env a) (fun x => bind (evalF env b) (fun y =>
                  if is_zero y then Err ZeroDiv else Ok (x / y)))
  | ECall1 f a => bind (evalF env a) (call1F f)
  | ECall2 f a b => bind (evalF env a) (fun x => bind (evalF env b) (fun y => Ok (call2F f x y)))
  end.

Definition is_nan (x : float) : bool := negb (PrimFloat.eqb x x).
Definition is_inf (x : float) : bool := PrimFloat.eqb (PrimFloat.abs x) infinity.
Definition is_finite (x : float) : bool := negb (is_nan x) && negb (is_inf x).

(** Bit-level equality used by the correspondence check: same class, sign, mantissa and
    exponent ([Prim2SF]); all NaNs are identified (Python's [float.hex] prints 'nan'). *)
Definition same_float (a b : float) : bool :=
  if is_nan a then is_nan b
  else if is_nan b then false
  else PrimFloat.eqb a b && Bool.eqb (PrimFloat.ltb (1 / a) 0) (PrimFloat.ltb (1 / b) 0).

(* ------------------------------------------------------------------ *)
(** * Real-number evaluation (total; division is Coq's [Rdiv]) *)

Local Open Scope R_scope.

Definition call1R (f : fn1) (x : R) : R :=
  match f with Fabs => Rabs x | Ffloat => x | Fsqrt => sqrt x end.
Definition call2R (f : fn2) (a b : R) : R :=
  match f with Fmax => Rmax a b | Fmin => Rmin a b end.

Fixpoint evalR {L} (lit : L -> R) (env : string -> R) (e : expr L) : R :=
  match e with
  | ENum c => lit c
  | EVar x => env x
  | ENeg a => - evalR lit env a
  | EPos a => evalR lit env a
  | EAdd a b => evalR lit env a + evalR lit env b
  | ESub a b => evalR lit env a - evalR lit env b
  | EMul a b => evalR lit env a * evalR lit env b
  | EDiv a b => evalR lit env a / evalR lit env b
  | ECall1 f a => call1R f (evalR lit env a)
  | ECall2 f a b => call2R f (evalR lit env a) (evalR lit env b)
  end.

(** Renaming and evaluation commute: the semantic core of "names are labels". *)
Lemma evalR_rename {L} (lit : L -> R) (m : string -> string) (env : string -> R) (e : expr L) :
  evalR lit env (rename m e) = evalR lit (fun x => env (m x)) e.
Proof. induction e; cbn [evalR rename]; rewrite ?IHe, ?IHe1, ?IHe2; reflexivity. Qed.

Lemma evalF_rename (m : string -> string) (env : string -> option float) (e : expr float) :
  evalF env (rename m e) = evalF (fun x => env (m x)) e.
Proof. induction e; cbn [evalF rename]; rewrite ?IHe, ?IHe1, ?IHe2; reflexivity. Qed.

(** Evaluation depends only on the names that occur. *)
Lemma evalR_ext {L} (lit : L -> R) (env1 env2 : string -> R) (e : expr L) :
  (forall x, List.In x (names e) -> env1 x = env2 x) -> evalR lit env1 e = evalR lit env2 e.
Proof.
  induction e; simpl; intros H; try reflexivity;
    try (rewrite IHe by auto; reflexivity);
    try (rewrite IHe1, IHe2 by (intros; apply H; apply in_or_app; auto); reflexivity).
  apply H. now left.
Qed.

Lemma evalF_ext (env1 env2 : string -> option float) (e : expr float) :
  (forall x, List.In x (names e) -> env1 x = env2 x) -> evalF env1 e = evalF env2 e.
Proof.
  induction e; simpl; intros H; try reflexivity;
    try (rewrite IHe by auto; reflexivity);
    try (rewrite IHe1, IHe2 by (intros; apply H; apply in_or_app; auto); reflexivity).
  rewrite H by now left. reflexivity.
Qed.

(** Substituting [x := r] is evaluating in the environment where [x] has [r]'s value. *)
Lemma evalR_subst {L} (lit : L -> R) (env : string -> R) (x : string) (r e : expr L) :
  evalR lit env (subst x r e) =
  evalR lit (fun y => if String.eqb y x then evalR lit env r else env y) e.
Proof.
  induction e; cbn [evalR subst]; rewrite ?IHe, ?IHe1, ?IHe2; try reflexivity.
  destruct (String.eqb s x); reflexivity.
Qed.
