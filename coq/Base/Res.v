(** Outcomes of modelled Python calls: a value or an exception class.
    [OutOfFuel] never corresponds to a Python outcome, so a fuel bug shows up as a
    disagreement in the correspondence check, never as an agreement. *)
From Coq Require Import List String.
Import ListNotations.

Inductive err : Type :=
| LogicError | KeyError | ValueError | ConvergenceError | NoEquilibrium | NameError
| ZeroDiv | TokenError | NotImplemented | TypeError | SyntaxError | IndexError
| Warning_ | OverflowError | OtherError | OutOfFuel.

Inductive result (A : Type) : Type :=
| Ok : A -> result A
| Err : err -> result A.
Arguments Ok {A} _.
Arguments Err {A} _.

Definition bind {A B} (r : result A) (f : A -> result B) : result B :=
  match r with Ok a => f a | Err e => Err e end.

Definition err_eqb (a b : err) : bool :=
  match a, b with
  | LogicError, LogicError | KeyError, KeyError | ValueError, ValueError
  | ConvergenceError, ConvergenceError | NoEquilibrium, NoEquilibrium | NameError, NameError
  | ZeroDiv, ZeroDiv | TokenError, TokenError | NotImplemented, NotImplemented
  | TypeError, TypeError | SyntaxError, SyntaxError | IndexError, IndexError
  | Warning_, Warning_ | OverflowError, OverflowError | OtherError, OtherError
  | OutOfFuel, OutOfFuel => true
  | _, _ => false
  end.

Lemma err_eqb_eq a b : err_eqb a b = true <-> a = b.
Proof. destruct a, b; simpl; split; intros H; try reflexivity; try discriminate. Qed.

Definition is_ok {A} (r : result A) : bool := match r with Ok _ => true | Err _ => false end.

Notation "'do' x <- r ;; k" := (bind r (fun x => k)) (at level 200, x pattern, r at level 100, k at level 200).
