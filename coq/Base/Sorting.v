(** Insertion sort on strings by [String.leb]: the model of Python's [list.sort()] on
    ASCII strings (any stable/unstable sort gives the same list up to equal elements,
    and equal strings are identical). *)
From Coq Require Import List String Bool Sorted Permutation.
From SFC.Base Require Import Str.
Import ListNotations.

Fixpoint insert (x : string) (l : list string) : list string :=
  match l with
  | [] => [x]
  | y :: l' => if String.leb x y then x :: l else y :: insert x l'
  end.

Fixpoint sort (l : list string) : list string :=
  match l with [] => [] | x :: l' => insert x (sort l') end.

Definition sle (a b : string) : Prop := String.leb a b = true.

Lemma insert_perm x l : Permutation (x :: l) (insert x l).
Proof.
  induction l as [|y l IH]; simpl; [constructor; constructor|].
  destruct (String.leb x y); [apply Permutation_refl|].
  eapply perm_trans; [apply perm_swap|]. now constructor.
Qed.

Lemma sort_perm l : Permutation l (sort l).
Proof.
  induction l as [|x l IH]; simpl; [constructor|].
  eapply perm_trans; [|apply insert_perm]. now constructor.
Qed.

Lemma insert_sorted x l : Sorted sle l -> Sorted sle (insert x l).
Proof.
  induction l as [|y l IH]; intros Hs; simpl; [repeat constructor|].
  destruct (String.leb x y) eqn:Hxy.
  - constructor; [assumption|]. constructor. exact Hxy.
  - inversion Hs as [|? ? Hs' Hhd]; subst.
    constructor; [now apply IH|].
    destruct l as [|z l]; simpl.
    + constructor. unfold sle. destruct (String.leb_total x y) as [H|H]; [congruence|assumption].
    + destruct (String.leb x z).
      * constructor. unfold sle. destruct (String.leb_total x y) as [H|H]; [congruence|assumption].
      * inversion Hhd; subst. now constructor.
Qed.

Lemma sort_sorted l : Sorted sle (sort l).
Proof. induction l as [|x l IH]; simpl; [constructor|]. now apply insert_sorted. Qed.

Lemma sle_trans : Relations_1.Transitive sle.
Proof. intros a b c. apply leb_trans. Qed.

Lemma sort_strongly_sorted l : StronglySorted sle (sort l).
Proof. apply Sorted_StronglySorted; [exact sle_trans|apply sort_sorted]. Qed.

Lemma sort_In x l : List.In x (sort l) <-> List.In x l.
Proof.
  split; intros H.
  - eapply Permutation_in; [apply Permutation_sym, sort_perm|exact H].
  - eapply Permutation_in; [apply sort_perm|exact H].
Qed.

Lemma sort_NoDup l : NoDup l -> NoDup (sort l).
Proof. intros H. eapply Permutation_NoDup; [apply sort_perm|exact H]. Qed.

Lemma sort_length l : List.length (sort l) = List.length l.
Proof. symmetry. apply Permutation_length, sort_perm. Qed.
