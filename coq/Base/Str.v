(** Mirrors of the Python [str] operations the implementation uses, over Coq [string],
    and order facts about [String.leb] (code-point order = Python's order on ASCII). *)
From Coq Require Import List String Ascii Bool Arith NArith Lia.
Import ListNotations.
Local Open Scope string_scope.

(* ---- order ---- *)
Lemma ascii_compare_trans_lt a b c :
  Ascii.compare a b = Lt -> Ascii.compare b c = Lt -> Ascii.compare a c = Lt.
Proof.
  unfold Ascii.compare. rewrite !N.compare_lt_iff. lia.
Qed.

Lemma ascii_compare_eq a b : Ascii.compare a b = Eq -> a = b.
Proof.
  unfold Ascii.compare. rewrite N.compare_eq_iff. intros H.
  rewrite <- (ascii_N_embedding a), <- (ascii_N_embedding b). now rewrite H.
Qed.

Lemma ascii_compare_refl a : Ascii.compare a a = Eq.
Proof. unfold Ascii.compare. apply N.compare_refl. Qed.

Lemma string_compare_refl s : String.compare s s = Eq.
Proof. induction s as [|a s IH]; simpl; [reflexivity|]. now rewrite ascii_compare_refl. Qed.

Lemma string_compare_trans_lt : forall s1 s2 s3,
  String.compare s1 s2 = Lt -> String.compare s2 s3 = Lt -> String.compare s1 s3 = Lt.
Proof.
  induction s1 as [|a s1 IH]; intros [|b s2] [|c s3]; simpl; try congruence.
  destruct (Ascii.compare a b) eqn:Hab; try discriminate;
  destruct (Ascii.compare b c) eqn:Hbc; try discriminate; intros H1 H2.
  - apply ascii_compare_eq in Hab, Hbc. subst. rewrite ascii_compare_refl. eauto.
  - apply ascii_compare_eq in Hab. subst. now rewrite Hbc.
  - apply ascii_compare_eq in Hbc. subst. now rewrite Hab.
  - now rewrite (ascii_compare_trans_lt _ _ _ Hab Hbc).
Qed.

Lemma leb_trans s1 s2 s3 : String.leb s1 s2 = true -> String.leb s2 s3 = true -> String.leb s1 s3 = true.
Proof.
  unfold String.leb.
  destruct (String.compare s1 s2) eqn:H12; try discriminate;
  destruct (String.compare s2 s3) eqn:H23; try discriminate; intros _ _.
  - apply String.compare_eq_iff in H12, H23. subst. now rewrite string_compare_refl.
  - apply String.compare_eq_iff in H12. subst. now rewrite H23.
  - apply String.compare_eq_iff in H23. subst. now rewrite H12.
  - now rewrite (string_compare_trans_lt _ _ _ H12 H23).
Qed.

Lemma leb_refl s : String.leb s s = true.
Proof. unfold String.leb. now rewrite string_compare_refl. Qed.

(* ---- membership / list helpers on strings ---- *)
Fixpoint mem (x : string) (l : list string) : bool :=
  match l with [] => false | y :: l' => if String.eqb x y then true else mem x l' end.

Lemma mem_In x l : mem x l = true <-> In x l.
Proof.
  induction l as [|y l IH]; simpl; [split; [discriminate|tauto]|].
  destruct (String.eqb_spec x y) as [->|Hn]; [tauto|].
  rewrite IH. split; [tauto|]. intros [H|H]; [congruence|assumption].
Qed.

(** [remove_first x l]: Python's [list.remove(x)] when [x] is present. *)
Fixpoint remove_first (x : string) (l : list string) : list string :=
  match l with [] => [] | y :: l' => if String.eqb x y then l' else y :: remove_first x l' end.

(* ---- character classes ---- *)
Definition is_space (c : ascii) : bool :=
  match c with " "%char | "009"%char | "010"%char | "011"%char | "012"%char | "013"%char => true | _ => false end.

(** Python [str.strip()] (ASCII whitespace). *)
Fixpoint lstrip (s : string) : string :=
  match s with EmptyString => EmptyString | String c r => if is_space c then lstrip r else s end.
Fixpoint rstrip (s : string) : string :=
  match s with
  | EmptyString => EmptyString
  | String c r => match rstrip r with
                  | EmptyString => if is_space c then EmptyString else String c EmptyString
                  | r' => String c r'
                  end
  end.
Definition strip (s : string) : string := lstrip (rstrip s).

(** Python [s.replace(" ", "")]. *)
Fixpoint remove_char (x : ascii) (s : string) : string :=
  match s with
  | EmptyString => EmptyString
  | String c r => if Ascii.eqb c x then remove_char x r else String c (remove_char x r)
  end.

Fixpoint contains_char (x : ascii) (s : string) : bool :=
  match s with EmptyString => false | String c r => if Ascii.eqb c x then true else contains_char x r end.

(** Split on a single character, Python [s.split(c)] (always at least one field). *)
Fixpoint split_char (x : ascii) (s : string) : list string :=
  match s with
  | EmptyString => [EmptyString]
  | String c r =>
      if Ascii.eqb c x then EmptyString :: split_char x r
      else match split_char x r with
           | [] => [String c EmptyString]
           | f :: fs => String c f :: fs
           end
  end.

(** Python [sep.join(l)]. *)
Definition join (sep : string) (l : list string) : string := String.concat sep l.

Definition starts_with (p s : string) : bool := String.prefix p s.

Fixpoint to_lower (s : string) : string :=
  match s with
  | EmptyString => EmptyString
  | String c r =>
      let n := nat_of_ascii c in
      String (if andb (Nat.leb 65 n) (Nat.leb n 90) then ascii_of_nat (n + 32) else c) (to_lower r)
  end.

(** substring test, Python [p in s]. *)
Fixpoint has_substring (p s : string) : bool :=
  if String.prefix p s then true
  else match s with EmptyString => false | String _ r => has_substring p r end.

(** Python [s.find(p)] as an option. *)
Fixpoint find_sub (p s : string) : option nat :=
  if String.prefix p s then Some 0
  else match s with
       | EmptyString => None
       | String _ r => option_map S (find_sub p r)
       end.

(** Python [s.replace(p, q)] for non-empty [p]; fuel = length of [s] suffices. *)
Fixpoint drop (n : nat) (s : string) : string :=
  match n, s with 0, _ => s | S n', String _ r => drop n' r | S _, EmptyString => EmptyString end.
Fixpoint take (n : nat) (s : string) : string :=
  match n, s with 0, _ => EmptyString | S n', String c r => String c (take n' r) | S _, EmptyString => EmptyString end.

Fixpoint replace_fuel (fuel : nat) (p q s : string) : string :=
  match fuel with
  | 0 => s
  | S f =>
      if String.prefix p s then q ++ replace_fuel f p q (drop (String.length p) s)
      else match s with
           | EmptyString => EmptyString
           | String c r => String c (replace_fuel f p q r)
           end
  end.
Definition replace (p q s : string) : string :=
  match p with EmptyString => s | _ => replace_fuel (S (String.length s)) p q s end.

(* ---- append ---- *)
Lemma append_assoc (a b c : string) : (a ++ b) ++ c = a ++ (b ++ c).
Proof. induction a as [|x a IH]; simpl; [reflexivity|]. now rewrite IH. Qed.

Lemma append_nil_r (a : string) : a ++ "" = a.
Proof. induction a as [|x a IH]; simpl; [reflexivity|]. now rewrite IH. Qed.

Lemma length_append (a b : string) : String.length (a ++ b) = String.length a + String.length b.
Proof. induction a as [|x a IH]; simpl; [reflexivity|]. now rewrite IH. Qed.
