(** Lemmas about the tax-flow model (Tax.v): frame facts of the sector operations, the ledger
    identity of [tax_generate] and the group balance under the installed definitions. *)
From Coq Require Import List String Bool ZArith Arith Reals Lra Lia.
From SFC.Base Require Import Res Str.
From SFC.Gen Require Import Fx Zone.
From SFC.GenTax Require Import Tax.
Import ListNotations.
Local Open Scope string_scope.

(* ------------------------------------------------------------------ *)
(** * Sectors that differ only in their variables *)

Definition frame (s s' : sector) : Prop := s' = with_vars s (vars s').

Lemma frame_refl s : frame s s.
Proof. destruct s; reflexivity. Qed.

Lemma frame_trans a b c : frame a b -> frame b c -> frame a c.
Proof. unfold frame. intros H1 H2. rewrite H2 at 1. rewrite H1. reflexivity. Qed.

Lemma frame_with_vars s vs : frame s (with_vars s vs).
Proof. reflexivity. Qed.

Lemma frame_sid s s' : frame s s' -> sid s' = sid s.
Proof. intros H; rewrite H; reflexivity. Qed.
Lemma frame_code s s' : frame s s' -> code s' = code s.
Proof. intros H; rewrite H; reflexivity. Qed.
Lemma frame_fullcode s s' : frame s s' -> fullcode s' = fullcode s.
Proof. intros H; rewrite H; reflexivity. Qed.
Lemma frame_taxable s s' : frame s s' -> taxable s' = taxable s.
Proof. intros H; rewrite H; reflexivity. Qed.
Lemma frame_excl s s' : frame s s' -> excl s' = excl s.
Proof. intros H; rewrite H; reflexivity. Qed.

Lemma frame_vname s s' n : frame s s' -> vname s' n = vname s n.
Proof. intros H. unfold vname. now rewrite (frame_fullcode _ _ H). Qed.

(* ------------------------------------------------------------------ *)
(** * install / set_rhs / add_term_to_eq *)

Lemma install_frame s n e : frame s (install s n e).
Proof. reflexivity. Qed.

Lemma install_same s n e : lookup_var n (vars (install s n e)) = Some e.
Proof. simpl. apply lookup_set_same. Qed.

Lemma install_other s n m e : n <> m -> lookup_var m (vars (install s n e)) = lookup_var m (vars s).
Proof. intros H. simpl. now apply lookup_set_other. Qed.

Lemma set_rhs_install s n txt s' : set_rhs s n txt = Some s' -> s' = install s n (mkEqn txt []).
Proof. unfold set_rhs. destruct (lookup_var n (vars s)); [intros H; now inversion H|discriminate]. Qed.

Lemma set_struct_install s n e s' : set_struct s n e = Some s' -> s' = install s n e.
Proof. unfold set_struct. destruct (lookup_var n (vars s)); [intros H; now inversion H|discriminate]. Qed.

Lemma add_term_to_eq_spec s n t s' : add_term_to_eq s n t = Some s' ->
  exists e, lookup_var n (vars s) = Some e /\ s' = install s n (mkEqn (blob e) (add_term t (terms e))).
Proof.
  unfold add_term_to_eq. destruct (lookup_var n (vars s)) as [e|]; [|discriminate].
  intros H. inversion H. exists e. split; reflexivity.
Qed.

(* ------------------------------------------------------------------ *)
(** * AddCashFlow without a defining expression *)

Definition is_inc (s : sector) (t : term) (b : bool) : bool :=
  b && negb (mem (String.concat "*" (snd t)) (excl s)).

Lemma acf_none_spec s t b s' : add_cash_flow s t None b = Some s' ->
  exists eF, lookup_var "F" (vars s) = Some eF /\
    let s1 := install s "F" (mkEqn (blob eF) (add_term t (terms eF))) in
    if is_inc s t b
    then exists eI, lookup_var "INC" (vars s) = Some eI /\
                    s' = install s1 "INC" (mkEqn (blob eI) (add_term t (terms eI)))
    else s' = s1.
Proof.
  unfold add_cash_flow, is_inc.
  destruct (add_term_to_eq s "F" t) as [s1|] eqn:HF; [|discriminate].
  apply add_term_to_eq_spec in HF. destruct HF as (eF & HeF & ->).
  cbv zeta.
  destruct (b && negb (mem (String.concat "*" (snd t)) (excl s))) eqn:Hi.
  - destruct (add_term_to_eq _ "INC" t) as [s2|] eqn:HI; [|discriminate].
    apply add_term_to_eq_spec in HI. destruct HI as (eI & HeI & ->).
    intros H0. inversion H0. exists eF. split; [exact HeF|]. exists eI. split; [|reflexivity].
    rewrite install_other in HeI by discriminate. exact HeI.
  - intros H0. inversion H0. exists eF. split; [exact HeF|reflexivity].
Qed.

Lemma acf_none_frame s t b s' : add_cash_flow s t None b = Some s' -> frame s s'.
Proof.
  intros H. apply acf_none_spec in H. destruct H as (eF & _ & H). cbv zeta in H.
  destruct (is_inc s t b); [destruct H as (eI & _ & ->)|subst s']; reflexivity.
Qed.

Lemma acf_none_F s t b s' : add_cash_flow s t None b = Some s' ->
  exists eF, lookup_var "F" (vars s) = Some eF /\
             lookup_var "F" (vars s') = Some (mkEqn (blob eF) (add_term t (terms eF))).
Proof.
  intros H. apply acf_none_spec in H. destruct H as (eF & HeF & H). cbv zeta in H.
  exists eF. split; [exact HeF|].
  destruct (is_inc s t b); [destruct H as (eI & _ & ->)|subst s'].
  - rewrite install_other by discriminate. apply install_same.
  - apply install_same.
Qed.

Lemma acf_none_INC s t b s' : add_cash_flow s t None b = Some s' ->
  if is_inc s t b
  then exists eI, lookup_var "INC" (vars s) = Some eI /\
                  lookup_var "INC" (vars s') = Some (mkEqn (blob eI) (add_term t (terms eI)))
  else lookup_var "INC" (vars s') = lookup_var "INC" (vars s).
Proof.
  intros H. apply acf_none_spec in H. destruct H as (eF & HeF & H). cbv zeta in H.
  destruct (is_inc s t b); [destruct H as (eI & HeI & ->)|subst s'].
  - exists eI. split; [exact HeI|apply install_same].
  - apply install_other. discriminate.
Qed.

Lemma acf_none_other s t b s' n : add_cash_flow s t None b = Some s' ->
  n <> "F" -> n <> "INC" -> lookup_var n (vars s') = lookup_var n (vars s).
Proof.
  intros H HnF HnI. apply acf_none_spec in H. destruct H as (eF & HeF & H). cbv zeta in H.
  destruct (is_inc s t b); [destruct H as (eI & HeI & ->)|subst s'].
  - rewrite install_other by congruence. apply install_other. congruence.
  - apply install_other. congruence.
Qed.

(** with a text as defining expression, [Zone.add_cash_flow] is the structured version with a blob *)
Lemma acf_struct_blob s t d b :
  add_cash_flow s t (Some d) b = add_cash_flow_struct s t (mkEqn d []) b.
Proof.
  unfold add_cash_flow_struct, add_cash_flow.
  destruct (add_term_to_eq s "F" t) as [s1|]; [|reflexivity].
  destruct (if b && negb (mem (String.concat "*" (snd t)) (excl s)) then add_term_to_eq s1 "INC" t else Some s1)
    as [s2|]; [|reflexivity].
  unfold set_rhs, add_variable, install.
  destruct (lookup_var (String.concat "*" (snd t)) (vars s2)) as [e|]; [|reflexivity].
  destruct (renders_empty e); reflexivity.
Qed.

(* ------------------------------------------------------------------ *)
(** * AddCashFlow with a structured definition, for a single-name term *)

Definition fresh (s : sector) (n : string) : Prop :=
  match lookup_var n (vars s) with None => True | Some e => renders_empty e = true end.

Section Acf.
Variables (s s' : sector) (c : Z) (x : string) (def : eqn) (b : bool).
Hypothesis Hx : x <> "F".
Hypothesis Hx' : x <> "INC".
Hypothesis H : add_cash_flow_struct s (c, [x]) def b = Some s'.

Lemma acfs_inv : exists s2, add_cash_flow s (c, [x]) None b = Some s2 /\
  s' = match lookup_var x (vars s2) with
       | Some e => if renders_empty e then install s2 x def else s2
       | None => install s2 x def
       end.
Proof.
  unfold add_cash_flow_struct in H.
  destruct (add_cash_flow s (c, [x]) None b) as [s2|]; [|discriminate].
  exists s2. split; [reflexivity|]. simpl in H. now inversion H.
Qed.

Lemma acfs_frame : frame s s'.
Proof.
  destruct acfs_inv as (s2 & H2 & ->). apply acf_none_frame in H2.
  destruct (lookup_var x (vars s2)) as [e|]; [destruct (renders_empty e)|];
    try exact H2; eapply frame_trans; try exact H2; apply install_frame.
Qed.

Lemma acfs_F : exists eF, lookup_var "F" (vars s) = Some eF /\
  lookup_var "F" (vars s') = Some (mkEqn (blob eF) (add_term (c, [x]) (terms eF))).
Proof.
  destruct acfs_inv as (s2 & H2 & ->). apply acf_none_F in H2. destruct H2 as (eF & H1 & H2).
  exists eF. split; [exact H1|].
  destruct (lookup_var x (vars s2)) as [e|]; [destruct (renders_empty e)|];
    try exact H2; rewrite install_other by exact Hx; exact H2.
Qed.

Lemma acfs_INC :
  if is_inc s (c, [x]) b
  then exists eI, lookup_var "INC" (vars s) = Some eI /\
                  lookup_var "INC" (vars s') = Some (mkEqn (blob eI) (add_term (c, [x]) (terms eI)))
  else lookup_var "INC" (vars s') = lookup_var "INC" (vars s).
Proof.
  destruct acfs_inv as (s2 & H2 & ->). apply acf_none_INC in H2.
  assert (E : lookup_var "INC" (vars match lookup_var x (vars s2) with
       | Some e => if renders_empty e then install s2 x def else s2
       | None => install s2 x def
       end) = lookup_var "INC" (vars s2)).
  { destruct (lookup_var x (vars s2)) as [e|]; [destruct (renders_empty e)|];
      try reflexivity; apply install_other; exact Hx'. }
  rewrite E. exact H2.
Qed.

Lemma acfs_def_fresh : fresh s x -> lookup_var x (vars s') = Some def.
Proof.
  intros Hf. destruct acfs_inv as (s2 & H2 & ->).
  assert (E : lookup_var x (vars s2) = lookup_var x (vars s)) by (eapply acf_none_other; eauto).
  unfold fresh in Hf. rewrite E. destruct (lookup_var x (vars s)) as [e|].
  - rewrite Hf. apply install_same.
  - apply install_same.
Qed.

Lemma acfs_def_kept e : lookup_var x (vars s) = Some e -> renders_empty e = false ->
  lookup_var x (vars s') = Some e.
Proof.
  intros He Hr. destruct acfs_inv as (s2 & H2 & ->).
  assert (E : lookup_var x (vars s2) = lookup_var x (vars s)) by (eapply acf_none_other; eauto).
  rewrite E, He, Hr. rewrite E. exact He.
Qed.

Lemma acfs_other n : n <> "F" -> n <> "INC" -> n <> x -> lookup_var n (vars s') = lookup_var n (vars s).
Proof.
  intros H1 H2 H3. destruct acfs_inv as (s2 & Ha & ->).
  assert (E : lookup_var n (vars s2) = lookup_var n (vars s)) by (eapply acf_none_other; eauto).
  destruct (lookup_var x (vars s2)) as [e|]; [destruct (renders_empty e)|];
    try exact E; rewrite install_other by congruence; exact E.
Qed.

End Acf.

(* ------------------------------------------------------------------ *)
(** * Semantics: full names, ledger sums *)

Lemma has_sub_full a b : has_substring "__" (a ++ "__" ++ b) = true.
Proof.
  induction a as [|ch a IH].
  - destruct b; reflexivity.
  - change ((String ch a) ++ "__" ++ b) with (String ch (a ++ "__" ++ b)).
    cbn [has_substring]. destruct (String.prefix "__" (String ch (a ++ "__" ++ b))); [reflexivity|exact IH].
Qed.

Lemma qualify_full s a b : qualify s (a ++ "__" ++ b) = a ++ "__" ++ b.
Proof. unfold qualify. now rewrite has_sub_full. Qed.

Lemma qualify_vname s s0 n : qualify s (vname s0 n) = vname s0 n.
Proof. apply qualify_full. Qed.

Local Open Scope R_scope.

Fixpoint sumR {A : Type} (f : A -> R) (l : list A) : R :=
  match l with [] => 0 | a :: r => f a + sumR f r end.

Lemma sumR_ext {A} (f g : A -> R) l : (forall a, List.In a l -> f a = g a) -> sumR f l = sumR g l.
Proof.
  induction l as [|a r IH]; intros H; simpl; [reflexivity|].
  rewrite (H a) by (left; reflexivity). rewrite IH; [reflexivity|]. intros x Hx. apply H. now right.
Qed.

Lemma sumR_Forall2 {A} (R_ : A -> A -> Prop) (g d : A -> R) l l' :
  Forall2 R_ l l' -> (forall a b, R_ a b -> g b = g a + d a) -> sumR g l' = sumR g l + sumR d l.
Proof.
  intros HF Hs. induction HF as [|a b l l' Hab _ IH]; simpl; [lra|].
  rewrite (Hs a b Hab), IH. lra.
Qed.

Section Sem.
Variable v : string -> R.
Variable bv : string -> string -> R.

Lemma fval_in_frame s s' f : fullcode s' = fullcode s -> fval_in v s' f = fval_in v s f.
Proof.
  intros H. induction f as [|x r IH]; simpl; [reflexivity|]. unfold qualify. now rewrite H, IH.
Qed.

Lemma tsum_in_frame s s' l : fullcode s' = fullcode s -> tsum_in v s' l = tsum_in v s l.
Proof.
  intros H. induction l as [|t r IH]; simpl; [reflexivity|].
  unfold tval_in. now rewrite (fval_in_frame _ _ _ H), IH.
Qed.

(** terms all of whose factors are full names mean the same in every sector *)
Definition full_term (t : term) : Prop := Forall (fun f => has_substring "__" f = true) (snd t).

Lemma fval_in_full s f : Forall (fun x => has_substring "__" x = true) f -> fval_in v s f = fval v f.
Proof.
  induction 1 as [|x r Hx _ IH]; simpl; [reflexivity|]. unfold qualify. now rewrite Hx, IH.
Qed.

Lemma tsum_in_full s l : Forall full_term l -> tsum_in v s l = tsum v l.
Proof.
  induction 1 as [|t r Ht _ IH]; simpl; [reflexivity|].
  unfold tval_in, tval. now rewrite (fval_in_full _ _ Ht), IH.
Qed.

(** value of the parsed terms of the financial-asset equation *)
Definition F_sum (s : sector) : R :=
  match lookup_var "F" (vars s) with Some e => tsum_in v s (terms e) | None => 0 end.
Definition zone_F (Z : zone) : R := sumR F_sum Z.

Lemma tval_in_single s c x : has_substring "__" x = false ->
  tval_in v s (c, [x]) = IZR c * v (vname s x).
Proof. intros Hx. unfold tval_in. simpl. unfold qualify, vname. rewrite Hx. lra. Qed.

Lemma acfs_F_sum s s' c x def b : x <> "F" -> has_substring "__" x = false ->
  add_cash_flow_struct s (c, [x]) def b = Some s' ->
  F_sum s' = F_sum s + IZR c * v (vname s x).
Proof.
  intros Hx Hq H. pose proof (acfs_frame _ _ _ _ _ _ H) as Hfr.
  destruct (acfs_F _ _ _ _ _ _ Hx H) as (eF & H1 & H2).
  unfold F_sum. rewrite H1, H2. simpl.
  rewrite (tsum_in_frame _ _ _ (frame_fullcode _ _ Hfr)), add_term_sum_in, (tval_in_single _ _ _ Hq). lra.
Qed.

Lemma install_F_sum s n e : n <> "F" -> F_sum (install s n e) = F_sum s.
Proof.
  intros Hn. unfold F_sum. rewrite install_other by exact Hn.
  destruct (lookup_var "F" (vars s)); [|reflexivity]. now apply tsum_in_frame.
Qed.

End Sem.

(* ------------------------------------------------------------------ *)
(** * Position-wise description of [tax_generate] *)
Local Close Scope R_scope.

Lemma tax_loop_spec me rm Z Z1 ts : tax_loop me rm Z = Ok (Z1, ts) ->
  Forall2 (fun s s1 => (if is_payer me s then pay_tax rm s else Ok s) = Ok s1) Z Z1 /\
  ts = tax_terms me rm Z.
Proof.
  revert Z1 ts. induction Z as [|s r IH]; intros Z1 ts H; simpl in H.
  - inversion H. split; [constructor|reflexivity].
  - destruct (if is_payer me s then pay_tax rm s else Ok s) as [s'|e] eqn:Hs; [|discriminate].
    simpl in H. destruct (tax_loop me rm r) as [[zr tr]|e] eqn:Hr; [|discriminate].
    simpl in H. inversion H. subst Z1 ts. destruct (IH _ _ eq_refl) as (IH1 & IH2).
    split; [constructor; assumption|].
    unfold tax_terms. simpl. destruct (is_payer me s); simpl; now rewrite IH2.
Qed.

Lemma update_where_spec p f Z Z' : update_where p f Z = Ok Z' ->
  Forall2 (fun s s' => (if p s then f s else Ok s) = Ok s') Z Z'.
Proof.
  revert Z'. induction Z as [|s r IH]; intros Z' H; simpl in H.
  - inversion H. constructor.
  - destruct (if p s then f s else Ok s) as [s'|e] eqn:Hs; [|discriminate].
    simpl in H. destruct (update_where p f r) as [r'|e] eqn:Hr; [|discriminate].
    simpl in H. inversion H. constructor; [exact Hs|now apply IH].
Qed.

Lemma Forall2_compose {A} (P Q : A -> A -> Prop) l1 l2 l3 :
  Forall2 P l1 l2 -> Forall2 Q l2 l3 -> Forall2 (fun a c => exists b, P a b /\ Q b c) l1 l3.
Proof.
  intros H. revert l3. induction H as [|a b l1 l2 Hab _ IH]; intros l3 H2; inversion H2; subst.
  - constructor.
  - constructor; [exists b; split; assumption|now apply IH].
Qed.

Lemma Forall2_impl {A} (P Q : A -> A -> Prop) l1 l2 :
  (forall a b, P a b -> Q a b) -> Forall2 P l1 l2 -> Forall2 Q l1 l2.
Proof. intros H HF. induction HF; constructor; auto. Qed.

Lemma Forall2_count_code (R_ : sector -> sector -> Prop) c Z Z' :
  (forall s s', R_ s s' -> code s' = code s) -> Forall2 R_ Z Z' -> count_code c Z' = count_code c Z.
Proof.
  intros Hc HF. unfold count_code. induction HF as [|s s' Z Z' Hs _ IH]; simpl; [reflexivity|].
  assert (E : code_is c s' = code_is c s) by (unfold code_is; now rewrite (Hc _ _ Hs)).
  rewrite E. destruct (code_is c s); simpl; now rewrite IH.
Qed.

Definition sector_steps (me : nat) (rt pt rm : string) (ts : list term) (tf : string) (s s3 : sector) : Prop :=
  exists s1 s2,
    (if is_payer me s then pay_tax rm s else Ok s) = Ok s1 /\
    (if sid_is me s1 then self_update rt ts s1 else Ok s1) = Ok s2 /\
    (if code_is pt s2 then receive_tax tf s2 else Ok s2) = Ok s3.

(* frames of the three operations *)
Lemma pay_tax_inv rm s s1 : pay_tax rm s = Ok s1 ->
  has_var s "INC" = true /\
  add_cash_flow_struct s ((-1)%Z, ["T"]) (mkEqn "" [tax_term rm s]) false = Some s1.
Proof.
  unfold pay_tax. destruct (has_var s "INC"); [|discriminate].
  destruct (add_cash_flow_struct _ _ _ _) as [x|]; [|discriminate]. intros H; inversion H. auto.
Qed.

Lemma self_update_inv rt ts s s2 : self_update rt ts s = Ok s2 ->
  s2 = install (install s "TaxRate" (mkEqn rt [])) "T" (mkEqn "" ts).
Proof.
  unfold self_update. destruct (set_rhs s "TaxRate" rt) as [s1|] eqn:H1; [|discriminate].
  destruct (set_struct s1 "T" (mkEqn "" ts)) as [x|] eqn:H2; [|discriminate].
  intros H; inversion H; subst x. apply set_rhs_install in H1. apply set_struct_install in H2. now subst.
Qed.

Lemma receive_tax_inv tf g g2 : receive_tax tf g = Ok g2 ->
  add_cash_flow_struct (install g "T" (mkEqn "" [(1%Z, [tf])])) (1%Z, ["T"]) (mkEqn tf []) true = Some g2.
Proof.
  unfold receive_tax. destruct (set_struct g "T" _) as [g1|] eqn:H1; [|discriminate].
  apply set_struct_install in H1. subst g1. rewrite acf_struct_blob.
  destruct (add_cash_flow_struct _ _ _ _) as [x|]; [|discriminate]. intros H; now inversion H.
Qed.

Lemma step1_frame me rm s s1 : (if is_payer me s then pay_tax rm s else Ok s) = Ok s1 -> frame s s1.
Proof.
  destruct (is_payer me s); intros H.
  - apply pay_tax_inv in H. destruct H as (_ & H). eapply acfs_frame; exact H.
  - inversion H. apply frame_refl.
Qed.

Lemma step2_frame me rt ts s s2 : (if sid_is me s then self_update rt ts s else Ok s) = Ok s2 -> frame s s2.
Proof.
  destruct (sid_is me s); intros H.
  - apply self_update_inv in H. subst. reflexivity.
  - inversion H. apply frame_refl.
Qed.

Lemma step3_frame pt tf s s3 : (if code_is pt s then receive_tax tf s else Ok s) = Ok s3 -> frame s s3.
Proof.
  destruct (code_is pt s); intros H.
  - apply receive_tax_inv in H. apply acfs_frame in H. eapply frame_trans; [|exact H]. apply install_frame.
  - inversion H. apply frame_refl.
Qed.

Lemma sector_steps_frame me rt pt rm ts tf s s3 : sector_steps me rt pt rm ts tf s s3 -> frame s s3.
Proof.
  intros (s1 & s2 & H1 & H2 & H3).
  eapply frame_trans; [eapply step1_frame; exact H1|].
  eapply frame_trans; [eapply step2_frame; exact H2|eapply step3_frame; exact H3].
Qed.

Theorem tax_generate_spec me rt pt Z Z' : tax_generate me rt pt Z = Ok Z' ->
  exists self, find (sid_is me) Z = Some self /\
    Forall2 (sector_steps me rt pt (vname self "TaxRate") (tax_terms me (vname self "TaxRate") Z) (vname self "T")) Z Z' /\
    count_code pt Z = 1%nat.
Proof.
  unfold tax_generate. destruct (find (sid_is me) Z) as [self|]; [|discriminate].
  destruct (tax_loop me (vname self "TaxRate") Z) as [[Z1 ts]|e] eqn:HL; [|discriminate]. simpl.
  destruct (update_where (sid_is me) (self_update rt ts) Z1) as [Z2|e] eqn:HU; [|discriminate]. simpl.
  destruct (count_code pt Z2) as [|[|n]] eqn:HC; try discriminate.
  intros H3. exists self. split; [reflexivity|].
  apply tax_loop_spec in HL. destruct HL as (HL & ->).
  apply update_where_spec in HU. apply update_where_spec in H3.
  pose proof (Forall2_compose _ _ _ _ _ HL HU) as H12.
  pose proof (Forall2_compose _ _ _ _ _ H12 H3) as H123.
  split.
  - eapply Forall2_impl; [|exact H123]. intros a c (b & (b0 & Ha & Hb) & Hc). exists b0, b. auto.
  - rewrite <- HC. symmetry. eapply Forall2_count_code; [|exact H12].
    intros s s' (b & Ha & Hb). apply step1_frame in Ha. apply step2_frame in Hb.
    rewrite (frame_code _ _ Hb). apply (frame_code _ _ Ha).
Qed.

(* ------------------------------------------------------------------ *)
(** * What each step does to F, T and INC *)

Lemma is_inc_false s t : is_inc s t false = false.
Proof. reflexivity. Qed.

Section Steps.
Variable v : string -> R.
Variables (me : nat) (rt pt rm : string) (ts : list term) (tf : string).
Local Open Scope R_scope.

Lemma step1_F s s1 : (if is_payer me s then pay_tax rm s else Ok s) = Ok s1 ->
  F_sum v s1 = F_sum v s - (if is_payer me s then v (vname s "T") else 0).
Proof.
  destruct (is_payer me s); intros H.
  - apply pay_tax_inv in H. destruct H as (_ & H).
    rewrite (acfs_F_sum v s s1 (-1)%Z "T" _ false ltac:(discriminate) eq_refl H). lra.
  - inversion H. lra.
Qed.

Lemma step2_F s s2 : (if sid_is me s then self_update rt ts s else Ok s) = Ok s2 -> F_sum v s2 = F_sum v s.
Proof.
  destruct (sid_is me s); intros H.
  - apply self_update_inv in H. subst. rewrite !install_F_sum by discriminate. reflexivity.
  - now inversion H.
Qed.

Lemma step3_F s s3 : (if code_is pt s then receive_tax tf s else Ok s) = Ok s3 ->
  F_sum v s3 = F_sum v s + (if code_is pt s then v (vname s "T") else 0).
Proof.
  destruct (code_is pt s); intros H.
  - apply receive_tax_inv in H.
    rewrite (acfs_F_sum v _ s3 1%Z "T" _ true ltac:(discriminate) eq_refl H).
    rewrite install_F_sum by discriminate. unfold vname. simpl. lra.
  - inversion H. lra.
Qed.

Lemma step1_T s s1 : is_payer me s = true -> fresh s "T" ->
  (if is_payer me s then pay_tax rm s else Ok s) = Ok s1 ->
  lookup_var "T" (vars s1) = Some (mkEqn "" [tax_term rm s]).
Proof.
  intros Hp Hf. rewrite Hp. intros H. apply pay_tax_inv in H. destruct H as (_ & H).
  eapply acfs_def_fresh; [| |exact H|exact Hf]; discriminate.
Qed.

Lemma step1_INC s s1 : (if is_payer me s then pay_tax rm s else Ok s) = Ok s1 ->
  lookup_var "INC" (vars s1) = lookup_var "INC" (vars s).
Proof.
  destruct (is_payer me s); intros H.
  - apply pay_tax_inv in H. destruct H as (_ & H).
    pose proof (acfs_INC s s1 (-1)%Z "T" _ false ltac:(discriminate) H) as HI. rewrite is_inc_false in HI. exact HI.
  - now inversion H.
Qed.

Lemma step1_id s s1 : is_payer me s = false ->
  (if is_payer me s then pay_tax rm s else Ok s) = Ok s1 -> s1 = s.
Proof. intros ->. intros H. now inversion H. Qed.

Lemma step2_id s s2 : sid_is me s = false ->
  (if sid_is me s then self_update rt ts s else Ok s) = Ok s2 -> s2 = s.
Proof. intros ->. intros H. now inversion H. Qed.

Lemma step3_id s s3 : code_is pt s = false ->
  (if code_is pt s then receive_tax tf s else Ok s) = Ok s3 -> s3 = s.
Proof. intros ->. intros H. now inversion H. Qed.

Lemma step2_T s s2 : sid_is me s = true ->
  (if sid_is me s then self_update rt ts s else Ok s) = Ok s2 ->
  lookup_var "T" (vars s2) = Some (mkEqn "" ts).
Proof. intros ->. intros H. apply self_update_inv in H. subst. apply install_same. Qed.

Lemma step3_T s s3 : code_is pt s = true ->
  (if code_is pt s then receive_tax tf s else Ok s) = Ok s3 ->
  lookup_var "T" (vars s3) = Some (mkEqn "" [(1%Z, [tf])]).
Proof.
  intros ->. intros H. apply receive_tax_inv in H.
  eapply acfs_def_kept; [| |exact H|apply install_same|reflexivity]; discriminate.
Qed.

Lemma step3_INC s s3 : code_is pt s = true ->
  (if code_is pt s then receive_tax tf s else Ok s) = Ok s3 ->
  if mem "T" (excl s)
  then lookup_var "INC" (vars s3) = lookup_var "INC" (vars s)
  else exists eI, lookup_var "INC" (vars s) = Some eI /\
       lookup_var "INC" (vars s3) = Some (mkEqn (blob eI) (add_term (1%Z, ["T"]) (terms eI))).
Proof.
  intros ->. intros H. apply receive_tax_inv in H.
  pose proof (acfs_INC _ s3 1%Z "T" _ true ltac:(discriminate) H) as HI.
  unfold is_inc in HI. simpl in HI. destruct (mem "T" (excl s)); simpl in HI.
  - rewrite HI. apply install_other. discriminate.
  - destruct HI as (eI & H1 & H2). exists eI. split; [|exact H2].
    rewrite <- H1. symmetry. apply install_other. discriminate.
Qed.

End Steps.

(* ------------------------------------------------------------------ *)
(** * Main results *)

Lemma Forall2_In_l {A} (P : A -> A -> Prop) l l' a :
  Forall2 P l l' -> List.In a l -> exists b, List.In b l' /\ P a b.
Proof.
  intros H. induction H as [|x y l l' Hxy _ IH]; intros Hi; [contradiction|].
  destruct Hi as [->|Hi]; [exists y; split; [now left|exact Hxy]|].
  destruct (IH Hi) as (b & Hb & Pb). exists b. split; [now right|exact Pb].
Qed.

Lemma Forall2_In_r {A} (P : A -> A -> Prop) l l' b :
  Forall2 P l l' -> List.In b l' -> exists a, List.In a l /\ P a b.
Proof.
  intros H. induction H as [|x y l l' Hxy _ IH]; intros Hi; [contradiction|].
  destruct Hi as [->|Hi]; [exists x; split; [now left|exact Hxy]|].
  destruct (IH Hi) as (a & Ha & Pa). exists a. split; [now right|exact Pa].
Qed.

Definition participant (me : nat) (pt : string) (s : sector) : bool :=
  sid_is me s || taxable s || code_is pt s.

Section Main.
Variable v : string -> R.
Variable bv : string -> string -> R.
Local Open Scope R_scope.

Definition paid (me : nat) (Z : zone) : R :=
  sumR (fun s => if is_payer me s then v (vname s "T") else 0) Z.
Definition received (pt : string) (Z : zone) : R :=
  sumR (fun s => if code_is pt s then v (vname s "T") else 0) Z.

Lemma holds_struct s n l : lookup_var n (vars s) = Some (mkEqn "" l) -> holds v bv s n ->
  v (vname s n) = tsum_in v s l.
Proof. unfold holds, eqn_val, vname. intros ->. simpl. intros ->. lra. Qed.

Lemma sector_steps_F me rt pt rm ts tf s s3 : sector_steps me rt pt rm ts tf s s3 ->
  F_sum v s3 = F_sum v s - (if is_payer me s then v (vname s "T") else 0)
                         + (if code_is pt s then v (vname s "T") else 0).
Proof.
  intros (s1 & s2 & H1 & H2 & H3).
  rewrite (step3_F v pt tf _ _ H3), (step2_F v me rt ts _ _ H2), (step1_F v me rm _ _ H1).
  assert (Hfr : frame s s2).
  { eapply frame_trans; [eapply step1_frame; exact H1|eapply step2_frame; exact H2]. }
  unfold code_is. rewrite (frame_code _ _ Hfr), (frame_vname _ _ _ Hfr). lra.
Qed.

(** bookkeeping only: what the call adds to the F equations of the zone *)
Theorem tax_ledger me rt pt Z Z' : tax_generate me rt pt Z = Ok Z' ->
  zone_F v Z' = zone_F v Z - paid me Z + received pt Z.
Proof.
  intros H. apply tax_generate_spec in H. destruct H as (self & _ & HF & _).
  unfold zone_F, paid, received.
  induction HF as [|s s3 r r' Hs _ IH]; simpl; [lra|].
  rewrite (sector_steps_F _ _ _ _ _ _ _ _ Hs), IH. lra.
Qed.

Lemma tax_term_full rm s : has_substring "__" rm = true -> full_term (tax_term rm s).
Proof.
  intros Hrm. unfold full_term, tax_term, rate_name. simpl.
  constructor; [|constructor; [apply has_sub_full|constructor]].
  destruct (has_var s "TaxRate"); [apply has_sub_full|exact Hrm].
Qed.

Lemma tax_terms_full me rm Z : has_substring "__" rm = true -> Forall full_term (tax_terms me rm Z).
Proof.
  intros Hrm. unfold tax_terms. induction (filter (is_payer me) Z) as [|s r IH]; simpl; constructor;
    [now apply tax_term_full|exact IH].
Qed.

Section Cancel.
Variables (me : nat) (rt pt rm : string) (TS : list term) (tf : string).
Hypothesis Hrm : has_substring "__" rm = true.
Hypothesis Htf : has_substring "__" tf = true.

Lemma paid_eq Z Z' :
  Forall2 (sector_steps me rt pt rm TS tf) Z Z' ->
  (forall s, List.In s Z -> is_payer me s = true -> fresh s "T") ->
  (forall s, List.In s Z -> code_is pt s = true -> taxable s = false /\ sid_is me s = false) ->
  (forall s', List.In s' Z' -> participant me pt s' = true -> holds v bv s' "T") ->
  paid me Z = tsum v (tax_terms me rm Z).
Proof.
  intros HF. induction HF as [|s s3 r r' Hs _ IH]; intros Hfresh Hgov Hholds; [reflexivity|].
  unfold paid, tax_terms in *. simpl.
  rewrite IH; [| intros; apply Hfresh; [now right|assumption]
               | intros; apply Hgov; [now right|assumption]
               | intros; apply Hholds; [now right|assumption]].
  destruct (is_payer me s) eqn:Hp; simpl; [|lra].
  pose proof (sector_steps_frame _ _ _ _ _ _ _ _ Hs) as Hfr.
  destruct Hs as (s1 & s2 & H1 & H2 & H3).
  assert (Hsid : sid_is me s = false).
  { unfold is_payer in Hp. unfold sid_is. destruct (Nat.eqb (sid s) me); [discriminate|reflexivity]. }
  assert (Htax : taxable s = true).
  { unfold is_payer in Hp. apply andb_true_iff in Hp. tauto. }
  assert (Hcode : code_is pt s = false).
  { destruct (code_is pt s) eqn:E; [|reflexivity].
    destruct (Hgov s (or_introl eq_refl) E) as (Ht & _). congruence. }
  pose proof (step1_frame _ _ _ _ H1) as Hf1.
  assert (E2 : s2 = s1).
  { eapply step2_id; [|exact H2]. unfold sid_is in *. now rewrite (frame_sid _ _ Hf1). }
  subst s2.
  assert (E3 : s3 = s1).
  { eapply step3_id; [|exact H3]. unfold code_is in *. now rewrite (frame_code _ _ Hf1). }
  subst s3.
  pose proof (step1_T me rm s s1 Hp (Hfresh s (or_introl eq_refl) Hp) H1) as HT.
  assert (Hpart : participant me pt s1 = true).
  { unfold participant. rewrite (frame_taxable _ _ Hf1), Htax. now rewrite orb_true_r. }
  pose proof (holds_struct _ _ _ HT (Hholds s1 (or_introl eq_refl) Hpart)) as Hv.
  rewrite (frame_vname _ _ _ Hf1) in Hv. rewrite Hv. simpl.
  pose proof (tax_term_full rm s Hrm) as Hfull.
  unfold tval_in, tval. rewrite (fval_in_full v _ _ Hfull). lra.
Qed.

Lemma received_eq Z Z' :
  Forall2 (sector_steps me rt pt rm TS tf) Z Z' ->
  (forall s', List.In s' Z' -> participant me pt s' = true -> holds v bv s' "T") ->
  received pt Z = INR (count_code pt Z) * v tf.
Proof.
  intros HF. induction HF as [|s s3 r r' Hs _ IH]; intros Hholds.
  - unfold received, count_code. simpl. lra.
  - unfold received, count_code in *. simpl.
    rewrite IH by (intros; apply Hholds; [now right|assumption]).
    destruct (code_is pt s) eqn:Hc; [|lra].
    pose proof (sector_steps_frame _ _ _ _ _ _ _ _ Hs) as Hfr.
    destruct Hs as (s1 & s2 & H1 & H2 & H3).
    assert (Hf2 : frame s s2).
    { eapply frame_trans; [eapply step1_frame; exact H1|eapply step2_frame; exact H2]. }
    assert (Hc2 : code_is pt s2 = true) by (unfold code_is in *; now rewrite (frame_code _ _ Hf2)).
    pose proof (step3_T pt tf s2 s3 Hc2 H3) as HT.
    assert (Hpart : participant me pt s3 = true).
    { unfold participant, code_is in *. rewrite (frame_code _ _ Hfr), Hc. now rewrite orb_true_r. }
    pose proof (holds_struct _ _ _ HT (Hholds s3 (or_introl eq_refl) Hpart)) as Hv.
    rewrite (frame_vname _ _ _ Hfr) in Hv. rewrite Hv.
    change (Datatypes.length (s :: filter (code_is pt) r)) with (S (Datatypes.length (filter (code_is pt) r))).
    rewrite S_INR. simpl. unfold tval_in. simpl. unfold qualify. rewrite Htf. lra.
Qed.

End Cancel.

(** C01 group lemma for a tax flow: under the definitions the call installs, what the payers
    pay is what the recipient receives, so the F equations of the zone gain a total of zero. *)
Theorem tax_cancel me rt pt Z Z' :
  tax_generate me rt pt Z = Ok Z' ->
  (forall s, List.In s Z -> is_payer me s = true -> fresh s "T") ->
  (forall s, List.In s Z -> code_is pt s = true -> taxable s = false /\ sid_is me s = false) ->
  (forall s', List.In s' Z' -> participant me pt s' = true -> holds v bv s' "T") ->
  received pt Z = paid me Z /\ zone_F v Z' = zone_F v Z.
Proof.
  intros H Hfresh Hgov Hholds.
  pose proof (tax_ledger _ _ _ _ _ H) as HL.
  apply tax_generate_spec in H. destruct H as (self & Hfind & HF & Hcount).
  assert (Hrm : has_substring "__" (vname self "TaxRate") = true) by apply has_sub_full.
  assert (Htf : has_substring "__" (vname self "T") = true) by apply has_sub_full.
  pose proof (paid_eq _ _ _ _ _ _ Hrm _ _ HF Hfresh Hgov Hholds) as HP.
  pose proof (received_eq _ _ _ _ _ _ Htf _ _ HF Hholds) as HR.
  rewrite Hcount in HR. simpl in HR.
  (* the tax flow's own T *)
  apply find_some in Hfind. destruct Hfind as (Hin & Hme).
  destruct (Forall2_In_l _ _ _ _ HF Hin) as (self3 & Hin3 & Hs).
  pose proof (sector_steps_frame _ _ _ _ _ _ _ _ Hs) as Hfr.
  destruct Hs as (s1 & s2 & H1 & H2 & H3).
  assert (Hnp : is_payer me self = false).
  { unfold is_payer. unfold sid_is in Hme. now rewrite Hme. }
  apply (step1_id me _ _ _ Hnp) in H1. subst s1.
  pose proof (step2_T me rt _ _ _ Hme H2) as HT.
  pose proof (step2_frame _ _ _ _ _ H2) as Hf2.
  assert (Hc : code_is pt self = false).
  { destruct (code_is pt self) eqn:E; [|reflexivity]. destruct (Hgov self Hin E) as (_ & Hx). congruence. }
  assert (E3 : self3 = s2).
  { eapply step3_id; [|exact H3]. unfold code_is in *. now rewrite (frame_code _ _ Hf2). }
  subst self3.
  assert (Hpart : participant me pt s2 = true).
  { unfold participant, sid_is in *. now rewrite (frame_sid _ _ Hf2), Hme. }
  pose proof (holds_struct _ _ _ HT (Hholds s2 Hin3 Hpart)) as Hv.
  rewrite (frame_vname _ _ _ Hf2) in Hv.
  rewrite (tsum_in_full v _ _ (tax_terms_full me _ Z Hrm)) in Hv.
  assert (E : received pt Z = paid me Z) by lra.
  split; [exact E|]. rewrite HL, E. lra.
Qed.

(** the tax flow's T: one product per taxable sector other than itself *)
Theorem tax_members me rt pt Z Z' :
  tax_generate me rt pt Z = Ok Z' ->
  exists self, find (sid_is me) Z = Some self /\
    forall s', List.In s' Z' -> sid_is me s' = true -> code_is pt s' = false ->
      lookup_var "T" (vars s') = Some (mkEqn "" (tax_terms me (vname self "TaxRate") Z)).
Proof.
  intros H. apply tax_generate_spec in H. destruct H as (self & Hfind & HF & _).
  exists self. split; [exact Hfind|]. intros s' Hin Hme Hc.
  destruct (Forall2_In_r _ _ _ _ HF Hin) as (s & _ & Hs).
  pose proof (sector_steps_frame _ _ _ _ _ _ _ _ Hs) as Hfr.
  destruct Hs as (s1 & s2 & H1 & H2 & H3).
  pose proof (step1_frame _ _ _ _ H1) as Hf1. pose proof (step2_frame _ _ _ _ _ H2) as Hf2.
  assert (Hme1 : sid_is me s1 = true).
  { unfold sid_is in *. rewrite <- (frame_sid _ _ (frame_trans _ _ _ Hf2 (step3_frame _ _ _ _ H3))). exact Hme. }
  assert (E3 : s' = s2).
  { eapply step3_id; [|exact H3]. unfold code_is in *. now rewrite <- (frame_code _ _ (step3_frame _ _ _ _ H3)). }
  subst s'. eapply step2_T; [exact Hme1|exact H2].
Qed.

End Main.

(* ------------------------------------------------------------------ *)
(** * Income equations and frame *)

Lemma step2_INC me rt ts s s2 : (if sid_is me s then self_update rt ts s else Ok s) = Ok s2 ->
  lookup_var "INC" (vars s2) = lookup_var "INC" (vars s).
Proof.
  destruct (sid_is me s); intros H.
  - apply self_update_inv in H. subst. rewrite !install_other by discriminate. reflexivity.
  - now inversion H.
Qed.

Theorem tax_income me rt pt Z Z' : tax_generate me rt pt Z = Ok Z' ->
  Forall2 (fun s s' =>
     (code_is pt s = false -> lookup_var "INC" (vars s') = lookup_var "INC" (vars s)) /\
     (code_is pt s = true -> mem "T" (excl s) = false ->
        exists eI, lookup_var "INC" (vars s) = Some eI /\
                   lookup_var "INC" (vars s') = Some (mkEqn (blob eI) (add_term (1%Z, ["T"]) (terms eI))))) Z Z'.
Proof.
  intros H. apply tax_generate_spec in H. destruct H as (self & _ & HF & _).
  eapply Forall2_impl; [|exact HF]. intros s s3 (s1 & s2 & H1 & H2 & H3).
  pose proof (step1_INC me _ _ _ H1) as I1. pose proof (step2_INC _ _ _ _ _ H2) as I2.
  assert (Hf2 : frame s s2).
  { eapply frame_trans; [eapply step1_frame; exact H1|eapply step2_frame; exact H2]. }
  assert (Ec : code_is pt s2 = code_is pt s) by (unfold code_is; now rewrite (frame_code _ _ Hf2)).
  split.
  - intros Hc. rewrite <- Ec in Hc. apply (step3_id pt _ _ _ Hc) in H3. subst s3. congruence.
  - intros Hc Hex. rewrite <- Ec in Hc. pose proof (step3_INC pt _ _ _ Hc H3) as I3.
    rewrite (frame_excl _ _ Hf2), Hex in I3. destruct I3 as (eI & Ha & Hb).
    exists eI. split; [congruence|exact Hb].
Qed.

Lemma gain_value v bv s s' e : frame s s' ->
  (eqn_val v bv s' (mkEqn (blob e) (add_term (1%Z, ["T"]) (terms e))) = eqn_val v bv s e + v (vname s "T"))%R.
Proof.
  intros Hfr. unfold eqn_val. simpl. rewrite add_term_sum_in.
  rewrite (tsum_in_frame v _ _ _ (frame_fullcode _ _ Hfr)), (frame_fullcode _ _ Hfr).
  rewrite (tval_in_single v s' 1%Z "T" eq_refl), (frame_vname _ _ _ Hfr). lra.
Qed.

Lemma step1_other me rm s s1 n : n <> "F" -> n <> "INC" -> n <> "T" ->
  (if is_payer me s then pay_tax rm s else Ok s) = Ok s1 -> lookup_var n (vars s1) = lookup_var n (vars s).
Proof.
  intros N1 N2 N3. destruct (is_payer me s); intros H.
  - apply pay_tax_inv in H. destruct H as (_ & H). eapply acfs_other; eauto.
  - now inversion H.
Qed.

Lemma step2_other me rt ts s s2 n : n <> "T" -> n <> "TaxRate" ->
  (if sid_is me s then self_update rt ts s else Ok s) = Ok s2 -> lookup_var n (vars s2) = lookup_var n (vars s).
Proof.
  intros N1 N2. destruct (sid_is me s); intros H.
  - apply self_update_inv in H. subst. rewrite !install_other by congruence. reflexivity.
  - now inversion H.
Qed.

Lemma step3_other pt tf s s3 n : n <> "F" -> n <> "INC" -> n <> "T" ->
  (if code_is pt s then receive_tax tf s else Ok s) = Ok s3 -> lookup_var n (vars s3) = lookup_var n (vars s).
Proof.
  intros N1 N2 N3. destruct (code_is pt s); intros H.
  - apply receive_tax_inv in H. etransitivity.
    + eapply acfs_other; [exact H|assumption|assumption|assumption].
    + apply install_other. congruence.
  - now inversion H.
Qed.

Theorem tax_frame me rt pt Z Z' : tax_generate me rt pt Z = Ok Z' ->
  Forall2 (fun s s' =>
     frame s s' /\
     (is_payer me s = false -> sid_is me s = false -> code_is pt s = false -> s' = s) /\
     (forall n, n <> "F" -> n <> "INC" -> n <> "T" -> n <> "TaxRate" ->
                lookup_var n (vars s') = lookup_var n (vars s))) Z Z'.
Proof.
  intros H. apply tax_generate_spec in H. destruct H as (self & _ & HF & _).
  eapply Forall2_impl; [|exact HF]. intros s s3 Hs.
  split; [eapply sector_steps_frame; exact Hs|].
  destruct Hs as (s1 & s2 & H1 & H2 & H3). split.
  - intros Hp Hm Hc. apply (step1_id me _ _ _ Hp) in H1. subst s1.
    apply (step2_id me _ _ _ _ Hm) in H2. subst s2. apply (step3_id pt _ _ _ Hc) in H3. exact H3.
  - intros n N1 N2 N3 N4.
    rewrite (step3_other _ _ _ _ _ N1 N2 N3 H3), (step2_other _ _ _ _ _ _ N3 N4 H2).
    exact (step1_other _ _ _ _ _ N1 N2 N3 H1).
Qed.
