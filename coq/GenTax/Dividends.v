(** Booking-level model of the dividend part of FixedMarginBusiness._GenerateEquations, on the list
    of sectors of the firm's country ([Parent.SectorList] order, full codes assigned).

      [wage bill: SetEquationRightHandSide of DEM_<labour> and, for a non-zero margin, of PROF;
       the formatted texts are parameters ([resets])]
      for s in country:
          if isinstance(s, FixedMarginBusiness): continue          (self included)
          if 'DIV' in s:
              self.AddCashFlow('-DIV', 'PROF', is_income=False)
              if s.F already has a non-blob term with text 'DIV':
                  s.DIV := <rendering of s.DIV> + ' + ' + <self.PROF full name>
              else:
                  s.AddCashFlow('DIV', <self.PROF full name>, is_income=True)
              break

    [bizs] lists the IDs of the FixedMarginBusiness instances of the country.  The definitions
    DIV = PROF (payer) and DIV = profits (receiver) are kept as parsed terms (see Tax.v).
    [dividends_orig] is the loop before commit 925b299 ("fix: dividends of several businesses are
    booked once ..."): no business is skipped and the receiver is re-booked by every payer. *)
From Coq Require Import List String Bool ZArith Arith.
From SFC.Base Require Import Res Str.
From SFC.Gen Require Import Fx Zone.
From SFC.GenTax Require Import Tax.
Import ListNotations.
Local Open Scope string_scope.

Definition is_biz (bizs : list nat) (p : nat) (s : sector) : bool :=
  Nat.eqb (sid s) p || existsb (Nat.eqb (sid s)) bizs.

(** the payer: AddCashFlow('-DIV', 'PROF', 'Dividends paid', is_income=False) *)
Definition pay_div (s : sector) : result sector :=
  match add_cash_flow_struct s ((-1)%Z, ["DIV"]) (mkEqn "" [(1%Z, ["PROF"])]) false with
  | Some s' => Ok s'
  | None => Err KeyError
  end.

(** any((not t.IsBlob) and t.Term == 'DIV' for t in s.EquationBlock['F'].TermList); None = KeyError *)
Definition f_has_div (s : sector) : option bool :=
  match lookup_var "F" (vars s) with
  | Some e => Some (existsb (fun t => factors_eqb (snd t) ["DIV"]) (terms e))
  | None => None
  end.

(** <rendering of e> + ' + ' + t : an equation that renders '' is rendered '0.0' *)
Definition append_def (e : eqn) (t : term) : eqn :=
  if renders_empty e then mkEqn "0.0" [t] else mkEqn (blob e) (terms e ++ [t])%list.

Definition receive_div (rebook : bool) (prof_full : string) (r : sector) : result sector :=
  match f_has_div r with
  | None => Err KeyError
  | Some booked =>
      if booked && negb rebook then
        match lookup_var "DIV" (vars r) with
        | Some e => Ok (install r "DIV" (append_def e (1%Z, [prof_full])))
        | None => Err KeyError
        end
      else
        match add_cash_flow_struct r (1%Z, ["DIV"]) (mkEqn "" [(1%Z, [prof_full])]) true with
        | Some r' => Ok r'
        | None => Err KeyError
        end
  end.

(** one pass over the country: the payer (sectors with ID [p]) books its outflow, the first
    candidate books the inflow.  [cand] is evaluated on the state before the call, as in the Python
    (the test 'DIV' in s precedes the payer's own AddCashFlow). *)
Fixpoint div_pass (cand : sector -> bool) (rebook : bool) (p : nat) (prof_full : string)
         (found : bool) (C : list sector) : result (list sector) :=
  match C with
  | [] => Ok []
  | s :: r =>
      do s1 <- (if sid_is p s then pay_div s else Ok s) ;;
      do s2 <- (if negb found && cand s then receive_div rebook prof_full s1 else Ok s1) ;;
      do r' <- div_pass cand rebook p prof_full (found || cand s) r ;;
      Ok (s2 :: r')
  end.

Definition div_step (cand : sector -> bool) (rebook : bool) (p : nat) (C : list sector) : result (list sector) :=
  if existsb cand C then
    match find (sid_is p) C with
    | None => Err OtherError
    | Some self =>
        if has_var self "PROF" then div_pass cand rebook p (vname self "PROF") false C
        else Err KeyError
    end
  else Ok C.

Definition candidate (bizs : list nat) (p : nat) (s : sector) : bool :=
  negb (is_biz bizs p s) && has_var s "DIV".
Definition candidate_orig (s : sector) : bool := has_var s "DIV".

(** the wage-bill part: SetEquationRightHandSide for each (variable, text) *)
Fixpoint apply_resets (rs : list (string * string)) (s : sector) : result sector :=
  match rs with
  | [] => Ok s
  | (k, txt) :: r => match set_rhs s k txt with
                     | Some s' => apply_resets r s'
                     | None => Err KeyError
                     end
  end.

Definition payer := (nat * list (string * string))%type.

(** FixedMarginBusiness._GenerateEquations of the firm with ID [fst pr] *)
Definition firm_generate (bizs : list nat) (pr : payer) (C : list sector) : result (list sector) :=
  do C1 <- update_where (sid_is (fst pr)) (apply_resets (snd pr)) C ;;
  div_step (candidate bizs (fst pr)) false (fst pr) C1.

Definition firm_generate_orig (pr : payer) (C : list sector) : result (list sector) :=
  do C1 <- update_where (sid_is (fst pr)) (apply_resets (snd pr)) C ;;
  div_step candidate_orig true (fst pr) C1.

(** the firms of the country, in declaration order *)
Fixpoint dividends_run (bizs : list nat) (ps : list payer) (C : list sector) : result (list sector) :=
  match ps with
  | [] => Ok C
  | pr :: r => do C1 <- firm_generate bizs pr C ;; dividends_run bizs r C1
  end.

Fixpoint dividends_orig (ps : list payer) (C : list sector) : result (list sector) :=
  match ps with
  | [] => Ok C
  | pr :: r => do C1 <- firm_generate_orig pr C ;; dividends_orig r C1
  end.
