(** Booking-level model of sector_definitions.py:TaxFlow._GenerateEquations on a [Zone.zone].

    The zone is the list [CurrencyZone.GetSectors()] (countries in creation order, sectors in
    declaration order) with full codes assigned.  The tax flow is the sector with [sid = me].

      self.SetEquationRightHandSide('TaxRate', '%0.4f' % rate)          (text passed in)
      for s in zone:  skip self (by ID), skip non-taxable sectors
          rate  = s's own full TaxRate name if s owns a variable TaxRate, else the tax flow's
          term  = rate * INC_s                                           (full names)
          s.AddCashFlow('-T', term, 'Taxes paid.', is_income=False)
      self.T := sum of the terms
      gov = CurrencyZone.LookupSector(taxes_paid_to)    (LogicError: none / several)
      gov.SetEquationRightHandSide('T', self.T's full name)             (KeyError: no T)
      gov.AddCashFlow('T', self.T's full name)                          (is_income defaults to True)

    The Python stores the three definitions (payer's T, own T, recipient's T) as opaque text.  So
    that they have a meaning in [Zone.holds] they are kept here as parsed terms with an empty blob:
    [(1,[rate; inc])], the list of those, and [(1,[tax_fullname])]; every factor is a full name.
    [add_cash_flow_struct] is [Zone.add_cash_flow] with the defining expression given as an
    equation instead of a text (lemma [acf_struct_blob] in TaxProofs.v: with a blob they coincide).
    The correspondence compares the rendered right-hand sides, which are the same texts.

    Outside the model: the ValueError of GetVariableName for codes containing "__"; log messages. *)
From Coq Require Import List String Bool ZArith Arith.
From SFC.Base Require Import Res Str.
From SFC.Gen Require Import Fx Zone.
Import ListNotations.
Local Open Scope string_scope.

(** EquationBlock[n] = e  (dict assignment) *)
Definition install (s : sector) (n : string) (e : eqn) : sector :=
  with_vars s (set_var n e (vars s)).

(** SetEquationRightHandSide with a structured right-hand side; [None] = KeyError *)
Definition set_struct (s : sector) (n : string) (e : eqn) : option sector :=
  match lookup_var n (vars s) with Some _ => Some (install s n e) | None => None end.

(** Sector.AddCashFlow(term, eqn, is_income) where the defining expression is given as an equation *)
Definition add_cash_flow_struct (s : sector) (t : term) (def : eqn) (is_income : bool) : option sector :=
  match add_cash_flow s t None is_income with
  | None => None
  | Some s2 =>
      let name := String.concat "*" (snd t) in
      Some (match lookup_var name (vars s2) with
            | Some e => if renders_empty e then install s2 name def else s2
            | None => install s2 name def
            end)
  end.

(** Sector.GetVariableName once full codes exist *)
Definition vname (s : sector) (n : string) : string := fullcode s ++ "__" ++ n.

Definition is_payer (me : nat) (s : sector) : bool := negb (Nat.eqb (sid s) me) && taxable s.

Definition rate_name (rate_me : string) (s : sector) : string :=
  if has_var s "TaxRate" then vname s "TaxRate" else rate_me.

Definition tax_term (rate_me : string) (s : sector) : term :=
  (1%Z, [rate_name rate_me s; vname s "INC"]).

(** one taxable sector: GetVariableName('INC') (KeyError), AddCashFlow('-T', term, is_income=False) *)
Definition pay_tax (rate_me : string) (s : sector) : result sector :=
  if has_var s "INC" then
    match add_cash_flow_struct s ((-1)%Z, ["T"]) (mkEqn "" [tax_term rate_me s]) false with
    | Some s' => Ok s'
    | None => Err KeyError
    end
  else Err KeyError.

Fixpoint tax_loop (me : nat) (rate_me : string) (Z : zone) : result (zone * list term) :=
  match Z with
  | [] => Ok ([], [])
  | s :: r =>
      do s' <- (if is_payer me s then pay_tax rate_me s else Ok s) ;;
      do zr <- tax_loop me rate_me r ;;
      Ok (s' :: fst zr, ((if is_payer me s then [tax_term rate_me s] else []) ++ snd zr)%list)
  end.

(** apply [f] in place to the sectors selected by [p] *)
Fixpoint update_where (p : sector -> bool) (f : sector -> result sector) (Z : zone) : result zone :=
  match Z with
  | [] => Ok []
  | s :: r =>
      do s' <- (if p s then f s else Ok s) ;;
      do r' <- update_where p f r ;;
      Ok (s' :: r')
  end.

Definition self_update (rate_text : string) (ts : list term) (s : sector) : result sector :=
  match set_rhs s "TaxRate" rate_text with
  | None => Err KeyError
  | Some s1 => match set_struct s1 "T" (mkEqn "" ts) with
               | None => Err KeyError
               | Some s2 => Ok s2
               end
  end.

Definition code_is (c : string) (s : sector) : bool := String.eqb (code s) c.
Definition sid_is (n : nat) (s : sector) : bool := Nat.eqb (sid s) n.
Definition count_code (c : string) (Z : zone) : nat := List.length (filter (code_is c) Z).

Definition receive_tax (tax_full : string) (g : sector) : result sector :=
  match set_struct g "T" (mkEqn "" [(1%Z, [tax_full])]) with
  | None => Err KeyError
  | Some g1 => match add_cash_flow g1 (1%Z, ["T"]) (Some tax_full) true with
               | None => Err KeyError
               | Some g2 => Ok g2
               end
  end.

(** [Err OtherError]: no sector with that ID in the zone (not a Python outcome: a tax flow is
    always a member of its own currency zone). *)
Definition tax_generate (me : nat) (rate_text paid_to : string) (Z : zone) : result zone :=
  match find (sid_is me) Z with
  | None => Err OtherError
  | Some self =>
      do zt <- tax_loop me (vname self "TaxRate") Z ;;
      do Z2 <- update_where (sid_is me) (self_update rate_text (snd zt)) (fst zt) ;;
      match count_code paid_to Z2 with
      | 1%nat => update_where (code_is paid_to) (receive_tax (vname self "T")) Z2
      | _ => Err LogicError
      end
  end.

(** specification of the summands *)
Definition tax_terms (me : nat) (rate_me : string) (Z : zone) : list term :=
  map (tax_term rate_me) (filter (is_payer me) Z).
