(** GenTax (part of C01, "every outflow has an equal inflow"): the tax flow and the dividend
    logic book balanced entries, for ALL zones / countries (any list of sectors with any variables),
    all valuations [v] of full variable names and all valuations [bv] of opaque expressions.

    Reading guide.  [tax_generate me rate_text paid_to Z] is TaxFlow._GenerateEquations of the
    sector with ID [me] on the currency zone [Z]; [dividends_run bizs ps C] runs
    FixedMarginBusiness._GenerateEquations for the firms [ps] (ID, wage-bill texts) of a country [C]
    whose FixedMarginBusiness instances have the IDs [bizs].  [holds v bv s n]: the equation of
    variable [n] of sector [s] is satisfied.  [zone_F v Z]: sum over the sectors of the value of
    the parsed terms of their F equation.  [fresh s n]: [n] is absent from [s] or renders '' / '0.0'. *)
From Coq Require Import List String Bool ZArith Arith Reals Lra Lia.
From SFC.Base Require Import Res Str.
From SFC.Gen Require Import Fx Zone.
From SFC.GenTax Require Import Tax Dividends TaxProofs DividendProofs.
Import ListNotations.
Local Open Scope string_scope.

(* ------------------------------------------------------------------ *)
(** * Tax flow *)

(** The summands of the tax flow's T: exactly one product rate*INC per taxable sector other than
    the tax flow itself, in zone order, with the sector's own TaxRate variable when it has one. *)
Theorem Tax_members : forall me rate_text paid_to Z Z',
  tax_generate me rate_text paid_to Z = Ok Z' ->
  exists self, find (fun s => Nat.eqb (sid s) me) Z = Some self /\
    forall s', In s' Z' -> Nat.eqb (sid s') me = true -> String.eqb (code s') paid_to = false ->
      lookup_var "T" (vars s') =
      Some (mkEqn ""
        (map (fun s => (1%Z, [ (if has_var s "TaxRate" then fullcode s ++ "__" ++ "TaxRate"
                                 else fullcode self ++ "__" ++ "TaxRate");
                               fullcode s ++ "__" ++ "INC" ]))
             (filter (fun s => negb (Nat.eqb (sid s) me) && taxable s) Z))).
Proof. exact tax_members. Qed.
Print Assumptions Tax_members.

(** Bookkeeping alone (no hypothesis): the call changes the total of the F equations by
    - (sum of the payers' T) + (the recipient's T). *)
Theorem Tax_ledger : forall (v : string -> R) me rate_text paid_to Z Z',
  tax_generate me rate_text paid_to Z = Ok Z' ->
  (zone_F v Z' = zone_F v Z - paid v me Z + received v paid_to Z)%R.
Proof. exact tax_ledger. Qed.
Print Assumptions Tax_ledger.

(** C01 group lemma.  If every payer's T was absent or empty before (so that the call defines it),
    the recipient is neither taxable nor the tax flow itself, and [v] satisfies the T equations the
    call installed (payers', the tax flow's, the recipient's), then what the payers pay is what the
    recipient receives: the entries added to the F equations of the zone sum to zero. *)
Theorem Tax_bookings_cancel : forall (v : string -> R) (bv : string -> string -> R) me rate_text paid_to Z Z',
  tax_generate me rate_text paid_to Z = Ok Z' ->
  (forall s, In s Z -> is_payer me s = true -> fresh s "T") ->
  (forall s, In s Z -> String.eqb (code s) paid_to = true -> taxable s = false /\ Nat.eqb (sid s) me = false) ->
  (forall s', In s' Z' -> participant me paid_to s' = true -> holds v bv s' "T") ->
  (received v paid_to Z = paid v me Z /\ zone_F v Z' = zone_F v Z)%R.
Proof. exact tax_cancel. Qed.
Print Assumptions Tax_bookings_cancel.

(** Taxes are booked with is_income=False: the pre-tax income equation of every sector other than
    the recipient is unchanged; the recipient's gains the term +T (unless T is an excluded flow). *)
Theorem Tax_income : forall me rate_text paid_to Z Z',
  tax_generate me rate_text paid_to Z = Ok Z' ->
  Forall2 (fun s s' =>
     (String.eqb (code s) paid_to = false -> lookup_var "INC" (vars s') = lookup_var "INC" (vars s)) /\
     (String.eqb (code s) paid_to = true -> mem "T" (excl s) = false ->
        exists eI, lookup_var "INC" (vars s) = Some eI /\
                   lookup_var "INC" (vars s') = Some (mkEqn (blob eI) (add_term (1%Z, ["T"]) (terms eI))))) Z Z'.
Proof. exact tax_income. Qed.
Print Assumptions Tax_income.

Theorem Tax_income_value : forall (v : string -> R) bv s s' e, frame s s' ->
  (eqn_val v bv s' (mkEqn (blob e) (add_term (1%Z, ["T"]) (terms e))) = eqn_val v bv s e + v (vname s "T"))%R.
Proof. exact gain_value. Qed.
Print Assumptions Tax_income_value.

(** Frame: only the variables change; bystanders are untouched; no variable other than
    F, INC, T, TaxRate changes anywhere. *)
Theorem Tax_frame : forall me rate_text paid_to Z Z',
  tax_generate me rate_text paid_to Z = Ok Z' ->
  Forall2 (fun s s' =>
     frame s s' /\
     (is_payer me s = false -> Nat.eqb (sid s) me = false -> String.eqb (code s) paid_to = false -> s' = s) /\
     (forall n, n <> "F" -> n <> "INC" -> n <> "T" -> n <> "TaxRate" ->
                lookup_var n (vars s') = lookup_var n (vars s))) Z Z'.
Proof. exact tax_frame. Qed.
Print Assumptions Tax_frame.

(** The blob-valued [Zone.add_cash_flow] is the structured version used by the models. *)
Theorem Structured_definition_is_AddCashFlow : forall s t d b,
  add_cash_flow s t (Some d) b = add_cash_flow_struct s t (mkEqn d []) b.
Proof. exact acf_struct_blob. Qed.
Print Assumptions Structured_definition_is_AddCashFlow.

(* ---- concrete zones ---- *)
Lemma all_in {A : Type} (P : A -> Prop) (l : list A) : Forall P l -> forall x, In x l -> P x.
Proof. apply Forall_forall. Qed.
Print Assumptions all_in.
Ltac crunch := vm_compute; lra.
Ltac crunch_all := refine (all_in _ _ _); vm_compute; repeat constructor; try (intros _); lra.

Definition sec (i : nat) (c : string) (tx : bool) (vs : list (string * eqn)) : sector :=
  mkSector i c "CA" c true tx false [] vs.
Definition ledger_vars : list (string * eqn) :=
  [("F", mkEqn "" [(1%Z, ["LAG_F"])]); ("INC", mkEqn "" []); ("LAG_F", mkEqn "F(k-1)" [])].

Definition zone1 : zone :=
  [ sec 0 "HH" true (ledger_vars ++ [("T", mkEqn "" [])]);
    sec 1 "GOV" false (ledger_vars ++ [("T", mkEqn "0." [])]);
    mkSector 2 "TF" "CA" "TF" false false false [] [("TaxRate", mkEqn "0.2000" []); ("T", mkEqn "" [])] ].

Definition val1 (x : string) : R :=
  if String.eqb x "TF__TaxRate" then 1
  else if String.eqb x "HH__INC" then 3
  else if String.eqb x "HH__T" then 3
  else if String.eqb x "TF__T" then 3
  else if String.eqb x "GOV__T" then 3
  else 0.

Definition zone1' : zone := match tax_generate 2 "0.2000" "GOV" zone1 with Ok z => z | Err _ => [] end.

(** the hypotheses of [Tax_bookings_cancel] are satisfiable with money actually moving *)
Example Tax_hypotheses_satisfiable :
  tax_generate 2 "0.2000" "GOV" zone1 = Ok zone1' /\
  (forall s, In s zone1 -> is_payer 2 s = true -> fresh s "T") /\
  (forall s, In s zone1 -> String.eqb (code s) "GOV" = true -> taxable s = false /\ Nat.eqb (sid s) 2 = false) /\
  (forall s', In s' zone1' -> participant 2 "GOV" s' = true -> holds val1 (fun _ _ => 0%R) s' "T") /\
  (paid val1 2 zone1 = 3)%R.
Proof.
  split; [vm_compute; reflexivity|]. split.
  { intros s Hin. simpl in Hin. destruct Hin as [<-|[<-|[<-|[]]]]; vm_compute; intros; try reflexivity; try discriminate; exact I. }
  split.
  { intros s Hin. simpl in Hin. destruct Hin as [<-|[<-|[<-|[]]]]; vm_compute; intros; try discriminate; split; reflexivity. }
  split.
  { crunch_all. }
  crunch.
Qed.
Print Assumptions Tax_hypotheses_satisfiable.

(** A recipient that is itself taxable (outside the hypotheses of [Tax_bookings_cancel]): its own
    -T and +T merge to 0*T under one name, the other payers' outflows have no inflow. *)
Definition zone2 : zone :=
  [ sec 0 "HH" true (ledger_vars ++ [("T", mkEqn "" [])]);
    sec 1 "GOV" true (ledger_vars ++ [("T", mkEqn "" [])]);
    mkSector 2 "TF" "CA" "TF" false false false [] [("TaxRate", mkEqn "0.2000" []); ("T", mkEqn "" [])] ].
Definition zone2' : zone := match tax_generate 2 "0.2000" "GOV" zone2 with Ok z => z | Err _ => [] end.

Theorem Tax_recipient_taxable_refuted :
  tax_generate 2 "0.2000" "GOV" zone2 = Ok zone2' /\
  (forall s, In s zone2 -> is_payer 2 s = true -> fresh s "T") /\
  (forall s', In s' zone2' -> participant 2 "GOV" s' = true -> holds val1 (fun _ _ => 0%R) s' "T") /\
  (zone_F val1 zone2' <> zone_F val1 zone2)%R.
Proof.
  split; [vm_compute; reflexivity|]. split.
  { intros s Hin. simpl in Hin. destruct Hin as [<-|[<-|[<-|[]]]]; vm_compute; intros; try reflexivity; try discriminate; exact I. }
  split.
  { crunch_all. }
  crunch.
Qed.
Print Assumptions Tax_recipient_taxable_refuted.

(* ------------------------------------------------------------------ *)
(** * Dividends *)

(** For ANY non-empty sequence of paying firms (each a business of the country, wage-bill resets not
    touching F or DIV) of a country whose first DIV-owning non-business sector [r] has an empty DIV
    definition and no DIV term in F:
    - the receiver's F gains the single term +DIV with coefficient exactly 1, however many payers;
    - its DIV is defined as the sum of the payers' profits (one summand per payer, in order);
    - bookkeeping: the F equations of the country change by -(what the payers pay) + the receiver's DIV. *)
Theorem Dividends_receiver : forall (v : string -> R) bizs pr ps C C' r eF,
  dividends_run bizs (pr :: ps) C = Ok C' -> Forall (payer_ok bizs) (pr :: ps) ->
  find (cand bizs) C = Some r ->
  lookup_var "F" (vars r) = Some eF ->
  existsb (fun t : term => factors_eqb (snd t) ["DIV"]) (terms eF) = false ->
  fresh r "DIV" ->
  exists r', find (cand bizs) C' = Some r' /\ frame r r' /\ Forall2 frame C C' /\
    lookup_var "F" (vars r') = Some (mkEqn (blob eF) (terms eF ++ [(1%Z, ["DIV"])])) /\
    lookup_var "DIV" (vars r') =
      Some (mkEqn "" (map (fun q : payer => (1%Z, [prof_of C (fst q)])) (pr :: ps))) /\
    Forall (found_in C) (pr :: ps) /\
    (zone_F v C' = zone_F v C - sumR (fun q : payer => paid_by v (fst q) C) (pr :: ps) + v (vname r "DIV"))%R.
Proof. exact dividends_ledger. Qed.
Print Assumptions Dividends_receiver.

(** Each paying firm ends with DIV = PROF, provided the DIV of every business was absent, empty
    (or already that definition) before. *)
Theorem Dividends_payer_definitions : forall bizs ps C C',
  dividends_run bizs ps C = Ok C' -> Forall (payer_ok bizs) ps ->
  (exists r, find (cand bizs) C = Some r) ->
  Forall (biz_ok bizs) C ->
  forall p s', In p (map fst ps) -> In s' C' -> Nat.eqb (sid s') p = true ->
    lookup_var "DIV" (vars s') = Some (mkEqn "" [(1%Z, ["PROF"])]).
Proof.
  intros bizs ps C C' H Hok Hr Hb p s' Hp.
  apply (run_defs bizs ps C C' (fun _ => False) H Hok Hr Hb); [intros ? []|now right].
Qed.
Print Assumptions Dividends_payer_definitions.

(** C01 group lemma for dividends: for every [v] satisfying each payer's DIV equation and the
    receiver's final DIV equation, sum over payers (-DIV_payer) + DIV_receiver = 0, i.e. the F
    equations of the country gain a total of zero. *)
Theorem Dividends_bookings_cancel : forall (v : string -> R) (bv : string -> string -> R) bizs pr ps C C' r eF,
  dividends_run bizs (pr :: ps) C = Ok C' -> Forall (payer_ok bizs) (pr :: ps) ->
  find (cand bizs) C = Some r ->
  lookup_var "F" (vars r) = Some eF ->
  existsb (fun t : term => factors_eqb (snd t) ["DIV"]) (terms eF) = false ->
  fresh r "DIV" ->
  NoDup (map sid C) ->
  Forall (biz_ok bizs) C ->
  (forall s', In s' C' -> (exists q : payer, In q (pr :: ps) /\ Nat.eqb (sid s') (fst q) = true) ->
              holds v bv s' "DIV") ->
  (forall r', find (cand bizs) C' = Some r' -> holds v bv r' "DIV") ->
  (sumR (fun q : payer => paid_by v (fst q) C) (pr :: ps) = v (vname r "DIV") /\
   zone_F v C' = zone_F v C)%R.
Proof. exact dividends_cancel_holds. Qed.
Print Assumptions Dividends_bookings_cancel.

(** the same from the payers' equations DIV = PROF given directly *)
Theorem Dividends_bookings_cancel_eqs : forall (v : string -> R) (bv : string -> string -> R) bizs pr ps C C' r eF,
  dividends_run bizs (pr :: ps) C = Ok C' -> Forall (payer_ok bizs) (pr :: ps) ->
  find (cand bizs) C = Some r ->
  lookup_var "F" (vars r) = Some eF ->
  existsb (fun t : term => factors_eqb (snd t) ["DIV"]) (terms eF) = false ->
  fresh r "DIV" ->
  NoDup (map sid C) ->
  (forall (q : payer) s, In q (pr :: ps) -> In s C -> Nat.eqb (sid s) (fst q) = true ->
                         v (vname s "DIV") = v (vname s "PROF")) ->
  (forall r', find (cand bizs) C' = Some r' -> holds v bv r' "DIV") ->
  (sumR (fun q : payer => paid_by v (fst q) C) (pr :: ps) = v (vname r "DIV") /\
   zone_F v C' = zone_F v C)%R.
Proof. exact dividends_cancel. Qed.
Print Assumptions Dividends_bookings_cancel_eqs.

(* ---- concrete country: capitalists and two firms ---- *)
Definition firm (i : nat) (c : string) : sector :=
  sec i c false (ledger_vars ++ [("PROF", mkEqn "SUP-DEM_LAB" []); ("DEM_LAB", mkEqn "" [])]).
Definition country1 : list sector :=
  [ sec 0 "CAP" true (ledger_vars ++ [("T", mkEqn "" []); ("DIV", mkEqn "" [])]); firm 1 "F1"; firm 2 "F2" ].
Definition payers1 : list payer :=
  [ (1%nat, [("DEM_LAB", "0.900*G1__SUP_G1"); ("PROF", "0.100*G1__SUP_G1")]);
    (2%nat, [("DEM_LAB", "0.750*G2__SUP_G2"); ("PROF", "0.250*G2__SUP_G2")]) ].

Definition val2 (x : string) : R :=
  if String.eqb x "F1__PROF" then 1
  else if String.eqb x "F2__PROF" then 2
  else if String.eqb x "F1__DIV" then 1
  else if String.eqb x "F2__DIV" then 2
  else if String.eqb x "CAP__DIV" then 3
  else 0.

Definition country1' : list sector := match dividends_run [1;2]%nat payers1 country1 with Ok c => c | Err _ => [] end.

Lemma payers1_ok : Forall (payer_ok [1;2]%nat) payers1.
Proof.
  assert (R : forall a b, resets_ok [("DEM_LAB", a); ("PROF", b)]).
  { intros a b k Hk. simpl in Hk. destruct Hk as [<-|[<-|[]]]; split; discriminate. }
  constructor; [split; [simpl; tauto|apply R]|].
  constructor; [split; [simpl; tauto|apply R]|]. constructor.
Qed.
Print Assumptions payers1_ok.

(** the hypotheses of [Dividends_bookings_cancel] are satisfiable (two payers, 3 = 1 + 2 received) *)
Example Dividends_hypotheses_satisfiable :
  dividends_run [1;2]%nat payers1 country1 = Ok country1' /\
  Forall (payer_ok [1;2]%nat) payers1 /\
  find (cand [1;2]%nat) country1 = Some (nth 0 country1 (firm 9 "")) /\
  fresh (nth 0 country1 (firm 9 "")) "DIV" /\
  f_has_div (nth 0 country1 (firm 9 "")) = Some false /\
  NoDup (map sid country1) /\
  Forall (biz_ok [1;2]%nat) country1 /\
  (forall s', In s' country1' -> holds val2 (fun _ _ => 0%R) s' "DIV") /\
  (val2 (vname (nth 0 country1 (firm 9 "")) "DIV") = 3)%R.
Proof.
  split; [vm_compute; reflexivity|]. split; [exact payers1_ok|].
  split; [vm_compute; reflexivity|]. split; [vm_compute; reflexivity|]. split; [vm_compute; reflexivity|].
  split; [repeat constructor; simpl; intuition discriminate|].
  split; [repeat constructor; intros _; left; vm_compute; exact I|].
  split.
  { crunch_all. }
  crunch.
Qed.
Print Assumptions Dividends_hypotheses_satisfiable.

(** The loop before commit 925b299 (every payer re-books +DIV on the first DIV owner, whose
    definition stays the first payer's profit): with two payers the bookings do not cancel, although
    every DIV equation of the final state holds. *)
Definition country1_orig : list sector := match dividends_orig payers1 country1 with Ok c => c | Err _ => [] end.

Definition val3 (x : string) : R :=
  if String.eqb x "F1__PROF" then 1
  else if String.eqb x "F2__PROF" then 2
  else if String.eqb x "F1__DIV" then 1
  else if String.eqb x "F2__DIV" then 2
  else if String.eqb x "CAP__DIV" then 1
  else 0.

Theorem Dividends_orig_refuted :
  dividends_orig payers1 country1 = Ok country1_orig /\
  Forall (payer_ok [1;2]%nat) payers1 /\
  find (cand [1;2]%nat) country1 = Some (nth 0 country1 (firm 9 "")) /\
  fresh (nth 0 country1 (firm 9 "")) "DIV" /\
  NoDup (map sid country1) /\
  Forall (biz_ok [1;2]%nat) country1 /\
  (forall s', In s' country1_orig -> holds val3 (fun _ _ => 0%R) s' "DIV") /\
  (* the receiver's +DIV has coefficient 2, and the country's F equations lose 1 *)
  (exists e, lookup_var "F" (vars (nth 0 country1_orig (firm 9 ""))) = Some e /\ In (2%Z, ["DIV"]) (terms e)) /\
  (zone_F val3 country1_orig = zone_F val3 country1 - 1)%R.
Proof.
  split; [vm_compute; reflexivity|]. split; [exact payers1_ok|].
  split; [vm_compute; reflexivity|]. split; [vm_compute; reflexivity|].
  split; [repeat constructor; simpl; intuition discriminate|].
  split; [repeat constructor; intros _; left; vm_compute; exact I|].
  split.
  { crunch_all. }
  split.
  { eexists. split; [vm_compute; reflexivity|]. simpl. tauto. }
  crunch.
Qed.
Print Assumptions Dividends_orig_refuted.

(** second pre-fix defect: a business that already owns DIV (because it paid) is picked as the
    recipient by a later business when it is declared before the household sector. *)
Definition country2 : list sector :=
  [ firm 1 "F1"; sec 0 "CAP" true (ledger_vars ++ [("T", mkEqn "" []); ("DIV", mkEqn "" [])]); firm 2 "F2" ].
Definition country2_orig : list sector := match dividends_orig payers1 country2 with Ok c => c | Err _ => [] end.

Theorem Dividends_orig_business_recipient_refuted :
  dividends_orig payers1 country2 = Ok country2_orig /\
  (forall s', In s' country2_orig -> holds val3 (fun _ _ => 0%R) s' "DIV") /\
  (zone_F val3 country2_orig = zone_F val3 country2 - 1)%R.
Proof.
  split; [vm_compute; reflexivity|]. split.
  { crunch_all. }
  crunch.
Qed.
Print Assumptions Dividends_orig_business_recipient_refuted.
