(** Lemmas about the dividend model (Dividends.v): one firm's step, then any sequence of firms. *)
From Coq Require Import List String Bool ZArith Arith Reals Lra Lia.
From SFC.Base Require Import Res Str.
From SFC.Gen Require Import Fx Zone.
From SFC.GenTax Require Import Tax TaxProofs Dividends.
Import ListNotations.
Local Open Scope string_scope.

(* ------------------------------------------------------------------ *)
(** * Generic list facts *)

Lemma find_Forall2 {A} (P : A -> A -> Prop) (c : A -> bool) l l' a :
  Forall2 P l l' -> (forall x y, P x y -> c y = c x) -> find c l = Some a ->
  exists b, find c l' = Some b /\ P a b.
Proof.
  intros HF Hc. induction HF as [|x y l l' Hxy _ IH]; simpl; [discriminate|].
  rewrite (Hc _ _ Hxy). destruct (c x).
  - intros H. inversion H. subst. exists y. split; [reflexivity|exact Hxy].
  - exact IH.
Qed.

Lemma find_app_first {A} (c : A -> bool) pre r post :
  forallb (fun s => negb (c s)) pre = true -> c r = true -> find c (pre ++ r :: post) = Some r.
Proof.
  induction pre as [|a pre IH]; simpl; intros Hp Hr.
  - now rewrite Hr.
  - apply andb_true_iff in Hp. destruct Hp as (Ha & Hp). destruct (c a); [discriminate|]. now apply IH.
Qed.

Lemma Forall2_refl_frame l : Forall2 frame l l.
Proof. induction l; constructor; [apply frame_refl|assumption]. Qed.

Lemma Forall2_trans_frame l1 l2 l3 : Forall2 frame l1 l2 -> Forall2 frame l2 l3 -> Forall2 frame l1 l3.
Proof.
  intros H. revert l3. induction H as [|a b l1 l2 Hab _ IH]; intros l3 H2; inversion H2; subst; constructor.
  - eapply frame_trans; eassumption.
  - now apply IH.
Qed.

(* ------------------------------------------------------------------ *)
(** * has_var through install *)

Lemma has_var_install_same s n e : has_var (install s n e) n = true.
Proof. unfold has_var. now rewrite install_same. Qed.

Lemma has_var_install_other s n m e : n <> m -> has_var (install s n e) m = has_var s m.
Proof. intros H. unfold has_var. now rewrite install_other. Qed.

Lemma has_var_install_present s n m e : has_var s n = true -> has_var (install s n e) m = has_var s m.
Proof.
  intros H. destruct (String.eqb_spec n m) as [->|Hn].
  - now rewrite has_var_install_same, H.
  - now apply has_var_install_other.
Qed.

(* ------------------------------------------------------------------ *)
(** * The wage-bill resets *)

Definition resets_ok (rs : list (string * string)) : Prop :=
  forall k, List.In k (map fst rs) -> k <> "F" /\ k <> "DIV".

Lemma apply_resets_spec rs : forall s s1, apply_resets rs s = Ok s1 ->
  frame s s1 /\ (forall n, has_var s1 n = has_var s n) /\
  (forall n, ~ List.In n (map fst rs) -> lookup_var n (vars s1) = lookup_var n (vars s)).
Proof.
  induction rs as [|[k txt] rs IH]; intros s s1 H; simpl in H.
  - inversion H. split; [apply frame_refl|]. split; reflexivity.
  - destruct (set_rhs s k txt) as [s'|] eqn:Hs; [|discriminate].
    assert (Hk : has_var s k = true).
    { unfold has_var. unfold set_rhs in Hs. destruct (lookup_var k (vars s)); [reflexivity|discriminate]. }
    apply set_rhs_install in Hs. subst s'. destruct (IH _ _ H) as (I1 & I2 & I3).
    split; [eapply frame_trans; [apply install_frame|exact I1]|]. split.
    + intros n. rewrite I2. now apply has_var_install_present.
    + intros n Hn. simpl in Hn. rewrite I3 by tauto. apply install_other. tauto.
Qed.

(* ------------------------------------------------------------------ *)
(** * The payer's and the receiver's bookings *)

Lemma pay_div_inv s s' : pay_div s = Ok s' ->
  add_cash_flow_struct s ((-1)%Z, ["DIV"]) (mkEqn "" [(1%Z, ["PROF"])]) false = Some s'.
Proof.
  unfold pay_div. destruct (add_cash_flow_struct _ _ _ _) as [x|]; [|discriminate]. intros H; now inversion H.
Qed.

Lemma acfs_x_some s s' c x def b : add_cash_flow_struct s (c, [x]) def b = Some s' ->
  exists e, lookup_var x (vars s') = Some e.
Proof.
  intros H. destruct (acfs_inv _ _ _ _ _ _ H) as (s2 & _ & ->).
  destruct (lookup_var x (vars s2)) as [e|] eqn:E.
  - destruct (renders_empty e); [exists def; apply install_same|exists e; exact E].
  - exists def. apply install_same.
Qed.

Definition payrel (p : nat) (s s' : sector) : Prop := (if sid_is p s then pay_div s else Ok s) = Ok s'.

Lemma payrel_frame p s s' : payrel p s s' -> frame s s'.
Proof.
  unfold payrel. destruct (sid_is p s); intros H.
  - apply pay_div_inv in H. eapply acfs_frame; exact H.
  - inversion H. apply frame_refl.
Qed.

Lemma payrel_id p s s' : sid_is p s = false -> payrel p s s' -> s' = s.
Proof. unfold payrel. intros ->. intros H. now inversion H. Qed.

Definition installed (s : sector) : Prop :=
  lookup_var "DIV" (vars s) = Some (mkEqn "" [(1%Z, ["PROF"])]).

Lemma payrel_DIV p s s' : sid_is p s = true -> payrel p s s' ->
  (fresh s "DIV" \/ installed s) -> installed s'.
Proof.
  unfold payrel. intros ->. intros H Hor. apply pay_div_inv in H. destruct Hor as [Hf|Hi].
  - eapply acfs_def_fresh; [| |exact H|exact Hf]; discriminate.
  - eapply acfs_def_kept; [| |exact H|exact Hi|reflexivity]; discriminate.
Qed.

Lemma receive_div_inv rb pf r r' : receive_div rb pf r = Ok r' ->
  exists b, f_has_div r = Some b /\
    if b && negb rb
    then exists e, lookup_var "DIV" (vars r) = Some e /\ r' = install r "DIV" (append_def e (1%Z, [pf]))
    else add_cash_flow_struct r (1%Z, ["DIV"]) (mkEqn "" [(1%Z, [pf])]) true = Some r'.
Proof.
  unfold receive_div. destruct (f_has_div r) as [b|]; [|discriminate]. intros H. exists b. split; [reflexivity|].
  destruct (b && negb rb).
  - destruct (lookup_var "DIV" (vars r)) as [e|]; [|discriminate]. inversion H. exists e. auto.
  - destruct (add_cash_flow_struct _ _ _ _) as [x|]; [|discriminate]. now inversion H.
Qed.

Lemma receive_div_frame rb pf r r' : receive_div rb pf r = Ok r' -> frame r r'.
Proof.
  intros H. apply receive_div_inv in H. destruct H as (b & _ & H). destruct (b && negb rb).
  - destruct H as (e & _ & ->). apply install_frame.
  - eapply acfs_frame; exact H.
Qed.

Lemma receive_div_has rb pf r r' : receive_div rb pf r = Ok r' -> has_var r' "DIV" = true.
Proof.
  intros H. apply receive_div_inv in H. destruct H as (b & _ & H). destruct (b && negb rb).
  - destruct H as (e & _ & ->). apply has_var_install_same.
  - apply acfs_x_some in H. destruct H as (e & H). unfold has_var. now rewrite H.
Qed.

(* ------------------------------------------------------------------ *)
(** * One pass over the country *)

Lemma div_pass_found cand rb p pf C : forall C', div_pass cand rb p pf true C = Ok C' -> Forall2 (payrel p) C C'.
Proof.
  induction C as [|s r IH]; intros C' H; simpl in H.
  - inversion H. constructor.
  - destruct (if sid_is p s then pay_div s else Ok s) as [s1|e] eqn:H1; [|discriminate]. simpl in H.
    destruct (div_pass cand rb p pf true r) as [r'|e] eqn:Hr; [|discriminate]. simpl in H.
    inversion H. constructor; [exact H1|now apply IH].
Qed.

Lemma div_pass_spec cand rb p pf C : forall C', div_pass cand rb p pf false C = Ok C' ->
  existsb cand C = true ->
  exists pre r post pre' r1 r' post',
    C = (pre ++ r :: post)%list /\ forallb (fun s => negb (cand s)) pre = true /\ cand r = true /\
    C' = (pre' ++ r' :: post')%list /\ Forall2 (payrel p) pre pre' /\ payrel p r r1 /\
    receive_div rb pf r1 = Ok r' /\ Forall2 (payrel p) post post'.
Proof.
  induction C as [|s r IH]; intros C' H Hex; simpl in H, Hex; [discriminate|].
  destruct (if sid_is p s then pay_div s else Ok s) as [s1|e] eqn:H1; [|discriminate]. simpl in H.
  destruct (cand s) eqn:Hc; simpl in H.
  - destruct (receive_div rb pf s1) as [s2|e] eqn:H2; [|discriminate]. simpl in H.
    destruct (div_pass cand rb p pf true r) as [r'|e] eqn:Hr; [|discriminate]. simpl in H.
    inversion H. apply div_pass_found in Hr.
    exists [], s, r, [], s1, s2, r'. repeat split; try assumption; try reflexivity. constructor.
  - destruct (div_pass cand rb p pf false r) as [r'|e] eqn:Hr; [|discriminate]. simpl in H.
    inversion H. simpl in Hex.
    destruct (IH _ eq_refl Hex) as (pre & r0 & post & pre' & r1 & r0' & post' & E1 & E2 & E3 & E4 & E5 & E6 & E7 & E8).
    exists (s :: pre), r0, post, (s1 :: pre'), r1, r0', post'. subst. simpl. rewrite Hc. simpl.
    repeat split; try assumption; try reflexivity. constructor; assumption.
Qed.

(* ------------------------------------------------------------------ *)
(** * Candidates *)

Definition cand (bizs : list nat) (s : sector) : bool :=
  negb (existsb (Nat.eqb (sid s)) bizs) && has_var s "DIV".

Lemma In_existsb p bizs : List.In p bizs -> existsb (Nat.eqb p) bizs = true.
Proof. intros H. apply existsb_exists. exists p. split; [exact H|apply Nat.eqb_refl]. Qed.

Lemma candidate_cand bizs p s : List.In p bizs -> candidate bizs p s = cand bizs s.
Proof.
  intros Hp. unfold candidate, cand, is_biz. destruct (Nat.eqb_spec (sid s) p) as [->|Hn]; [|reflexivity].
  now rewrite (In_existsb _ _ Hp).
Qed.

Lemma cand_not_payer bizs p s : List.In p bizs -> cand bizs s = true -> sid_is p s = false.
Proof.
  intros Hp Hc. unfold cand in Hc. apply andb_true_iff in Hc. destruct Hc as (Hc & _).
  unfold sid_is. destruct (Nat.eqb_spec (sid s) p) as [E|]; [|reflexivity].
  rewrite E, (In_existsb _ _ Hp) in Hc. discriminate.
Qed.

Lemma cand_frame bizs s s' : frame s s' -> has_var s' "DIV" = has_var s "DIV" -> cand bizs s' = cand bizs s.
Proof. intros Hf Hh. unfold cand. now rewrite (frame_sid _ _ Hf), Hh. Qed.

Lemma payrel_cand bizs p s s' : List.In p bizs -> payrel p s s' -> cand bizs s' = cand bizs s.
Proof.
  intros Hp H. destruct (sid_is p s) eqn:E.
  - pose proof (payrel_frame _ _ _ H) as Hf. unfold cand. rewrite (frame_sid _ _ Hf).
    unfold sid_is in E. apply Nat.eqb_eq in E. rewrite E, (In_existsb _ _ Hp). reflexivity.
  - now rewrite (payrel_id _ _ _ E H).
Qed.

Lemma forallb_Forall2_cand bizs p l l' : List.In p bizs -> Forall2 (payrel p) l l' ->
  forallb (fun s => negb (cand bizs s)) l = true -> forallb (fun s => negb (cand bizs s)) l' = true.
Proof.
  intros Hp HF. induction HF as [|a b l l' Hab _ IH]; simpl; [reflexivity|].
  rewrite (payrel_cand _ _ _ _ Hp Hab). intros H. apply andb_true_iff in H. destruct H as (H1 & H2).
  now rewrite H1, IH.
Qed.

Lemma find_existsb {A} (c : A -> bool) l a : find c l = Some a -> existsb c l = true.
Proof.
  intros H. apply find_some in H. apply existsb_exists. exists a. exact H.
Qed.

Lemma find_Forall2_r {A} (P : A -> A -> Prop) (c : A -> bool) l l' b :
  Forall2 P l l' -> (forall x y, P x y -> c y = c x) -> find c l' = Some b ->
  exists a, find c l = Some a /\ P a b.
Proof.
  intros HF Hc. induction HF as [|x y l l' Hxy _ IH]; simpl; [discriminate|].
  rewrite (Hc _ _ Hxy). destruct (c x).
  - intros H. inversion H. subst. exists x. split; [reflexivity|exact Hxy].
  - exact IH.
Qed.

Lemma existsb_ext_eq {A} (c d : A -> bool) l : (forall a, c a = d a) -> existsb c l = existsb d l.
Proof. intros H. induction l as [|a l IH]; simpl; [reflexivity|]. now rewrite H, IH. Qed.

Lemma find_ext_eq {A} (c d : A -> bool) l : (forall a, c a = d a) -> find c l = find d l.
Proof. intros H. induction l as [|a l IH]; simpl; [reflexivity|]. now rewrite H, IH. Qed.

Lemma forallb_ext_eq {A} (c d : A -> bool) l : (forall a, c a = d a) -> forallb c l = forallb d l.
Proof. intros H. induction l as [|a l IH]; simpl; [reflexivity|]. now rewrite H, IH. Qed.

(* ------------------------------------------------------------------ *)
(** * The resets on the payer *)

Definition resrel (p : nat) (rs : list (string * string)) (s s1 : sector) : Prop :=
  (if sid_is p s then apply_resets rs s else Ok s) = Ok s1.

Lemma resrel_frame p rs s s1 : resrel p rs s s1 -> frame s s1.
Proof.
  unfold resrel. destruct (sid_is p s); intros H.
  - now apply apply_resets_spec in H.
  - inversion H. apply frame_refl.
Qed.

Lemma resrel_id p rs s s1 : sid_is p s = false -> resrel p rs s s1 -> s1 = s.
Proof. unfold resrel. intros ->. intros H. now inversion H. Qed.

Lemma resrel_has p rs s s1 n : resrel p rs s s1 -> has_var s1 n = has_var s n.
Proof.
  unfold resrel. destruct (sid_is p s); intros H.
  - apply apply_resets_spec in H. destruct H as (_ & H & _). apply H.
  - now inversion H.
Qed.

Lemma resrel_lookup p rs s s1 n : ~ List.In n (map fst rs) -> resrel p rs s s1 ->
  lookup_var n (vars s1) = lookup_var n (vars s).
Proof.
  unfold resrel. intros Hn. destruct (sid_is p s); intros H.
  - apply apply_resets_spec in H. destruct H as (_ & _ & H). now apply H.
  - now inversion H.
Qed.

Lemma resrel_cand bizs p rs s s1 : resrel p rs s s1 -> cand bizs s1 = cand bizs s.
Proof. intros H. apply cand_frame; [eapply resrel_frame; exact H|eapply resrel_has; exact H]. Qed.

Lemma resets_ok_F rs : resets_ok rs -> ~ List.In "F" (map fst rs).
Proof. intros H Hi. destruct (H _ Hi) as (H1 & _). congruence. Qed.
Lemma resets_ok_DIV rs : resets_ok rs -> ~ List.In "DIV" (map fst rs).
Proof. intros H Hi. destruct (H _ Hi) as (_ & H1). congruence. Qed.

(* ------------------------------------------------------------------ *)
(** * What the receiver's booking does (structure) *)

Lemma receive_div_struct rb pf r r' b : receive_div rb pf r = Ok r' -> f_has_div r = Some b ->
  if b && negb rb
  then lookup_var "F" (vars r') = lookup_var "F" (vars r) /\
       (forall e, lookup_var "DIV" (vars r) = Some e ->
                  lookup_var "DIV" (vars r') = Some (append_def e (1%Z, [pf])))
  else (exists eF, lookup_var "F" (vars r) = Some eF /\
          lookup_var "F" (vars r') = Some (mkEqn (blob eF) (add_term (1%Z, ["DIV"]) (terms eF)))) /\
       (fresh r "DIV" -> lookup_var "DIV" (vars r') = Some (mkEqn "" [(1%Z, [pf])])).
Proof.
  intros H Hb. apply receive_div_inv in H. destruct H as (b' & Hb' & H).
  rewrite Hb in Hb'. inversion Hb'. subst b'. destruct (b && negb rb).
  - destruct H as (e & He & ->). split.
    + apply install_other. discriminate.
    + intros e' He'. rewrite He in He'. inversion He'. subst. apply install_same.
  - split.
    + exact (acfs_F r r' 1%Z "DIV" _ true ltac:(discriminate) H).
    + intros Hf. eapply acfs_def_fresh; [| |exact H|exact Hf]; discriminate.
Qed.

Lemma add_term_has_div c l : existsb (fun t : term => factors_eqb (snd t) ["DIV"]) (add_term (c, ["DIV"]) l) = true.
Proof.
  induction l as [|[d g] r IH]; [reflexivity|].
  cbn [add_term snd fst]. destruct (factors_eqb ["DIV"] g) eqn:E.
  - apply factors_eqb_eq in E. subst g. reflexivity.
  - cbn [existsb]. rewrite IH. apply orb_true_r.
Qed.

(* ------------------------------------------------------------------ *)
(** * One firm: ledger and receiver *)

Lemma sumR_app {A} (f : A -> R) a b : (sumR f (a ++ b) = sumR f a + sumR f b)%R.
Proof. induction a as [|x a IH]; simpl; [lra|]. rewrite IH. lra. Qed.

Definition stepQ (bizs : list nat) (p : nat) (s s' : sector) : Prop :=
  frame s s' /\
  (sid_is p s = true -> fresh s "DIV" \/ installed s -> installed s') /\
  (sid_is p s = false -> cand bizs s = false -> s' = s).

Lemma payrel_stepQ bizs p l l' : Forall2 (payrel p) l l' -> Forall2 (stepQ bizs p) l l'.
Proof.
  intros HF. eapply Forall2_impl; [|exact HF]. intros a b Hab. split; [|split].
  - eapply payrel_frame; exact Hab.
  - intros Hs Hor. eapply payrel_DIV; eassumption.
  - intros Hs _. eapply payrel_id; eassumption.
Qed.

Lemma resrel_stepQ bizs p rs s s1 s' : resets_ok rs -> resrel p rs s s1 -> stepQ bizs p s1 s' -> stepQ bizs p s s'.
Proof.
  intros Hok H1 (Q0 & Q1 & Q2).
  assert (Es : sid_is p s1 = sid_is p s).
  { unfold sid_is. now rewrite (frame_sid _ _ (resrel_frame _ _ _ _ H1)). }
  split; [eapply frame_trans; [eapply resrel_frame; exact H1|exact Q0]|]. split.
  - intros Hs Hor. apply Q1; [congruence|].
    unfold fresh, installed in *. now rewrite (resrel_lookup _ _ _ _ _ (resets_ok_DIV _ Hok) H1).
  - intros Hs Hc. pose proof (resrel_id _ _ _ _ Hs H1) as E. subst s1. now apply Q2.
Qed.

Section Sem.
Variable v : string -> R.
Local Open Scope R_scope.

Definition paid_by (p : nat) (C : list sector) : R :=
  sumR (fun s => if sid_is p s then v (vname s "DIV") else 0) C.

Lemma payrel_F p s s' : payrel p s s' ->
  F_sum v s' = F_sum v s - (if sid_is p s then v (vname s "DIV") else 0).
Proof.
  unfold payrel. destruct (sid_is p s); intros H.
  - apply pay_div_inv in H.
    rewrite (acfs_F_sum v s s' (-1)%Z "DIV" _ false ltac:(discriminate) eq_refl H). lra.
  - inversion H. lra.
Qed.

Lemma payrel_zone p l l' : Forall2 (payrel p) l l' -> zone_F v l' = zone_F v l - paid_by p l.
Proof.
  intros HF. unfold zone_F, paid_by. induction HF as [|a b l l' Hab _ IH]; simpl; [lra|].
  rewrite (payrel_F _ _ _ Hab), IH. lra.
Qed.

Lemma resrel_F p rs s s1 : resets_ok rs -> resrel p rs s s1 -> F_sum v s1 = F_sum v s.
Proof.
  intros Hok H. unfold F_sum. rewrite (resrel_lookup _ _ _ _ _ (resets_ok_F _ Hok) H).
  destruct (lookup_var "F" (vars s)); [|reflexivity].
  apply tsum_in_frame. apply frame_fullcode. eapply resrel_frame; exact H.
Qed.

Lemma resrel_zone p rs l l' : resets_ok rs -> Forall2 (resrel p rs) l l' -> zone_F v l' = zone_F v l.
Proof.
  intros Hok HF. unfold zone_F. induction HF as [|a b l l' Hab _ IH]; simpl; [reflexivity|].
  now rewrite (resrel_F _ _ _ _ Hok Hab), IH.
Qed.

Lemma paid_by_frame p l l' : Forall2 frame l l' -> paid_by p l' = paid_by p l.
Proof.
  intros HF. unfold paid_by. induction HF as [|a b l l' Hab _ IH]; simpl; [reflexivity|].
  unfold sid_is at 1 3. now rewrite (frame_sid _ _ Hab), (frame_vname _ _ _ Hab), IH.
Qed.

Lemma receive_div_F rb pf r r' b : receive_div rb pf r = Ok r' -> f_has_div r = Some b ->
  F_sum v r' = F_sum v r + (if b && negb rb then 0 else v (vname r "DIV")).
Proof.
  intros H Hb. apply receive_div_inv in H. destruct H as (b' & Hb' & H).
  rewrite Hb in Hb'. inversion Hb'. subst b'. destruct (b && negb rb).
  - destruct H as (e & _ & ->). rewrite install_F_sum by discriminate. lra.
  - rewrite (acfs_F_sum v r r' 1%Z "DIV" _ true ltac:(discriminate) eq_refl H). lra.
Qed.

Lemma firm_step bizs p rs C C' r :
  firm_generate bizs (p, rs) C = Ok C' -> List.In p bizs -> resets_ok rs ->
  find (cand bizs) C = Some r ->
  exists self r' b,
    find (sid_is p) C = Some self /\ find (cand bizs) C' = Some r' /\ Forall2 frame C C' /\
    f_has_div r = Some b /\ receive_div false (vname self "PROF") r = Ok r' /\
    Forall2 (stepQ bizs p) C C' /\
    zone_F v C' = zone_F v C - paid_by p C + (if b then 0 else v (vname r "DIV")).
Proof.
  intros H Hp Hok Hr. unfold firm_generate in H. simpl in H.
  destruct (update_where (sid_is p) (apply_resets rs) C) as [C1|e] eqn:HU; [|discriminate]. simpl in H.
  apply update_where_spec in HU. fold (resrel p rs) in HU.
  (* the receiver is untouched by the resets *)
  destruct (find_Forall2 _ (cand bizs) _ _ _ HU (fun x y Hxy => resrel_cand bizs _ _ _ _ Hxy) Hr) as (r1 & Hr1 & Hrr1).
  pose proof (find_some _ _ Hr) as (_ & Hcr).
  pose proof (cand_not_payer _ _ _ Hp Hcr) as Hnp.
  apply (resrel_id _ _ _ _ Hnp) in Hrr1. subst r1.
  unfold div_step in H.
  rewrite (existsb_ext_eq _ _ C1 (fun a => candidate_cand bizs p a Hp)) in H.
  rewrite (find_existsb _ _ _ Hr1) in H.
  destruct (find (sid_is p) C1) as [self1|] eqn:Hs1; [|discriminate].
  destruct (has_var self1 "PROF"); [|discriminate].
  assert (Hsidrel : forall x y, resrel p rs x y -> sid_is p y = sid_is p x).
  { intros x y Hxy. unfold sid_is. now rewrite (frame_sid _ _ (resrel_frame _ _ _ _ Hxy)). }
  destruct (find_Forall2_r _ (sid_is p) _ _ _ HU Hsidrel Hs1) as (self & Hs & Hss1).
  assert (Epf : vname self1 "PROF" = vname self "PROF").
  { apply frame_vname. eapply resrel_frame; exact Hss1. }
  rewrite Epf in H.
  assert (Hex : existsb (candidate bizs p) C1 = true).
  { rewrite (existsb_ext_eq _ _ C1 (fun a => candidate_cand bizs p a Hp)). eapply find_existsb; exact Hr1. }
  destruct (div_pass_spec _ _ _ _ _ _ H Hex)
    as (pre & r0 & post & pre' & r1 & r' & post' & E1 & E2 & E3 & E4 & E5 & E6 & E7 & E8).
  rewrite (forallb_ext_eq _ (fun s => negb (cand bizs s)) pre
             (fun a => f_equal negb (candidate_cand bizs p a Hp))) in E2.
  rewrite (candidate_cand _ _ _ Hp) in E3.
  assert (Er0 : r0 = r).
  { pose proof (find_app_first (cand bizs) pre r0 post E2 E3) as Hf. rewrite <- E1, Hr1 in Hf. now inversion Hf. }
  subst r0. apply (payrel_id _ _ _ Hnp) in E6. subst r1.
  destruct (receive_div_inv _ _ _ _ E7) as (b & Hb & _).
  exists self, r', b.
  assert (Hfr' : frame r r') by (eapply receive_div_frame; exact E7).
  assert (HF1 : Forall2 frame C C1) by (eapply Forall2_impl; [|exact HU]; intros a c Hac; eapply resrel_frame; exact Hac).
  assert (HF2 : Forall2 frame C1 C').
  { rewrite E1, E4. apply Forall2_app.
    - eapply Forall2_impl; [|exact E5]. intros a c Hac. eapply payrel_frame; exact Hac.
    - constructor; [exact Hfr'|]. eapply Forall2_impl; [|exact E8]. intros a c Hac. eapply payrel_frame; exact Hac. }
  split; [exact Hs|]. split.
  { rewrite E4. apply find_app_first.
    - eapply forallb_Forall2_cand; [exact Hp|exact E5|exact E2].
    - rewrite (cand_frame bizs _ _ Hfr'); [exact E3|].
      rewrite (receive_div_has _ _ _ _ E7). unfold cand in E3. apply andb_true_iff in E3. symmetry. tauto. }
  split; [eapply Forall2_trans_frame; eassumption|].
  split; [exact Hb|]. split; [exact E7|].
  split.
  { assert (HQ1 : Forall2 (stepQ bizs p) C1 C').
    { rewrite E1, E4. apply Forall2_app; [now apply payrel_stepQ|].
      constructor; [|now apply payrel_stepQ].
      split; [exact Hfr'|]. split; [intros Hx; congruence|intros _ Hx; congruence]. }
    pose proof (Forall2_compose _ _ _ _ _ HU HQ1) as HQ.
    eapply Forall2_impl; [|exact HQ]. intros a c (b0 & Ha & Hc). eapply resrel_stepQ; eassumption. }
  rewrite <- (resrel_zone _ _ _ _ Hok HU), <- (paid_by_frame p _ _ HF1).
  pose proof (payrel_zone _ _ _ E5) as Z1. pose proof (payrel_zone _ _ _ E8) as Z2.
  pose proof (receive_div_F _ _ _ _ _ E7 Hb) as Z3. rewrite andb_true_r in Z3.
  rewrite E4, E1. unfold zone_F, paid_by in *. repeat (rewrite sumR_app; simpl). rewrite Hnp. lra.
Qed.

End Sem.

(* ------------------------------------------------------------------ *)
(** * Any sequence of firms *)

Definition prof_of (C : list sector) (p : nat) : string :=
  match find (sid_is p) C with Some self => vname self "PROF" | None => "" end.

Lemma prof_of_frame C C1 p : Forall2 frame C C1 -> prof_of C1 p = prof_of C p.
Proof.
  intros HF. unfold prof_of. induction HF as [|a b l l' Hab _ IH]; simpl; [reflexivity|].
  unfold sid_is at 1 3. rewrite (frame_sid _ _ Hab). destruct (Nat.eqb (sid a) p).
  - now apply frame_vname.
  - exact IH.
Qed.

Lemma factors_eqb_sym a : forall b, factors_eqb a b = factors_eqb b a.
Proof.
  induction a as [|x a IH]; intros [|y b]; simpl; try reflexivity.
  now rewrite String.eqb_sym, IH.
Qed.

Lemma add_term_absent c f l : existsb (fun t : term => factors_eqb (snd t) f) l = false ->
  add_term (c, f) l = (l ++ [(c, f)])%list.
Proof.
  induction l as [|[d g] r IH]; simpl; [reflexivity|].
  intros H. apply orb_false_iff in H. destruct H as (H1 & H2).
  rewrite factors_eqb_sym, H1. now rewrite IH.
Qed.

Lemma renders_empty_snoc b l f : renders_empty (mkEqn b (l ++ [(1%Z, f)])) = false.
Proof. unfold renders_empty. simpl. rewrite forallb_app. simpl. now rewrite !andb_false_r. Qed.

Definition payer_ok (bizs : list nat) (pr : payer) : Prop := List.In (fst pr) bizs /\ resets_ok (snd pr).

Definition found_in (C : list sector) (pr : payer) : Prop := exists self, find (sid_is (fst pr)) C = Some self.

Lemma found_in_frame C C1 pr : Forall2 frame C C1 -> found_in C1 pr -> found_in C pr.
Proof.
  intros HF (self1 & H).
  assert (Hc : forall x y, frame x y -> sid_is (fst pr) y = sid_is (fst pr) x).
  { intros x y Hxy. unfold sid_is. now rewrite (frame_sid _ _ Hxy). }
  destruct (find_Forall2_r frame (sid_is (fst pr)) _ _ self1 HF Hc H) as (self & Hs & _).
  exists self. exact Hs.
Qed.

Section Run.
Variable v : string -> R.
Local Open Scope R_scope.

Lemma run_booked bizs : forall ps C C' r e,
  dividends_run bizs ps C = Ok C' -> Forall (payer_ok bizs) ps ->
  find (cand bizs) C = Some r -> f_has_div r = Some true ->
  lookup_var "DIV" (vars r) = Some e -> renders_empty e = false ->
  exists r', find (cand bizs) C' = Some r' /\ frame r r' /\ Forall2 frame C C' /\
    lookup_var "F" (vars r') = lookup_var "F" (vars r) /\
    lookup_var "DIV" (vars r') =
      Some (mkEqn (blob e) (terms e ++ map (fun q : payer => (1%Z, [prof_of C (fst q)])) ps)) /\
    Forall (found_in C) ps /\
    zone_F v C' = zone_F v C - sumR (fun q : payer => paid_by v (fst q) C) ps.
Proof.
  induction ps as [|[p rs] ps IH]; intros C C' r e H Hok Hr Hb He Hne; simpl in H.
  - inversion H. subst C'. exists r. split; [exact Hr|]. split; [apply frame_refl|].
    split; [apply Forall2_refl_frame|]. split; [reflexivity|]. split.
    + rewrite He. simpl. rewrite app_nil_r. now destruct e.
    + split; [constructor|]. simpl. lra.
  - destruct (firm_generate bizs (p, rs) C) as [C1|er] eqn:H1; [|discriminate]. simpl in H.
    inversion Hok as [|? ? (Hp & Hrs) Hok']. subst. simpl in Hp, Hrs.
    destruct (firm_step v _ _ _ _ _ _ H1 Hp Hrs Hr) as (self & r1 & b & Hs & Hr1 & HF1 & Hb' & Hrec & _ & HZ).
    rewrite Hb in Hb'. inversion Hb'. subst b.
    pose proof (receive_div_struct _ _ _ _ _ Hrec Hb) as Hst. simpl in Hst. destruct Hst as (HF & HD).
    specialize (HD _ He). unfold append_def in HD. rewrite Hne in HD.
    assert (Hb1 : f_has_div r1 = Some true) by (unfold f_has_div in *; now rewrite HF).
    destruct (IH _ _ _ _ H Hok' Hr1 Hb1 HD (renders_empty_snoc _ _ _))
      as (r' & I1 & I2 & I3 & I4 & I5 & I6 & I7).
    exists r'. split; [exact I1|].
    split; [eapply frame_trans; [eapply receive_div_frame; exact Hrec|exact I2]|].
    split; [eapply Forall2_trans_frame; eassumption|].
    split; [congruence|]. split.
    + rewrite I5. simpl. rewrite <- app_assoc. simpl. f_equal. f_equal. f_equal. f_equal.
      * unfold prof_of. now rewrite Hs.
      * apply map_ext. intros q. now rewrite (prof_of_frame _ _ _ HF1).
    + split.
      * constructor; [exists self; exact Hs|].
        eapply Forall_impl; [|exact I6]. intros q Hq. eapply found_in_frame; eassumption.
      * rewrite I7, HZ. simpl.
        rewrite (sumR_ext (fun q : payer => paid_by v (fst q) C1) (fun q : payer => paid_by v (fst q) C))
          by (intros; now apply paid_by_frame). lra.
Qed.

Theorem dividends_ledger bizs pr ps C C' r eF :
  dividends_run bizs (pr :: ps) C = Ok C' -> Forall (payer_ok bizs) (pr :: ps) ->
  find (cand bizs) C = Some r ->
  lookup_var "F" (vars r) = Some eF ->
  existsb (fun t : term => factors_eqb (snd t) ["DIV"]) (terms eF) = false ->
  fresh r "DIV" ->
  exists r', find (cand bizs) C' = Some r' /\ frame r r' /\ Forall2 frame C C' /\
    lookup_var "F" (vars r') = Some (mkEqn (blob eF) (terms eF ++ [(1%Z, ["DIV"])])) /\
    lookup_var "DIV" (vars r') =
      Some (mkEqn "" (map (fun q : payer => (1%Z, [prof_of C (fst q)])) (pr :: ps))) /\
    Forall (found_in C) (pr :: ps) /\
    zone_F v C' = zone_F v C - sumR (fun q : payer => paid_by v (fst q) C) (pr :: ps) + v (vname r "DIV").
Proof.
  destruct pr as [p rs]. intros H Hok Hr HF0 Hno Hfresh. simpl in H.
  destruct (firm_generate bizs (p, rs) C) as [C1|er] eqn:H1; [|discriminate]. simpl in H.
  inversion Hok as [|? ? (Hp & Hrs) Hok']. subst. simpl in Hp, Hrs.
  destruct (firm_step v _ _ _ _ _ _ H1 Hp Hrs Hr) as (self & r1 & b & Hs & Hr1 & HF1 & Hb & Hrec & _ & HZ).
  assert (Eb : b = false).
  { assert (Hb2 : f_has_div r = Some false) by (unfold f_has_div; rewrite HF0; exact (f_equal Some Hno)).
    rewrite Hb2 in Hb. now inversion Hb. }
  subst b.
  pose proof (receive_div_struct _ _ _ _ _ Hrec Hb) as Hst. simpl in Hst.
  destruct Hst as ((eF' & Ha & HF) & HD). rewrite HF0 in Ha. inversion Ha. subst eF'.
  specialize (HD Hfresh). rewrite (add_term_absent _ _ _ Hno) in HF.
  assert (Hb1 : f_has_div r1 = Some true).
  { unfold f_has_div. rewrite HF. simpl. rewrite existsb_app. simpl. now rewrite orb_true_r. }
  destruct (run_booked _ _ _ _ _ _ H Hok' Hr1 Hb1 HD eq_refl) as (r' & I1 & I2 & I3 & I4 & I5 & I6 & I7).
  exists r'. split; [exact I1|].
  split; [eapply frame_trans; [eapply receive_div_frame; exact Hrec|exact I2]|].
  split; [eapply Forall2_trans_frame; eassumption|].
  split; [congruence|]. split.
  - rewrite I5. simpl. f_equal. f_equal. f_equal.
    + unfold prof_of. now rewrite Hs.
    + apply map_ext. intros q. now rewrite (prof_of_frame _ _ _ HF1).
  - split.
    + constructor; [exists self; exact Hs|].
      eapply Forall_impl; [|exact I6]. intros q Hq. eapply found_in_frame; eassumption.
    + rewrite I7, HZ. simpl.
      rewrite (sumR_ext (fun q : payer => paid_by v (fst q) C1) (fun q : payer => paid_by v (fst q) C))
        by (intros; now apply paid_by_frame). lra.
Qed.

End Run.

(* ------------------------------------------------------------------ *)
(** * The payers' definitions after any sequence *)

Definition biz_ok (bizs : list nat) (s : sector) : Prop :=
  existsb (Nat.eqb (sid s)) bizs = true -> fresh s "DIV" \/ installed s.

Lemma biz_not_cand bizs s : existsb (Nat.eqb (sid s)) bizs = true -> cand bizs s = false.
Proof. intros H. unfold cand. now rewrite H. Qed.

Lemma sid_is_biz bizs p s : List.In p bizs -> sid_is p s = true -> existsb (Nat.eqb (sid s)) bizs = true.
Proof. intros Hp Hs. unfold sid_is in Hs. apply Nat.eqb_eq in Hs. rewrite Hs. now apply In_existsb. Qed.

Lemma stepQ_inv bizs p C C1 : Forall2 (stepQ bizs p) C C1 -> Forall (biz_ok bizs) C -> Forall (biz_ok bizs) C1.
Proof.
  intros HQ. induction HQ as [|a c l l' (Q0 & Q1 & Q2) _ IHQ]; intros Hinv; [constructor|].
  inversion Hinv as [|? ? Ha Hl]. subst. constructor; [|apply IHQ; exact Hl].
  unfold biz_ok. rewrite (frame_sid _ _ Q0). intros Hb. destruct (sid_is p a) eqn:E.
  - right. apply Q1; [reflexivity|now apply Ha].
  - rewrite (Q2 eq_refl (biz_not_cand _ _ Hb)). now apply Ha.
Qed.

Section StepDefs.
Variables (bizs : list nat) (p : nat) (C C1 : list sector).
Hypothesis Hp : List.In p bizs.
Hypothesis HQ : Forall2 (stepQ bizs p) C C1.

Lemma stepQ_installs : Forall (biz_ok bizs) C ->
  forall s1, List.In s1 C1 -> sid_is p s1 = true -> installed s1.
Proof.
  intros Hinv s1 Hin Hs. destruct (Forall2_In_r _ _ _ _ HQ Hin) as (s & Hs0 & Q0 & Q1 & _).
  assert (Es : sid_is p s = true) by (unfold sid_is in *; now rewrite <- (frame_sid _ _ Q0)).
  apply Q1; [exact Es|]. rewrite Forall_forall in Hinv. apply (Hinv _ Hs0). eapply sid_is_biz; eassumption.
Qed.

Lemma stepQ_keeps p0 : List.In p0 bizs ->
  (forall s, List.In s C -> sid_is p0 s = true -> installed s) ->
  forall s1, List.In s1 C1 -> sid_is p0 s1 = true -> installed s1.
Proof.
  intros Hp0 H0 s1 Hin Hs. destruct (Forall2_In_r _ _ _ _ HQ Hin) as (s & Hs0 & Q0 & Q1 & Q2).
  assert (Es : sid_is p0 s = true) by (unfold sid_is in *; now rewrite <- (frame_sid _ _ Q0)).
  destruct (sid_is p s) eqn:E.
  - apply Q1; [reflexivity|]. right. now apply H0.
  - rewrite (Q2 eq_refl (biz_not_cand _ _ (sid_is_biz _ _ _ Hp0 Es))). now apply H0.
Qed.

End StepDefs.

Lemma run_defs bizs : forall ps C C' (done : nat -> Prop),
  dividends_run bizs ps C = Ok C' -> Forall (payer_ok bizs) ps ->
  (exists r, find (cand bizs) C = Some r) ->
  Forall (biz_ok bizs) C ->
  (forall p0, done p0 -> List.In p0 bizs /\ forall s, List.In s C -> sid_is p0 s = true -> installed s) ->
  forall p0, done p0 \/ List.In p0 (map fst ps) ->
  forall s', List.In s' C' -> sid_is p0 s' = true -> installed s'.
Proof.
  induction ps as [|[p rs] ps IH]; intros C C' done H Hok (r & Hr) Hinv Hdone p0 Hp0; simpl in H.
  - inversion H. subst. destruct Hp0 as [Hd|[]]. exact (proj2 (Hdone _ Hd)).
  - destruct (firm_generate bizs (p, rs) C) as [C1|er] eqn:H1; [|discriminate]. simpl in H.
    inversion Hok as [|? ? (Hp & Hrs) Hok']. subst. simpl in Hp, Hrs.
    destruct (firm_step (fun _ => 0%R) _ _ _ _ _ _ H1 Hp Hrs Hr) as (self & r1 & b & _ & Hr1 & _ & _ & _ & HQ & _).
    apply (IH C1 C' (fun q => done q \/ q = p) H Hok' (ex_intro _ r1 Hr1) (stepQ_inv _ _ _ _ HQ Hinv)).
    + intros q [Hd | ->].
      * destruct (Hdone _ Hd) as (Hq & Hq2). split; [exact Hq|]. now apply (stepQ_keeps _ _ _ _ HQ).
      * split; [exact Hp|]. now apply (stepQ_installs _ _ _ _ Hp HQ).
    + simpl in Hp0. destruct Hp0 as [Hd|[<-|Hi]]; auto.
Qed.

(* ------------------------------------------------------------------ *)
(** * The dividend bookings cancel *)

Section Cancel.
Variable v : string -> R.
Variable bv : string -> string -> R.
Local Open Scope R_scope.

Lemma paid_by_none p l : (forall x, List.In x l -> sid_is p x = false) -> paid_by v p l = 0.
Proof.
  unfold paid_by. induction l as [|a l IH]; intros H; simpl; [reflexivity|].
  rewrite (H a (or_introl eq_refl)), IH; [lra|]. intros x Hx. apply H. now right.
Qed.

Lemma paid_by_unique p C self : NoDup (map sid C) -> find (sid_is p) C = Some self ->
  paid_by v p C = v (vname self "DIV").
Proof.
  induction C as [|a l IH]; intros Hnd Hf; simpl in Hf; [discriminate|].
  inversion Hnd as [|? ? Hna Hnd']. subst. unfold paid_by. simpl. fold (paid_by v p l).
  destruct (sid_is p a) eqn:E.
  - inversion Hf. subst. rewrite paid_by_none; [lra|].
    intros x Hx. destruct (sid_is p x) eqn:Ex; [|reflexivity]. exfalso. apply Hna.
    unfold sid_is in *. apply Nat.eqb_eq in E, Ex. rewrite E, <- Ex. now apply in_map.
  - rewrite (IH Hnd' Hf). lra.
Qed.

Lemma tsum_profs r' C l : Forall (found_in C) l ->
  tsum_in v r' (map (fun q : payer => (1%Z, [prof_of C (fst q)])) l) =
  sumR (fun q : payer => v (prof_of C (fst q))) l.
Proof.
  induction 1 as [|q l (self & Hs) _ IH]; simpl; [reflexivity|].
  rewrite IH. unfold tval_in, prof_of. simpl. rewrite Hs, qualify_vname. lra.
Qed.

(** For ANY non-empty sequence of paying firms: under the payers' definitions DIV = PROF and the
    receiver's final definition, what the firms pay out is what the receiver books, and the
    financial-asset equations of the country gain a total of zero. *)
Theorem dividends_cancel bizs pr ps C C' r eF :
  dividends_run bizs (pr :: ps) C = Ok C' -> Forall (payer_ok bizs) (pr :: ps) ->
  find (cand bizs) C = Some r ->
  lookup_var "F" (vars r) = Some eF ->
  existsb (fun t : term => factors_eqb (snd t) ["DIV"]) (terms eF) = false ->
  fresh r "DIV" ->
  NoDup (map sid C) ->
  (forall (q : payer) s, List.In q (pr :: ps) -> List.In s C -> sid_is (fst q) s = true ->
                         v (vname s "DIV") = v (vname s "PROF")) ->
  (forall r', find (cand bizs) C' = Some r' -> holds v bv r' "DIV") ->
  sumR (fun q : payer => paid_by v (fst q) C) (pr :: ps) = v (vname r "DIV") /\
  zone_F v C' = zone_F v C.
Proof.
  intros H Hok Hr HF Hno Hfresh Hnd Hpay Hrecv.
  destruct (dividends_ledger v _ _ _ _ _ _ _ H Hok Hr HF Hno Hfresh)
    as (r' & I1 & I2 & I3 & I4 & I5 & I6 & I7).
  pose proof (holds_struct v bv _ _ _ I5 (Hrecv _ I1)) as Hv.
  rewrite (frame_vname _ _ _ I2), (tsum_profs _ _ _ I6) in Hv.
  assert (E : sumR (fun q : payer => paid_by v (fst q) C) (pr :: ps) = v (vname r "DIV")).
  { rewrite Hv. apply sumR_ext. intros q Hq.
    rewrite Forall_forall in I6. destruct (I6 _ Hq) as (self & Hs).
    rewrite (paid_by_unique _ _ _ Hnd Hs). unfold prof_of. rewrite Hs.
    apply find_some in Hs. destruct Hs as (Hin & Hsid). now apply (Hpay q). }
  split; [exact E|]. rewrite I7, E. lra.
Qed.

(** the same with the payers' equations read off the final state *)
Theorem dividends_cancel_holds bizs pr ps C C' r eF :
  dividends_run bizs (pr :: ps) C = Ok C' -> Forall (payer_ok bizs) (pr :: ps) ->
  find (cand bizs) C = Some r ->
  lookup_var "F" (vars r) = Some eF ->
  existsb (fun t : term => factors_eqb (snd t) ["DIV"]) (terms eF) = false ->
  fresh r "DIV" ->
  NoDup (map sid C) ->
  Forall (biz_ok bizs) C ->
  (forall s', List.In s' C' -> (exists q : payer, List.In q (pr :: ps) /\ sid_is (fst q) s' = true) ->
              holds v bv s' "DIV") ->
  (forall r', find (cand bizs) C' = Some r' -> holds v bv r' "DIV") ->
  sumR (fun q : payer => paid_by v (fst q) C) (pr :: ps) = v (vname r "DIV") /\
  zone_F v C' = zone_F v C.
Proof.
  intros H Hok Hr HF Hno Hfresh Hnd Hbiz Hpay Hrecv.
  apply (dividends_cancel _ _ _ _ _ _ _ H Hok Hr HF Hno Hfresh Hnd); [|exact Hrecv].
  intros q s Hq Hs Hsid.
  destruct (dividends_ledger v _ _ _ _ _ _ _ H Hok Hr HF Hno Hfresh) as (r' & _ & _ & I3 & _).
  destruct (Forall2_In_l _ _ _ _ I3 Hs) as (s' & Hs' & Hfr).
  assert (Hsid' : sid_is (fst q) s' = true) by (unfold sid_is in *; now rewrite (frame_sid _ _ Hfr)).
  assert (Hinst : installed s').
  { apply (run_defs bizs (pr :: ps) C C' (fun _ => False) H Hok (ex_intro _ r Hr) Hbiz) with (p0 := fst q).
    - intros p0 [].
    - right. now apply in_map.
    - exact Hs'.
    - exact Hsid'. }
  pose proof (holds_struct v bv _ _ _ Hinst (Hpay s' Hs' (ex_intro _ q (conj Hq Hsid')))) as Hv.
  rewrite (frame_vname _ _ _ Hfr) in Hv. rewrite Hv. unfold tsum_in, tval_in. cbn [fval_in fst snd].
  change (qualify s' "PROF") with (vname s' "PROF"). rewrite (frame_vname _ _ _ Hfr). lra.
Qed.

End Cancel.
