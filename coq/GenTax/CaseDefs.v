(** Comparison helpers for the generated correspondence cases of the GenTax family: the model's
    final state against what the implementation's sectors hold after the call.
    Per variable: name (EquationBlock insertion order), the rendered right-hand side
    (Equation.GetRightHandSide), and — for equations the implementation keeps as parsed terms —
    the leading blob and the (coefficient, term text) list. *)
From Coq Require Import List String Ascii Bool ZArith Arith DecimalString.
From SFC.Base Require Import Res Str.
From SFC.Gen Require Import Fx Zone.
From SFC.GenTax Require Import Tax Dividends.
Import ListNotations.
Local Open Scope string_scope.

Definition zstr (z : Z) : string := NilZero.string_of_int (Z.to_int z).

(** Term.__str__ for an integer-valued Constant *)
Definition render_term (t : term) : string :=
  let c := fst t in
  let x := String.concat "*" (snd t) in
  if Z.eqb c 0 then ""
  else if Z.eqb c 1 then "+" ++ x
  else if Z.eqb c (-1) then "-" ++ x
  else if Z.ltb 0 c then "+" ++ zstr c ++ ".0*" ++ x
  else zstr c ++ ".0*" ++ x.

(** Equation.GetRightHandSide *)
Definition render (e : eqn) : string :=
  let out := blob e ++ String.concat "" (map render_term (terms e)) in
  let out := match out with String "+"%char r => r | _ => out end in
  if String.eqb out "" then "0.0" else out.

Fixpoint zs_eqb (a b : list (Z * string)) : bool :=
  match a, b with
  | [], [] => true
  | (c, s) :: a', (d, t) :: b' => Z.eqb c d && String.eqb s t && zs_eqb a' b'
  | _, _ => false
  end.

Definition term_text (t : term) : Z * string := (fst t, String.concat "*" (snd t)).

Definition var_obs := (string * string * option (string * list (Z * string)))%type.

Definition obs_eqb (ve : string * eqn) (o : var_obs) : bool :=
  let '(n, r, st) := o in
  String.eqb (fst ve) n && String.eqb (render (snd ve)) r &&
  match st with
  | None => true
  | Some (b, ts) => String.eqb (blob (snd ve)) b && zs_eqb (map term_text (terms (snd ve))) ts
  end.

Fixpoint all2 {A B : Type} (f : A -> B -> bool) (la : list A) (lb : list B) : bool :=
  match la, lb with
  | [], [] => true
  | a :: la', b :: lb' => f a b && all2 f la' lb'
  | _, _ => false
  end.

Definition zone_eqb (Z : zone) (ex : list (list var_obs)) : bool :=
  all2 (fun s vs => all2 obs_eqb (vars s) vs) Z ex.

Definition res_case (r : result zone) (ex : result (list (list var_obs))) : bool :=
  match r, ex with
  | Ok Z, Ok e => zone_eqb Z e
  | Err a, Err b => err_eqb a b
  | _, _ => false
  end.

Definition tax_case (me : nat) (rate_text paid_to : string) (Z : zone)
           (ex : result (list (list var_obs))) : bool :=
  res_case (tax_generate me rate_text paid_to Z) ex.

Definition firm_case (bizs : list nat) (pr : payer) (C : list sector)
           (ex : result (list (list var_obs))) : bool :=
  res_case (firm_generate bizs pr C) ex.

Definition firm_orig_case (bizs : list nat) (pr : payer) (C : list sector)
           (ex : result (list (list var_obs))) : bool :=
  res_case (firm_generate_orig pr C) ex.

(** whole sequence of firms, projected on what dividends touch: per sector the rendering of DIV
    and the coefficient of the term DIV in F and in INC *)
Fixpoint coef_of (f : list string) (l : list term) : option Z :=
  match l with
  | [] => None
  | (c, g) :: r => if factors_eqb f g then Some c else coef_of f r
  end.

Definition div_proj (s : sector) : option string * option Z * option Z :=
  (option_map render (lookup_var "DIV" (vars s)),
   match lookup_var "F" (vars s) with Some e => coef_of ["DIV"] (terms e) | None => None end,
   match lookup_var "INC" (vars s) with Some e => coef_of ["DIV"] (terms e) | None => None end).

Definition ostr_eqb (a b : option string) : bool :=
  match a, b with Some x, Some y => String.eqb x y | None, None => true | _, _ => false end.
Definition oz_eqb (a b : option Z) : bool :=
  match a, b with Some x, Some y => Z.eqb x y | None, None => true | _, _ => false end.

Definition proj_eqb (s : sector) (ex : option string * option Z * option Z) : bool :=
  let '(d, f, i) := div_proj s in
  let '(d', f', i') := ex in
  ostr_eqb d d' && oz_eqb f f' && oz_eqb i i'.

Definition run_case (bizs : list nat) (ps : list payer) (C : list sector)
           (ex : result (list (option string * option Z * option Z))) : bool :=
  match dividends_run bizs ps C, ex with
  | Ok C', Ok e => all2 proj_eqb C' e
  | Err a, Err b => err_eqb a b
  | _, _ => false
  end.

Definition run_orig_case (bizs : list nat) (ps : list payer) (C : list sector)
           (ex : result (list (option string * option Z * option Z))) : bool :=
  match dividends_orig ps C, ex with
  | Ok C', Ok e => all2 proj_eqb C' e
  | Err a, Err b => err_eqb a b
  | _, _ => false
  end.
