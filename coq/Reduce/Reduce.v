(** Model of [EquationParser.EquationReduction] (sfc_models/equation_parser.py, lines 201-321):
    [FindExactMatches], [CleanupRightHandSide], [RebuildEquations], [MoveDecorative] and the
    [while num_moved > 0] loop, on *parsed* structures.

    What the Python objects become here
    - [AllEquations] (a dict keyed by the left-hand text of every [=] line: endogenous, lagged,
      exogenous, [x(0)] initial-condition keys, [MaxTime], [Err_Tolerance], the default [t]) is the
      association list [all]; a value is an [entry]:
        [EExpr e]     the text is an arithmetic expression, [e] is the tree Python's [ast.parse] gives;
        [ELag s tv]   the text is [s(tv-1)] (a lag definition *before* truncation, [tv] is [k] or [t]);
        [EOpaque ns]  anything else (list-valued exogenous series ...): only its NAME tokens matter.
    - [Tokens[var]] is always [list_tokens(AllEquations[var])] when [EquationReduction] runs (it is
      filled by [ValidateInputs] and refreshed with every substitution), so it is derived: [tokens].
    - [Endogenous] is the ordered list [endo] of (name, right-hand side); [Decoration] is [deco];
      [Lagged], [Exogenous], [InitialConditions] are carried along untouched (the code never
      rebuilds them).
    - [replace_token(text, var, rhs).replace(' ', '')] is [subst var (EVar rhs)] on an expression
      entry and renaming inside the name lists of the other entries.
    - [rhs in self.AllEquations] after [CleanupRightHandSide] (strip, drop ONE leading [+]) is
      [alias_target]: the tree is [y] or [+y] and [y] is a key of [all].

    The function [find_exact_matches] walks the list of pairs captured at entry (stale right-hand
    sides) while [all] is being rewritten, exactly as the [for var, eqn in self.Endogenous] loop does.

    [skip_ic = true] is the code with the D03 fix (a variable that has an initial condition is not
    substituted away); [skip_ic = false] is the code before the fix ([reduce_orig]). *)
From Coq Require Import List String Bool Arith QArith.
From SFC.Base Require Import Res Str Expr.
Import ListNotations.
Local Open Scope string_scope.

Inductive entry : Type :=
| EExpr (e : expr Q)
| ELag (src tv : string)
| EOpaque (names : list string).

Definition amap := list (string * entry).

Record prog : Type := mkProg {
  all : amap;                          (* AllEquations, in dict order *)
  endo : list (string * expr Q);       (* Endogenous *)
  deco : list (string * expr Q);       (* Decoration *)
  lagged : list (string * string);     (* Lagged: (lag variable, source) *)
  exo : list string;                   (* names of Exogenous *)
  ics : list (string * Q)              (* InitialConditions: variable, value *)
}.

Fixpoint lookup {A} (x : string) (l : list (string * A)) : option A :=
  match l with
  | [] => None
  | (y, a) :: r => if String.eqb x y then Some a else lookup x r
  end.

Definition has_key {A} (x : string) (l : list (string * A)) : bool :=
  match lookup x l with Some _ => true | None => false end.

(** [list_tokens] of the entry's text, restricted to what can be a variable name. *)
Definition tokens (en : entry) : list string :=
  match en with
  | EExpr e => names e
  | ELag s tv => [s; tv]
  | EOpaque ns => ns
  end.

(** [CleanupRightHandSide(eqn)] names a variable: the tree is [y] or [+y]. *)
Definition alias_target (e : expr Q) : option string :=
  match e with
  | EVar y => Some y
  | EPos (EVar y) => Some y
  | _ => None
  end.

Definition ren (var rhs z : string) : string := if String.eqb z var then rhs else z.

(** [replace_token(text, var, rhs).replace(' ', '')] *)
Definition subst_entry (var rhs : string) (en : entry) : entry :=
  match en with
  | EExpr e => EExpr (subst var (EVar rhs) e)
  | ELag s tv => ELag (ren var rhs s) (ren var rhs tv)
  | EOpaque ns => EOpaque (map (ren var rhs) ns)
  end.

(** [for other in self.AllEquations: ...] *)
Definition subst_all (var rhs : string) (m : amap) : amap :=
  map (fun p => (fst p, subst_entry var rhs (snd p))) m.

(** [var == self.CleanupRightHandSide(self.AllEquations[rhs])] *)
Definition loop_guard (var rhs : string) (m : amap) : bool :=
  match lookup rhs m with
  | Some (EExpr e) => match alias_target e with Some y => String.eqb var y | None => false end
  | _ => false
  end.

(** The body of [FindExactMatches] before [RebuildEquations]: [stale] is the list being iterated. *)
Fixpoint fem_loop (skip_ic : bool) (icn : list string) (stale : list (string * expr Q)) (m : amap)
  : result amap :=
  match stale with
  | [] => Ok m
  | (var, eqn) :: rest =>
      if skip_ic && mem var icn then fem_loop skip_ic icn rest m
      else match alias_target eqn with
           | Some rhs =>
               if has_key rhs m then
                 if loop_guard var rhs m then Err ValueError
                 else fem_loop skip_ic icn rest (subst_all var rhs m)
               else fem_loop skip_ic icn rest m
           | None => fem_loop skip_ic icn rest m
           end
  end.

(** [RebuildEquations]: [(x[0], self.AllEquations[x[0]])].  Every endogenous name is a key of
    [AllEquations]; the harness only emits programs whose endogenous names map to expression
    entries (a name that is *also* defined as a lag or a list is outside the model's domain), the
    fallback keeps the old pair. *)
Definition rebuild (m : amap) (l : list (string * expr Q)) : list (string * expr Q) :=
  map (fun p => match lookup (fst p) m with Some (EExpr e) => (fst p, e) | _ => p end) l.

(** [var] occurs in some token list (its own included). *)
Definition used (m : amap) (var : string) : bool :=
  existsb (fun p => mem var (tokens (snd p))) m.

(** [MoveDecorative].  The Python loop walks a copy of [Endogenous], appends every unused pair to
    [Decoration] and removes (the first tuple equal to) it from [Endogenous]; the token table does
    not change meanwhile, so every unused pair is removed exactly once and the survivors keep
    their order: the result is this partition.  Returns the number moved. *)
Definition move_decorative (m : amap) (en de : list (string * expr Q))
  : list (string * expr Q) * list (string * expr Q) * nat :=
  let moved := filter (fun p => negb (used m (fst p))) en in
  (filter (fun p => used m (fst p)) en, (de ++ moved)%list, List.length moved).

Definition set_state (P : prog) (m : amap) (en de : list (string * expr Q)) : prog :=
  mkProg m en de (lagged P) (exo P) (ics P).

(** One turn of the [while] loop: [FindExactMatches()] (with its [RebuildEquations()]) then
    [MoveDecorative()]; returns the new state and [num_moved]. *)
Definition round (skip_ic : bool) (P : prog) : result (prog * nat) :=
  match fem_loop skip_ic (map fst (ics P)) (endo P) (all P) with
  | Err e => Err e
  | Ok m =>
      let '(en, de, n) := move_decorative m (rebuild m (endo P)) (deco P) in
      Ok (set_state P m en de, n)
  end.

(** [while num_moved > 0: FindExactMatches(); num_moved = MoveDecorative()] *)
Fixpoint reduce_loop (skip_ic : bool) (fuel : nat) (P : prog) : result prog :=
  match fuel with
  | O => Err OutOfFuel
  | S f =>
      match round skip_ic P with
      | Err e => Err e
      | Ok (P', n) => if Nat.eqb n 0 then Ok P' else reduce_loop skip_ic f P'
      end
  end.

(** Every round but the last removes a variable from [Endogenous]: [length endo + 1] rounds suffice
    ([reduce_terminates]). *)
Definition reduce_gen (skip_ic : bool) (P : prog) : result prog :=
  reduce_loop skip_ic (S (List.length (endo P))) P.

Definition reduce : prog -> result prog := reduce_gen true.        (* with the D03 fix *)
Definition reduce_orig : prog -> result prog := reduce_gen false.  (* as at /repo HEAD before it *)

(* ------------------------------------------------------------------ *)
(** * Time zero, minimally (for the refutation of the unfixed code)

    [SetInitialConditions]: an initial condition wins over the equation at k=0; exogenous values
    are known; then constant endogenous equations, then constant decorative equations, are
    evaluated repeatedly from what is known so far.  Exact rationals stand in for the floats (the
    witness only uses small integers). *)
Fixpoint evalQ (env : list (string * Q)) (e : expr Q) : option Q :=
  let bin (f : Q -> Q -> option Q) a b :=
    match evalQ env a, evalQ env b with Some x, Some y => f x y | _, _ => None end in
  match e with
  | ENum c => Some c
  | EVar x => lookup x env
  | ENeg a => option_map Qopp (evalQ env a)
  | EPos a => evalQ env a
  | EAdd a b => bin (fun x y => Some (x + y)%Q) a b
  | ESub a b => bin (fun x y => Some (x - y)%Q) a b
  | EMul a b => bin (fun x y => Some (x * y)%Q) a b
  | EDiv a b => bin (fun x y => if Qeq_bool y 0 then None else Some (x / y)%Q) a b
  | ECall1 _ _ | ECall2 _ _ _ => None
  end.

(** One sweep of the third (or fourth) pass over the pairs [l]. *)
Fixpoint k0_sweep (l : list (string * expr Q)) (known : list (string * Q)) : list (string * Q) * bool :=
  match l with
  | [] => (known, false)
  | (x, e) :: r =>
      if has_key x known then k0_sweep r known
      else match evalQ known e with
           | Some v => let '(k', _) := k0_sweep r ((x, v) :: known) in (k', true)
           | None => k0_sweep r known
           end
  end.

Fixpoint k0_pass (fuel : nat) (l : list (string * expr Q)) (known : list (string * Q)) : list (string * Q) :=
  match fuel with
  | O => known
  | S f => let '(k', changed) := k0_sweep l known in if changed then k0_pass f l k' else k'
  end.

(** Time-zero constants of a program given the time-zero values of its exogenous variables. *)
Definition k0 (P : prog) (exo0 : list (string * Q)) : list (string * Q) :=
  let known := (exo0 ++ ics P)%list in
  let known := k0_pass (S (List.length (endo P))) (endo P) known in
  k0_pass (S (List.length (deco P))) (deco P) known.

(** Value reported at k=0 (0 when not a time-zero constant). *)
Definition k0_value (P : prog) (exo0 : list (string * Q)) (x : string) : Q :=
  match lookup x (k0 P exo0) with Some v => v | None => 0%Q end.
