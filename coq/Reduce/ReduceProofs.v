(** Proofs about the reduction model (Reduce.v): termination, variable preservation, equality of
    solution sets, decoration order. *)
From Coq Require Import List String Bool Arith QArith Reals Qreals Permutation Lia.
From SFC.Base Require Import Res Str Expr.
From SFC.Reduce Require Import Reduce.
Import ListNotations.
Local Close Scope Q_scope.
Local Open Scope string_scope.

(* ------------------------------------------------------------------ *)
(** * Semantics *)

(** value of a right-hand side under a valuation of the variables (literals are exact rationals) *)
Definition ev (v : string -> R) (e : expr Q) : R := evalR Q2R v e.

(** [v] solves every equation of the list *)
Definition sat (v : string -> R) (l : list (string * expr Q)) : Prop :=
  forall x e, List.In (x, e) l -> v x = ev v e.

(** a freshly parsed, non-degenerate program: no endogenous variable is defined twice, the
    [AllEquations] entry of every endogenous variable is its equation, nothing is decorative yet *)
Definition wf (P : prog) : Prop :=
  NoDup (map fst (endo P)) /\
  (forall x e, List.In (x, e) (endo P) -> lookup x (all P) = Some (EExpr e)) /\
  deco P = [].

(** the part of [wf] the loop maintains *)
Definition consistent (P : prog) : Prop :=
  NoDup (map fst (endo P)) /\
  (forall x e, List.In (x, e) (endo P) -> lookup x (all P) = Some (EExpr e)).

(* ------------------------------------------------------------------ *)
(** * Generic list facts *)

Lemma filter_split_length {A} (f : A -> bool) (l : list A) :
  List.length (filter f l) + List.length (filter (fun x => negb (f x)) l) = List.length l.
Proof. induction l as [|a l IH]; simpl; [reflexivity|]. destruct (f a); simpl; lia. Qed.

Lemma filter_split_perm {A} (f : A -> bool) (l : list A) :
  Permutation (filter f l ++ filter (fun x => negb (f x)) l) l.
Proof.
  induction l as [|a l IH]; simpl; [constructor|].
  destruct (f a); simpl.
  - now constructor.
  - eapply Permutation_trans; [apply Permutation_sym, Permutation_middle|]. now constructor.
Qed.

Lemma NoDup_map_filter {A B} (g : A -> B) (f : A -> bool) (l : list A) :
  NoDup (map g l) -> NoDup (map g (filter f l)).
Proof.
  induction l as [|a l IH]; simpl; intros H; [constructor|].
  inversion H as [|? ? Hn Hd]; subst.
  destruct (f a); simpl; [|auto].
  constructor; [|auto]. intros Hin. apply Hn.
  apply in_map_iff in Hin. destruct Hin as [b [Hb Hin]]. apply filter_In in Hin.
  apply in_map_iff. exists b. tauto.
Qed.

Lemma NoDup_app_l {A} (l1 l2 : list A) : NoDup (l1 ++ l2) -> NoDup l1.
Proof.
  induction l1 as [|a l1 IH]; simpl; intros H; [constructor|].
  inversion H as [|? ? Hn Hd]; subst. constructor; [|auto].
  intros Hin. apply Hn. apply in_or_app. now left.
Qed.

Lemma NoDup_app_r {A} (l1 l2 : list A) : NoDup (l1 ++ l2) -> NoDup l2.
Proof.
  induction l1 as [|a l1 IH]; simpl; intros H; [exact H|]. inversion H; auto.
Qed.

Lemma lookup_In {A} x (l : list (string * A)) a : lookup x l = Some a -> List.In (x, a) l.
Proof.
  induction l as [|[y b] l IH]; simpl; [discriminate|].
  destruct (String.eqb_spec x y) as [->|Hn]; intros H.
  - injection H as ->. now left.
  - right. auto.
Qed.

(* ------------------------------------------------------------------ *)
(** * Termination *)

Lemma fem_loop_err b icn stale m e : fem_loop b icn stale m = Err e -> e = ValueError.
Proof.
  revert m. induction stale as [|[var eqn] rest IH]; simpl; intros m H; [discriminate|].
  destruct (b && mem var icn); [eauto|].
  destruct (alias_target eqn) as [rhs|]; [|eauto].
  destruct (has_key rhs m); [|eauto].
  destruct (loop_guard var rhs m); [|eauto].
  now injection H as <-.
Qed.

Lemma rebuild_length m l : List.length (rebuild m l) = List.length l.
Proof. unfold rebuild. apply map_length. Qed.

Lemma rebuild_fst m l : map fst (rebuild m l) = map fst l.
Proof.
  unfold rebuild. rewrite map_map. apply map_ext. intros [x e]. simpl.
  destruct (lookup x m) as [[e'| |]|]; reflexivity.
Qed.

Lemma round_spec b P P' n :
  round b P = Ok (P', n) ->
  exists m, fem_loop b (map fst (ics P)) (endo P) (all P) = Ok m /\
    P' = set_state P m (filter (fun p => used m (fst p)) (rebuild m (endo P)))
                       (deco P ++ filter (fun p => negb (used m (fst p))) (rebuild m (endo P))) /\
    n = List.length (filter (fun p => negb (used m (fst p))) (rebuild m (endo P))).
Proof.
  unfold round. destruct (fem_loop b (map fst (ics P)) (endo P) (all P)) as [m|e]; [|discriminate].
  unfold move_decorative. intros H. injection H as <- <-. exists m. auto.
Qed.

Lemma round_err b P e : round b P = Err e -> e = ValueError.
Proof.
  unfold round. destruct (fem_loop b (map fst (ics P)) (endo P) (all P)) as [m|e'] eqn:H.
  - unfold move_decorative. discriminate.
  - intros H'. injection H' as <-. eapply fem_loop_err; eauto.
Qed.

Lemma round_length b P P' n :
  round b P = Ok (P', n) -> List.length (endo P') + n = List.length (endo P).
Proof.
  intros H. apply round_spec in H. destruct H as [m [_ [-> ->]]]. simpl.
  rewrite filter_split_length. apply rebuild_length.
Qed.

Lemma reduce_loop_fuel b fuel P :
  List.length (endo P) < fuel -> reduce_loop b fuel P <> Err OutOfFuel.
Proof.
  revert P. induction fuel as [|f IH]; intros P Hlt; [lia|]. simpl.
  destruct (round b P) as [[P' n]|e] eqn:Hr.
  - destruct (Nat.eqb_spec n 0) as [->|Hn]; [discriminate|].
    apply IH. apply round_length in Hr. lia.
  - apply round_err in Hr. subst. discriminate.
Qed.

Lemma reduce_terminates b P : reduce_gen b P <> Err OutOfFuel.
Proof. unfold reduce_gen. apply reduce_loop_fuel. lia. Qed.

(** Invariants of the loop are established round by round. *)
Lemma reduce_loop_inv (Inv : prog -> Prop) b :
  (forall P P' n, Inv P -> round b P = Ok (P', n) -> Inv P') ->
  forall fuel P P', Inv P -> reduce_loop b fuel P = Ok P' -> Inv P'.
Proof.
  intros Hstep. induction fuel as [|f IH]; intros P P' HI H; simpl in H; [discriminate|].
  destruct (round b P) as [[P1 n]|e] eqn:Hr; [|discriminate].
  pose proof (Hstep _ _ _ HI Hr) as HI1.
  destruct (Nat.eqb n 0).
  - injection H as <-. exact HI1.
  - eauto.
Qed.

(* ------------------------------------------------------------------ *)
(** * No variable is lost, duplicated or renamed *)

Definition var_names (P : prog) : list string := (map fst (endo P) ++ map fst (deco P))%list.

Lemma round_vars b P P' n :
  round b P = Ok (P', n) ->
  Permutation (var_names P') (var_names P) /\
  lagged P' = lagged P /\ exo P' = exo P /\ ics P' = ics P /\ map fst (all P') = map fst (all P).
Proof.
  intros H. apply round_spec in H. destruct H as [m [Hf [-> _]]]. unfold var_names. simpl.
  split; [|repeat split].
  - set (l := rebuild m (endo P)). rewrite map_app.
    assert (HE : map fst (endo P) = map fst l) by (unfold l; symmetry; apply rebuild_fst).
    rewrite HE.
    eapply Permutation_trans; [apply Permutation_app_head, Permutation_app_comm|].
    rewrite app_assoc. apply Permutation_app_tail. rewrite <- map_app.
    apply Permutation_map, filter_split_perm.
  - (* keys of AllEquations *)
    clear -Hf. revert Hf. generalize (all P) as m0. generalize (endo P) as stale.
    induction stale as [|[var eqn] rest IH]; simpl; intros m0 H.
    + now injection H as <-.
    + destruct (b && mem var (map fst (ics P))); [eauto|].
      destruct (alias_target eqn) as [rhs|]; [|eauto].
      destruct (has_key rhs m0); [|eauto].
      destruct (loop_guard var rhs m0); [discriminate|].
      apply IH in H. rewrite H. unfold subst_all. rewrite map_map. reflexivity.
Qed.

Lemma reduce_vars b P P' :
  reduce_gen b P = Ok P' ->
  Permutation (var_names P') (var_names P) /\
  lagged P' = lagged P /\ exo P' = exo P /\ ics P' = ics P /\ map fst (all P') = map fst (all P).
Proof.
  unfold reduce_gen. intros H.
  apply (reduce_loop_inv (fun Q => Permutation (var_names Q) (var_names P) /\
           lagged Q = lagged P /\ exo Q = exo P /\ ics Q = ics P /\ map fst (all Q) = map fst (all P)) b)
    with (fuel := S (List.length (endo P))) (P := P); [| |exact H].
  - intros Q Q' n [H1 [H2 [H3 [H4 H5]]]] Hr. apply round_vars in Hr.
    destruct Hr as [G1 [G2 [G3 [G4 G5]]]].
    repeat split; try congruence. eapply Permutation_trans; eauto.
  - repeat split; auto.
Qed.

(* ------------------------------------------------------------------ *)
(** * The substitutions performed by one pass of FindExactMatches *)

(** substitutions [x := y] applied left to right *)
Definition substs (L : list (string * string)) (e : expr Q) : expr Q :=
  fold_left (fun e p => subst (fst p) (EVar (snd p)) e) L e.
Definition substs_entry (L : list (string * string)) (en : entry) : entry :=
  fold_left (fun en p => subst_entry (fst p) (snd p) en) L en.
Definition substs_all (L : list (string * string)) (m : amap) : amap :=
  fold_left (fun m p => subst_all (fst p) (snd p) m) L m.

Lemma substs_entry_expr L e : substs_entry L (EExpr e) = EExpr (substs L e).
Proof. revert e. induction L as [|[a b] L IH]; simpl; intros e; [reflexivity|]. apply IH. Qed.

Lemma lookup_subst_all x a b m : lookup x (subst_all a b m) = option_map (subst_entry a b) (lookup x m).
Proof.
  induction m as [|[y en] m IH]; simpl; [reflexivity|].
  destruct (String.eqb x y); [reflexivity|exact IH].
Qed.

Lemma lookup_substs_all x L m : lookup x (substs_all L m) = option_map (substs_entry L) (lookup x m).
Proof.
  revert m. induction L as [|[a b] L IH]; simpl; intros m.
  - destruct (lookup x m); reflexivity.
  - unfold substs_all in IH. rewrite IH. rewrite lookup_subst_all. destruct (lookup x m); reflexivity.
Qed.

(** What a successful pass did: a list [L] of substitutions, each [x := y] justified by a pair
    [(x, e)] of the list iterated with [e] the alias [y] (or [+y]); distinct [x]. *)
Lemma fem_loop_spec b icn stale m m' :
  fem_loop b icn stale m = Ok m' ->
  exists L, m' = substs_all L m /\
    (forall x y, List.In (x, y) L -> exists e, List.In (x, e) stale /\ alias_target e = Some y) /\
    (forall x, List.In x (map fst L) -> List.In x (map fst stale)) /\
    (NoDup (map fst stale) -> NoDup (map fst L)).
Proof.
  revert m. induction stale as [|[var eqn] rest IH]; simpl; intros m H.
  - injection H as <-. exists []. simpl. repeat split; auto; try tauto; intros; try constructor.
  - assert (Hskip : forall m0, fem_loop b icn rest m0 = Ok m' ->
      exists L, m' = substs_all L m0 /\
        (forall x y, List.In (x, y) L -> exists e, ((var, eqn) = (x, e) \/ List.In (x, e) rest) /\ alias_target e = Some y) /\
        (forall x, List.In x (map fst L) -> var = x \/ List.In x (map fst rest)) /\
        (NoDup (var :: map fst rest) -> NoDup (map fst L))).
    { intros m0 H0. apply IH in H0. destruct H0 as [L [E [H1 [H2 H3]]]]. exists L. repeat split; auto.
      - intros x y Hin. destruct (H1 _ _ Hin) as [e [He1 He2]]. exists e. auto.
      - intros Hnd. inversion Hnd; auto. }
    destruct (b && mem var icn); [auto|].
    destruct (alias_target eqn) as [rhs|] eqn:Ha; [|auto].
    destruct (has_key rhs m); [|auto].
    destruct (loop_guard var rhs m); [discriminate|].
    apply IH in H. destruct H as [L [E [H1 [H2 H3]]]].
    exists ((var, rhs) :: L). simpl. repeat split.
    + exact E.
    + intros x y [Heq|Hin].
      * injection Heq as <- <-. exists eqn. auto.
      * destruct (H1 _ _ Hin) as [e [He1 He2]]. exists e. auto.
    + intros x [->|Hin]; auto.
    + intros Hnd. inversion Hnd as [|? ? Hn Hd]; subst. constructor; auto.
Qed.

(* ------------------------------------------------------------------ *)
(** * Substituting aliases preserves the solution set *)

Lemma ev_subst v a b e :
  ev v (subst a (EVar b) e) = ev (fun z => if String.eqb z a then v b else v z) e.
Proof. unfold ev. rewrite evalR_subst. reflexivity. Qed.

Lemma ev_ext v w e : (forall z, v z = w z) -> ev v e = ev w e.
Proof. intros H. unfold ev. apply evalR_ext. intros; apply H. Qed.

Lemma alias_ev v e y : alias_target e = Some y -> ev v e = v y.
Proof.
  destruct e; simpl; try discriminate.
  - intros H. now injection H as ->.
  - destruct e; try discriminate. intros H. now injection H as ->.
Qed.

(** Lemma A: under a valuation that equates every substituted pair, substitution is invisible. *)
Lemma substs_ev v L e :
  (forall x y, List.In (x, y) L -> v x = v y) -> ev v (substs L e) = ev v e.
Proof.
  revert e. induction L as [|[a b] L IH]; simpl; intros e H; [reflexivity|].
  unfold substs in *. simpl. rewrite IH by (intros; apply H; auto).
  rewrite ev_subst. apply ev_ext. intros z.
  destruct (String.eqb_spec z a) as [->|]; [|reflexivity]. symmetry. apply H. now left.
Qed.

Lemma substs_snoc L a b e : substs (L ++ [(a, b)]) e = subst a (EVar b) (substs L e).
Proof. unfold substs. rewrite fold_left_app. reflexivity. Qed.

(** Lemma B: a valuation that solves the *substituted* alias equations equates every substituted
    pair.  (Induction from the last substitution backwards: undoing [x_k := y_k] on the valuation
    gives a solution of the system before that substitution.) *)
Lemma substs_solved_pairs L :
  NoDup (map fst L) ->
  forall v,
  (forall x y, List.In (x, y) L -> exists e, alias_target e = Some y /\ v x = ev v (substs L e)) ->
  forall x y, List.In (x, y) L -> v x = v y.
Proof.
  induction L as [|[a b] L IH] using rev_ind; intros Hnd v H x y Hin; [destruct Hin|].
  rewrite map_app in Hnd. simpl in Hnd.
  assert (HndL : NoDup (map fst L)) by (eapply NoDup_app_l; eauto).
  assert (Ha : ~ List.In a (map fst L)).
  { intros Hc. apply NoDup_remove_2 in Hnd. apply Hnd. rewrite app_nil_r. exact Hc. }
  set (v' := fun z => if String.eqb z a then v b else v z).
  assert (Hv'L : forall x y, List.In (x, y) L -> v' x = v' y).
  { apply IH; [exact HndL|]. intros x0 y0 Hin0.
    destruct (H x0 y0) as [e [He1 He2]]; [apply in_or_app; now left|].
    exists e. split; [exact He1|].
    rewrite substs_snoc, ev_subst in He2. fold v' in He2.
    unfold v' at 1. destruct (String.eqb_spec x0 a) as [->|_]; [|exact He2].
    exfalso. apply Ha. apply in_map_iff. exists (a, y0). auto. }
  assert (Hab : v a = v b).
  { destruct (H a b) as [e [He1 He2]]; [apply in_or_app; right; now left|].
    rewrite substs_snoc, ev_subst in He2. fold v' in He2.
    rewrite (substs_ev v' L e Hv'L), (alias_ev v' e b He1) in He2.
    rewrite He2. unfold v'. destruct (String.eqb b a); reflexivity. }
  assert (Hvv : forall z, v' z = v z).
  { intros z. unfold v'. destruct (String.eqb_spec z a) as [->|]; [symmetry; exact Hab|reflexivity]. }
  apply in_app_or in Hin. destruct Hin as [Hin|[Heq|[]]].
  - rewrite <- !Hvv. now apply Hv'L.
  - injection Heq as <- <-. exact Hab.
Qed.

Definition apply_substs (L : list (string * string)) (l : list (string * expr Q)) : list (string * expr Q) :=
  map (fun p => (fst p, substs L (snd p))) l.

Lemma sat_apply_substs L E :
  NoDup (map fst L) ->
  (forall x y, List.In (x, y) L -> exists e, List.In (x, e) E /\ alias_target e = Some y) ->
  forall v, sat v (apply_substs L E) <-> sat v E.
Proof.
  intros Hnd HL v. split; intros Hs.
  - assert (Hp : forall x y, List.In (x, y) L -> v x = v y).
    { apply substs_solved_pairs; [exact Hnd|]. intros x y Hin.
      destruct (HL _ _ Hin) as [e [He1 He2]]. exists e. split; [exact He2|].
      apply Hs. unfold apply_substs. apply in_map_iff. exists (x, e). auto. }
    intros x e Hin. rewrite <- (substs_ev v L e Hp). apply Hs.
    unfold apply_substs. apply in_map_iff. exists (x, e). auto.
  - assert (Hp : forall x y, List.In (x, y) L -> v x = v y).
    { intros x y Hin. destruct (HL _ _ Hin) as [e [He1 He2]].
      rewrite (Hs _ _ He1). now apply alias_ev. }
    intros x e' Hin. unfold apply_substs in Hin. apply in_map_iff in Hin.
    destruct Hin as [[x0 e] [Heq Hin]]. simpl in Heq. injection Heq as <- <-.
    rewrite (substs_ev v L e Hp). now apply Hs.
Qed.

(** [RebuildEquations] after the pass is the pointwise substitution of the old equations. *)
Lemma rebuild_substs L m E :
  (forall x e, List.In (x, e) E -> lookup x m = Some (EExpr e)) ->
  rebuild (substs_all L m) E = apply_substs L E.
Proof.
  intros Hc. unfold rebuild, apply_substs. apply map_ext_in. intros [x e] Hin. simpl.
  rewrite lookup_substs_all, (Hc _ _ Hin). simpl. now rewrite substs_entry_expr.
Qed.

Lemma sat_app v l1 l2 : sat v (l1 ++ l2) <-> sat v l1 /\ sat v l2.
Proof.
  unfold sat. split.
  - intros H. split; intros x e Hin; apply H; apply in_or_app; auto.
  - intros [H1 H2] x e Hin. apply in_app_or in Hin. destruct Hin; auto.
Qed.

Lemma sat_filter_split v (f : string * expr Q -> bool) l :
  sat v (filter f l) /\ sat v (filter (fun p => negb (f p)) l) <-> sat v l.
Proof.
  unfold sat. split.
  - intros [H1 H2] x e Hin. destruct (f (x, e)) eqn:Hf.
    + apply H1. apply filter_In. auto.
    + apply H2. apply filter_In. rewrite Hf. auto.
  - intros H. split; intros x e Hin; apply filter_In in Hin; apply H; tauto.
Qed.

(** One round keeps consistency and the solution set of Endogenous + Decoration. *)
Lemma round_consistent_sat b P P' n :
  consistent P -> round b P = Ok (P', n) ->
  consistent P' /\ forall v, sat v (endo P') /\ sat v (deco P') <-> sat v (endo P) /\ sat v (deco P).
Proof.
  intros [Hnd Hc] Hr. apply round_spec in Hr. destruct Hr as [m [Hf [-> _]]].
  apply fem_loop_spec in Hf. destruct Hf as [L [-> [HL [_ HndL]]]].
  specialize (HndL Hnd). simpl.
  rewrite (rebuild_substs L (all P) (endo P) Hc).
  split.
  - split; simpl.
    + apply NoDup_map_filter. unfold apply_substs. rewrite map_map. simpl. exact Hnd.
    + intros x e' Hin. apply filter_In in Hin. destruct Hin as [Hin _].
      unfold apply_substs in Hin. apply in_map_iff in Hin. destruct Hin as [[x0 e] [Heq Hin]].
      simpl in Heq. injection Heq as <- <-.
      rewrite lookup_substs_all, (Hc _ _ Hin). simpl. now rewrite substs_entry_expr.
  - intros v. rewrite sat_app.
    rewrite <- (sat_apply_substs L (endo P) HndL HL v).
    rewrite <- (sat_filter_split v (fun p => used (substs_all L (all P)) (fst p)) (apply_substs L (endo P))).
    tauto.
Qed.

Lemma reduce_solutions b P P' :
  consistent P -> reduce_gen b P = Ok P' ->
  forall v, sat v (endo P') /\ sat v (deco P') <-> sat v (endo P) /\ sat v (deco P).
Proof.
  intros Hc H.
  apply (reduce_loop_inv (fun Q => consistent Q /\
           forall v, sat v (endo Q) /\ sat v (deco Q) <-> sat v (endo P) /\ sat v (deco P)) b)
    with (fuel := S (List.length (endo P))) (P := P) (P' := P'); [| |exact H].
  - intros Q Q' n [HQ1 HQ2] Hr. destruct (round_consistent_sat b Q Q' n HQ1 Hr) as [G1 G2].
    split; [exact G1|]. intros v. rewrite G2. apply HQ2.
  - split; [exact Hc|]. tauto.
Qed.

(* ------------------------------------------------------------------ *)
(** * Decoration order *)

(** [d] is mentioned by no equation of the list *)
Definition unmentioned (d : string) (l : list (string * expr Q)) : Prop :=
  forall x e, List.In (x, e) l -> ~ List.In d (names e).

(** every decorative variable is mentioned neither by its own equation nor by any later one: an
    equation only refers to decorative variables that come strictly later in the list, so
    evaluating the list from its end computes every value from values already known *)
Fixpoint deco_ordered (l : list (string * expr Q)) : Prop :=
  match l with
  | [] => True
  | (d, e) :: r => unmentioned d ((d, e) :: r) /\ deco_ordered r
  end.

Lemma deco_ordered_app l1 l2 :
  deco_ordered l1 -> deco_ordered l2 ->
  (forall d, List.In d (map fst l1) -> unmentioned d l2) ->
  deco_ordered (l1 ++ l2).
Proof.
  induction l1 as [|[d e] r IH]; simpl; intros H1 H2 H3; [exact H2|].
  destruct H1 as [Hu Hr]. split.
  - intros x e' [Heq|Hin].
    + apply (Hu x e'). now left.
    + apply in_app_or in Hin. destruct Hin as [Hin|Hin].
      * apply (Hu x e'). now right.
      * apply (H3 d (or_introl eq_refl) x e'). exact Hin.
  - apply IH; auto.
Qed.

Lemma used_false m d :
  used m d = false <-> (forall k en, List.In (k, en) m -> ~ List.In d (tokens en)).
Proof.
  unfold used. split.
  - intros H k en Hin Hd. apply mem_In in Hd.
    assert (Ht : existsb (fun p => mem d (tokens (snd p))) m = true).
    { apply existsb_exists. exists (k, en). auto. }
    congruence.
  - intros H. destruct (existsb (fun p => mem d (tokens (snd p))) m) eqn:E; [|reflexivity].
    apply existsb_exists in E. destruct E as [[k en] [Hin Hm]]. apply mem_In in Hm.
    exfalso. eapply H; eauto.
Qed.

Lemma names_subst z a b (e : expr Q) :
  List.In z (names (subst a (EVar b) e)) -> z = b \/ List.In z (names e).
Proof.
  induction e; simpl; intros H; auto;
    try (apply in_app_or in H; destruct H as [H|H];
         [apply IHe1 in H|apply IHe2 in H]; destruct H; auto; right; apply in_or_app; auto).
  destruct (String.eqb s a); simpl in H; destruct H as [H|[]]; auto.
Qed.

Lemma tokens_subst_entry z a b en :
  List.In z (tokens (subst_entry a b en)) -> z = b \/ List.In z (tokens en).
Proof.
  destruct en as [e|s tv|ns]; simpl.
  - apply names_subst.
  - unfold ren. intros [H|[H|[]]].
    + destruct (String.eqb s a); auto.
    + destruct (String.eqb tv a); auto.
  - intros H. apply in_map_iff in H. destruct H as [y [Hy Hin]]. unfold ren in Hy.
    destruct (String.eqb y a); subst; auto.
Qed.

Lemma used_false_subst_all m d a b :
  used m d = false -> d <> b -> used (subst_all a b m) d = false.
Proof.
  rewrite !used_false. intros H Hne k en Hin Hd. unfold subst_all in Hin.
  apply in_map_iff in Hin. destruct Hin as [[k0 en0] [Heq Hin]]. simpl in Heq. injection Heq as <- <-.
  apply tokens_subst_entry in Hd. destruct Hd as [Hd|Hd]; [congruence|]. eapply H; eauto.
Qed.

Lemma used_false_substs_all L m d :
  used m d = false -> (forall x y, List.In (x, y) L -> d <> y) -> used (substs_all L m) d = false.
Proof.
  revert m. induction L as [|[a b] L IH]; simpl; intros m H HL; [exact H|].
  apply IH; [|intros; eapply HL; eauto].
  apply used_false_subst_all; [exact H|]. apply (HL a b). now left.
Qed.

(** the loop invariant behind the decoration order *)
Definition deco_inv (P : prog) : Prop :=
  consistent P /\
  (forall d, List.In d (map fst (deco P)) -> used (all P) d = false) /\
  deco_ordered (deco P).

Lemma deco_ordered_unused m l :
  (forall x e, List.In (x, e) l -> lookup x m = Some (EExpr e)) ->
  (forall d, List.In d (map fst l) -> used m d = false) ->
  deco_ordered l.
Proof.
  intros Hc Hu. assert (G : forall d, List.In d (map fst l) -> unmentioned d l).
  { intros d Hd x e Hin Hn. specialize (Hu d Hd). rewrite used_false in Hu.
    apply (Hu x (EExpr e)); [apply lookup_In; auto|exact Hn]. }
  clear Hc Hu. induction l as [|[d e] r IH]; simpl; [exact I|]. split.
  - apply G. now left.
  - apply IH. intros d0 Hd0 x e0 Hin. apply (G d0 (or_intror Hd0) x e0). now right.
Qed.

Lemma round_deco_inv b P P' n : deco_inv P -> round b P = Ok (P', n) -> deco_inv P'.
Proof.
  intros [Hcons [Hun Hord]] Hr.
  destruct (round_consistent_sat b P P' n Hcons Hr) as [Hcons' _].
  destruct Hcons as [Hnd Hc].
  apply round_spec in Hr. destruct Hr as [m [Hf [-> _]]].
  apply fem_loop_spec in Hf. destruct Hf as [L [-> [HL _]]].
  set (m := substs_all L (all P)) in *.
  assert (Hold : forall d, List.In d (map fst (deco P)) -> used m d = false).
  { intros d Hd. apply used_false_substs_all; [auto|].
    intros x y Hin ->. destruct (HL _ _ Hin) as [e [He1 He2]].
    specialize (Hun y Hd). rewrite used_false in Hun.
    apply (Hun x (EExpr e)); [apply lookup_In; auto|].
    simpl. destruct e; simpl in He2; try discriminate.
    - injection He2 as ->. now left.
    - destruct e; try discriminate. injection He2 as ->. now left. }
  set (new := filter (fun p => negb (used m (fst p))) (rebuild m (endo P))).
  assert (Hnew_unused : forall d, List.In d (map fst new) -> used m d = false).
  { intros d Hd. apply in_map_iff in Hd. destruct Hd as [[x e] [<- Hin]].
    apply filter_In in Hin. simpl in Hin. destruct Hin as [_ Hin]. now apply negb_true_iff. }
  assert (Hnew_c : forall x e, List.In (x, e) new -> lookup x m = Some (EExpr e)).
  { intros x e Hin. apply filter_In in Hin. destruct Hin as [Hin _].
    unfold m in Hin. rewrite (rebuild_substs L (all P) (endo P) Hc) in Hin.
    unfold apply_substs in Hin. apply in_map_iff in Hin. destruct Hin as [[x0 e0] [Heq Hin]].
    simpl in Heq. injection Heq as <- <-. unfold m.
    rewrite lookup_substs_all, (Hc _ _ Hin). simpl. now rewrite substs_entry_expr. }
  split; [exact Hcons'|]. simpl. fold m. fold new. split.
  - intros d Hd. rewrite map_app in Hd. apply in_app_or in Hd. destruct Hd; auto.
  - apply deco_ordered_app; [exact Hord|eapply deco_ordered_unused; eauto|].
    intros d Hd x e Hin Hn. specialize (Hold d Hd). rewrite used_false in Hold.
    apply (Hold x (EExpr e)); [apply lookup_In; auto|exact Hn].
Qed.

Lemma reduce_deco_inv b P P' : wf P -> reduce_gen b P = Ok P' -> deco_inv P'.
Proof.
  intros [Hnd [Hc Hd]] H.
  apply (reduce_loop_inv deco_inv b (round_deco_inv b)) with (fuel := S (List.length (endo P))) (P := P);
    [|exact H].
  split; [split; auto|]. rewrite Hd. simpl. split; [tauto|exact I].
Qed.

(** The simultaneous block left in Endogenous does not refer to any decorative variable. *)
Lemma deco_inv_endo_closed P :
  deco_inv P -> forall x e y, List.In (x, e) (endo P) -> List.In y (names e) -> ~ List.In y (map fst (deco P)).
Proof.
  intros [[_ Hc] [Hun _]] x e y Hin Hy Hd. specialize (Hun y Hd). rewrite used_false in Hun.
  apply (Hun x (EExpr e)); [apply lookup_In; auto|exact Hy].
Qed.

(** An ordered decoration list determines the decorative values from the others. *)
Lemma deco_ordered_unique l :
  deco_ordered l -> NoDup (map fst l) ->
  forall v w, (forall x, ~ List.In x (map fst l) -> v x = w x) -> sat v l -> sat w l ->
  forall x, v x = w x.
Proof.
  induction l as [|[d e] r IH]; simpl; intros Hord Hnd v w Hout Hv Hw x.
  - apply Hout. tauto.
  - destruct Hord as [Hu Hr]. inversion Hnd as [|? ? Hn Hd]; subst.
    set (w' := fun z => if String.eqb z d then v d else w z).
    assert (Hw' : sat w' r).
    { intros x0 e0 Hin. unfold w' at 1.
      destruct (String.eqb_spec x0 d) as [->|_].
      - exfalso. apply Hn. apply in_map_iff. exists (d, e0). auto.
      - rewrite (Hw x0 e0) by now right. unfold ev. apply evalR_ext. intros z Hz. unfold w'.
        destruct (String.eqb_spec z d) as [->|_]; [|reflexivity].
        exfalso. apply (Hu x0 e0); [now right|exact Hz]. }
    assert (Hvw' : forall z, v z = w' z).
    { apply IH; auto.
      - intros z Hz. unfold w'. destruct (String.eqb_spec z d) as [->|Hne]; [reflexivity|].
        apply Hout. intros [Hc|Hc]; [congruence|tauto].
      - intros x0 e0 Hin. apply Hv. now right. }
    assert (Hrest : forall z, z <> d -> v z = w z).
    { intros z Hz. rewrite Hvw'. unfold w'. destruct (String.eqb_spec z d); [contradiction|reflexivity]. }
    destruct (String.eqb_spec x d) as [->|Hne]; [|auto].
    rewrite (Hv d e) by now left. rewrite (Hw d e) by now left.
    unfold ev. apply evalR_ext. intros z Hz. apply Hrest. intros ->.
    apply (Hu d e); [now left|exact Hz].
Qed.

Lemma perm_nodup_app_r (l1 l2 l : list string) :
  Permutation (l1 ++ l2) l -> NoDup l -> NoDup l2.
Proof.
  intros Hp Hnd. apply Permutation_sym in Hp. apply (Permutation_NoDup Hp) in Hnd.
  eapply NoDup_app_r; eauto.
Qed.
