(** C03 — Equation reduction never changes any solution value.

    Model: Reduce.v ([reduce] = EquationParser.EquationReduction with the D03 fix, [reduce_orig] =
    the code before it).  Proofs: ReduceProofs.v.

    How "exactly the same time series" is rendered.  In a period the solver determines the
    endogenous variables as a solution of the simultaneous block [Endogenous] (by iteration, to a
    tolerance: property C02) and then evaluates [Decoration] from it; lagged and exogenous values
    are inputs of the period.  The theorems say, for ALL programs:
    - the reduction loop terminates ([C03_terminates]);
    - the variables of Endogenous + Decoration afterwards are exactly the endogenous variables
      before (a permutation: none lost, duplicated or renamed), the lagged / exogenous /
      initial-condition tables and the keys of AllEquations are untouched ([C03_variables],
      [C03_no_duplicates]);
    - a valuation (over the reals, for every value of the lagged / exogenous inputs, which are
      just further coordinates of the valuation) solves the original block iff it solves the
      reduced block together with the decoration equations ([C03_solutions]): same solution set,
      for every variable including the ones simplified away;
    - the decoration equations can be evaluated in one backward sweep and determine the decorative
      values uniquely from the others, and the reduced block does not mention any decorative
      variable ([C03_deco_order]).
    So with reduction on and off the periods k >= 1 are solutions of the same equations; that
    each run reports such a solution within the stop tolerance is C02's statement and that lagged
    / exogenous values are copied exactly is C10's.  NOT proved here: the float iteration itself
    and the time-zero passes of SetInitialConditions for the fixed code (both are exercised by the
    oracle of harness/c03.py on every generated block: exact equality at k=0, tolerance-limited
    equality for k>=1).  The time-zero computation is modelled only as far as needed to exhibit
    the defect of the unfixed code ([C03_orig_refuted]). *)
From Coq Require Import List String Bool Arith QArith Reals Qreals Permutation Lra.
From SFC.Base Require Import Res Str Expr.
From SFC.Reduce Require Import Reduce ReduceProofs.
Import ListNotations.
Local Close Scope Q_scope.
Local Open Scope string_scope.

(** The [while num_moved > 0] loop stops: the model never runs out of its fuel
    [length Endogenous + 1] (every round but the last moves a variable out of Endogenous). *)
Theorem C03_terminates : forall P, reduce P <> Err OutOfFuel.
Proof. exact (reduce_terminates true). Qed.
Print Assumptions C03_terminates.

(** No variable is lost, duplicated or renamed; the other tables are untouched. *)
Theorem C03_variables : forall P P', reduce P = Ok P' ->
  Permutation (map fst (endo P') ++ map fst (deco P')) (map fst (endo P) ++ map fst (deco P)) /\
  lagged P' = lagged P /\ exo P' = exo P /\ ics P' = ics P /\ map fst (all P') = map fst (all P).
Proof. exact (reduce_vars true). Qed.
Print Assumptions C03_variables.

Theorem C03_no_duplicates : forall P P', wf P -> reduce P = Ok P' ->
  NoDup (map fst (endo P') ++ map fst (deco P')).
Proof.
  intros P P' [Hnd [_ Hd]] H. apply reduce_vars in H. destruct H as [Hp _].
  unfold var_names in Hp. rewrite Hd in Hp. simpl in Hp. rewrite app_nil_r in Hp.
  apply Permutation_sym in Hp. exact (Permutation_NoDup Hp Hnd).
Qed.
Print Assumptions C03_no_duplicates.

(** Same solution set: [v] solves the original simultaneous block iff it solves the reduced block
    and the decoration equations. *)
Theorem C03_solutions : forall P P', wf P -> reduce P = Ok P' ->
  forall v : string -> R, sat v (endo P) <-> sat v (endo P') /\ sat v (deco P').
Proof.
  intros P P' [Hnd [Hc Hd]] H v.
  rewrite (reduce_solutions true P P' (conj Hnd Hc) H v). rewrite Hd.
  split; [intros Hs; split; [exact Hs|intros x e []]|tauto].
Qed.
Print Assumptions C03_solutions.

(** Decoration is well ordered, closed off from the simultaneous block, and uniquely determined. *)
Theorem C03_deco_order : forall P P', wf P -> reduce P = Ok P' ->
  deco_ordered (deco P') /\
  (forall x e y, List.In (x, e) (endo P') -> List.In y (names e) -> ~ List.In y (map fst (deco P'))) /\
  (forall v w : string -> R,
     (forall x, ~ List.In x (map fst (deco P')) -> v x = w x) ->
     sat v (deco P') -> sat w (deco P') -> forall x, v x = w x).
Proof.
  intros P P' Hwf H. pose proof (reduce_deco_inv true P P' Hwf H) as HI.
  split; [exact (proj2 (proj2 HI))|]. split; [exact (deco_inv_endo_closed P' HI)|].
  apply deco_ordered_unique; [exact (proj2 (proj2 HI))|].
  pose proof (C03_no_duplicates P P' Hwf H) as Hnd. eapply NoDup_app_r; eauto.
Qed.
Print Assumptions C03_deco_order.

(* ------------------------------------------------------------------ *)
(** * Non-vacuity and the D03 witness

    [x(0)=7; x=y; y=3; w=x+1; LAG_w=w(k-1); v=LAG_w; MaxTime=3] as parsed (with the default [t = k]). *)
Definition d03 : prog :=
  mkProg
    [("x(0)", EExpr (ENum 7%Q)); ("x", EExpr (EVar "y")); ("y", EExpr (ENum 3%Q));
     ("w", EExpr (EAdd (EVar "x") (ENum 1%Q))); ("LAG_w", ELag "w" "k"); ("v", EExpr (EVar "LAG_w"));
     ("MaxTime", EExpr (ENum 3%Q)); ("t", EExpr (EVar "k"))]
    [("x", EVar "y"); ("y", ENum 3%Q); ("w", EAdd (EVar "x") (ENum 1%Q)); ("v", EVar "LAG_w"); ("t", EVar "k")]
    [] [("LAG_w", "w")] [] [("x", 7%Q)].

Example C03_wf_example : wf d03.
Proof.
  unfold wf, d03; simpl. repeat split.
  - repeat constructor; simpl; intuition discriminate.
  - intros x e H. repeat (destruct H as [H|H]; [injection H as <- <-; reflexivity|]). destruct H.
Qed.
Print Assumptions C03_wf_example.

(** With the fix [x] keeps its equation in the block ([w = x+1] is not rewritten); [v] and [t] are decorative. *)
Example C03_reduce_example :
  exists P', reduce d03 = Ok P' /\
    endo P' = [("x", EVar "y"); ("y", ENum 3%Q); ("w", EAdd (EVar "x") (ENum 1%Q))] /\
    deco P' = [("v", EVar "LAG_w"); ("t", EVar "k")].
Proof. eexists. split; [vm_compute; reflexivity|]. split; reflexivity. Qed.
Print Assumptions C03_reduce_example.

(** The hypotheses of [C03_solutions] are satisfiable non-trivially: a solution of the witness block. *)
Example C03_sat_example :
  exists v : string -> R, sat v (endo d03) /\ v "w" = 4%R.
Proof.
  exists (fun s => if String.eqb s "w" then 4%R else if String.eqb s "x" then 3%R
                   else if String.eqb s "y" then 3%R else 0%R).
  split; [|reflexivity].
  intros x e H. simpl in H.
  repeat (destruct H as [H|H]; [injection H as <- <-; unfold ev; simpl; unfold Q2R; simpl; lra|]).
  destruct H.
Qed.
Print Assumptions C03_sat_example.

(** Alias chains, a [+] prefix, an alias discovered through a stale right-hand side, and the
    equality-loop error. *)
Example C03_chain_example :
  let P := mkProg
    [("y", EExpr (EVar "x")); ("z", EExpr (EPos (EVar "y"))); ("w", EExpr (EAdd (EVar "z") (ENum 1%Q)));
     ("x", EExpr (EMul (ENum (1#2)%Q) (EVar "w"))); ("t", EExpr (EVar "k"))]
    [("y", EVar "x"); ("z", EPos (EVar "y")); ("w", EAdd (EVar "z") (ENum 1%Q));
     ("x", EMul (ENum (1#2)%Q) (EVar "w")); ("t", EVar "k")] [] [] [] [] in
  exists P', reduce P = Ok P' /\
    endo P' = [("w", EAdd (EVar "x") (ENum 1%Q)); ("x", EMul (ENum (1#2)%Q) (EVar "w"))] /\
    deco P' = [("z", EPos (EVar "x")); ("t", EVar "k"); ("y", EVar "x")].
Proof. eexists. split; [vm_compute; reflexivity|]. split; reflexivity. Qed.
Print Assumptions C03_chain_example.

Example C03_loop_example :
  reduce (mkProg [("x", EExpr (EVar "t")); ("t", EExpr (EVar "x"))]
                 [("x", EVar "t"); ("t", EVar "x")] [] [] [] []) = Err ValueError.
Proof. vm_compute. reflexivity. Qed.
Print Assumptions C03_loop_example.

(** The code before the fix: the initial condition [x(0) = 7] makes [w(0) = x(0) + 1 = 8] in the
    unreduced program, but the reduction rewrote [w = y + 1] and time zero gives [w(0) = 4]. *)
Theorem C03_orig_refuted :
  exists P P', wf P /\ reduce_orig P = Ok P' /\
    (k0_value P [] "w" == 8)%Q /\ (k0_value P' [] "w" == 4)%Q /\
    ~ (k0_value P' [] "w" == k0_value P [] "w")%Q.
Proof.
  exists d03. eexists. split; [exact C03_wf_example|]. split; [vm_compute; reflexivity|].
  split; [vm_compute; reflexivity|]. split; [vm_compute; reflexivity|].
  vm_compute. discriminate.
Qed.
Print Assumptions C03_orig_refuted.

(** On the same witness the fixed code gives every variable its unreduced time-zero value. *)
Example C03_fixed_on_witness :
  exists P', reduce d03 = Ok P' /\
    forallb (fun x => Qeq_bool (k0_value P' [] x) (k0_value d03 [] x)) ["x"; "y"; "w"; "v"; "t"; "LAG_w"] = true.
Proof. eexists. split; [vm_compute; reflexivity|]. vm_compute. reflexivity. Qed.
Print Assumptions C03_fixed_on_witness.
