(** Boolean comparison helpers used by the generated correspondence cases of C03. *)
From Coq Require Import List String Bool ZArith QArith.
From SFC.Base Require Import Res Expr.
From SFC.Reduce Require Import Reduce.
Import ListNotations.

Definition q_eqb (a b : Q) : bool := Z.eqb (Qnum a) (Qnum b) && Pos.eqb (Qden a) (Qden b).

Definition fn1_eqb (a b : fn1) : bool :=
  match a, b with Fabs, Fabs | Fsqrt, Fsqrt | Ffloat, Ffloat => true | _, _ => false end.
Definition fn2_eqb (a b : fn2) : bool :=
  match a, b with Fmax, Fmax | Fmin, Fmin => true | _, _ => false end.

(** Structural equality of trees; numbers by exact value (both sides are emitted in lowest terms). *)
Fixpoint expr_eqb (a b : expr Q) : bool :=
  match a, b with
  | ENum x, ENum y => q_eqb x y
  | EVar x, EVar y => String.eqb x y
  | ENeg x, ENeg y | EPos x, EPos y => expr_eqb x y
  | EAdd x1 x2, EAdd y1 y2 | ESub x1 x2, ESub y1 y2
  | EMul x1 x2, EMul y1 y2 | EDiv x1 x2, EDiv y1 y2 => expr_eqb x1 y1 && expr_eqb x2 y2
  | ECall1 f x, ECall1 g y => fn1_eqb f g && expr_eqb x y
  | ECall2 f x1 x2, ECall2 g y1 y2 => fn2_eqb f g && expr_eqb x1 y1 && expr_eqb x2 y2
  | _, _ => false
  end.

Definition pair_eqb (p q : string * expr Q) : bool :=
  String.eqb (fst p) (fst q) && expr_eqb (snd p) (snd q).

Fixpoint list_eqb {A} (eqb : A -> A -> bool) (a b : list A) : bool :=
  match a, b with
  | [], [] => true
  | x :: a', y :: b' => eqb x y && list_eqb eqb a' b'
  | _, _ => false
  end.

(** remove the first element equal to [x]; [None] when there is none *)
Fixpoint remove1 {A} (eqb : A -> A -> bool) (x : A) (l : list A) : option (list A) :=
  match l with
  | [] => None
  | y :: r => if eqb x y then Some r
              else match remove1 eqb x r with Some r' => Some (y :: r') | None => None end
  end.

(** equality as multisets: the order of [Endogenous] / [Decoration] does not influence any solution
    value (the sweep reads the previous iterate only; the decorative pass retries), so a
    reordering of the implementation's lists is not a disagreement *)
Fixpoint perm_eqb {A} (eqb : A -> A -> bool) (a b : list A) : bool :=
  match a with
  | [] => match b with [] => true | _ => false end
  | x :: a' => match remove1 eqb x b with Some b' => perm_eqb eqb a' b' | None => false end
  end.

Definition str_pair_eqb (p q : string * string) : bool :=
  String.eqb (fst p) (fst q) && String.eqb (snd p) (snd q).

Definition c03_expected : Type :=
  list (string * expr Q) * list (string * expr Q) * list (string * string) * list string * list string.

(** One run of [EquationReduction]: the model's outcome against the implementation's. *)
Definition c03_case (P : prog) (expected : result c03_expected) : bool :=
  match reduce P, expected with
  | Ok P', Ok (en, de, lg, ex, ic) =>
      perm_eqb pair_eqb (endo P') en && perm_eqb pair_eqb (deco P') de &&
      perm_eqb str_pair_eqb (lagged P') lg && perm_eqb String.eqb (exo P') ex &&
      perm_eqb String.eqb (map fst (ics P')) ic
  | Err e, Err f => err_eqb e f
  | _, _ => false
  end.

(** same against the code before the D03 fix (used by the harness only to describe a disagreement) *)
Definition c03_case_orig (P : prog) (expected : result c03_expected) : bool :=
  match reduce_orig P, expected with
  | Ok P', Ok (en, de, lg, ex, ic) =>
      perm_eqb pair_eqb (endo P') en && perm_eqb pair_eqb (deco P') de
  | Err e, Err f => err_eqb e f
  | _, _ => false
  end.
