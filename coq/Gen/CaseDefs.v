(** Case functions evaluated by the generated correspondence/validation files of the
    generator-family properties. *)
From Coq Require Import List String Bool ZArith QArith.
From SFC.Base Require Import Res Str Expr.
From SFC.Gen Require Import Poly Expand Checker.
Import ListNotations.

(** every target expression is implied to be zero by the emitted system (ages 0..1) *)
Definition zero_case (E : sys) (cut nz : list string) (fuel : nat) (targets : list (expr Q)) : bool :=
  forallb (check_zero E cut nz 1%nat fuel) targets.

Definition zero_cert_case (E : sys) (cut nz : list string) (fuel : nat)
           (targets : list (list (expr Q * string) * expr Q)) : bool :=
  forallb (fun ct => check_zero_cert E cut nz 1%nat fuel (fst ct) (snd ct)) targets.

(** which of the targets fail (for diagnostics / replays) *)
Fixpoint failing (i : nat) (E : sys) (cut nz : list string) (fuel : nat) (targets : list (expr Q)) : list nat :=
  match targets with
  | [] => []
  | t :: r => (if check_zero E cut nz 1%nat fuel t then [] else [i]) ++ failing (S i) E cut nz fuel r
  end.

Definition equiv_case (E1 E2 : sys) : bool := check_equiv E1 E2.
Definition rename_equiv_case (m : list (string * string)) (E1 E2 : sys) : bool :=
  check_equiv (rename_sys (assoc_map m) E1) E2.
Definition closed_case (allowed : list string) (E : sys) : bool := check_closed allowed E.
