(** Case functions evaluated by the generated correspondence/validation files of the
    generator-family properties. *)
From Coq Require Import List String Bool ZArith QArith.
From SFC.Base Require Import Res Str Expr.
From SFC.Gen Require Import Poly Expand Checker.
Import ListNotations.

(** every target expression is implied to be zero by the emitted system (ages 0..1) *)
Definition zero_case (E : sys) (cut nz : list string) (fuel : nat) (targets : list (expr Q)) : bool :=
  forallb (check_zero E cut nz 1%nat fuel) targets.

Definition zero_cert_case (E : sys) (cut nz : list string) (fuel : nat)
           (targets : list (list (expr Q * string) * expr Q)) : bool :=
  forallb (fun ct => check_zero_cert E cut nz 1%nat fuel (fst ct) (snd ct)) targets.

(** which of the targets fail (for diagnostics / replays) *)
Fixpoint failing (i : nat) (E : sys) (cut nz : list string) (fuel : nat) (targets : list (expr Q)) : list nat :=
  match targets with
  | [] => []
  | t :: r => (if check_zero E cut nz 1%nat fuel t then [] else [i]) ++ failing (S i) E cut nz fuel r
  end.

Definition equiv_case (E1 E2 : sys) : bool := check_equiv E1 E2.
Definition rename_equiv_case (m : list (string * string)) (E1 E2 : sys) : bool :=
  check_equiv (rename_sys (assoc_map m) E1) E2.
Definition closed_case (allowed : list string) (E : sys) : bool := check_closed allowed E.

(* ---- C07: the FX bookkeeping model against the implementation's NET_<currency> term lists ---- *)
From SFC.Gen Require Import Fx.

Fixpoint zs_eqb (a b : list (Z * string)) : bool :=
  match a, b with
  | [], [] => true
  | (c, s) :: a', (d, t) :: b' => Z.eqb c d && String.eqb s t && zs_eqb a' b'
  | _, _ => false
  end.

Definition term_text (t : term) : Z * string := (fst t, String.concat "*" (snd t)).

Fixpoint ledger_lookup (c : string) (L : ledger) : list term :=
  match L with [] => [] | (d, ts) :: r => if String.eqb c d then ts else ledger_lookup c r end.

(** expected: for every registered currency the (coefficient, text) list of NET_<currency> *)
Definition fx_case (ops : list fxop) (expected : list (string * list (Z * string))) : bool :=
  let L := fx_run ops in
  forallb (fun ce => zs_eqb (map term_text (ledger_lookup (fst ce) L)) (snd ce)) expected.

(* ---- C09: identities that may need the residual of a cut equation as certificate ---- *)
Definition zero_anycert_case (E : sys) (cut nz : list string) (fuel : nat)
           (targets : list (list (list (expr Q * string)) * expr Q)) : bool :=
  forallb (fun ct => existsb (fun cert => check_zero_cert E cut nz 1%nat fuel cert (snd ct)) (fst ct)) targets.

(* ---- C01 (booking level): registered cash flows against the implementation's F / NET term lists ---- *)
From SFC.Gen Require Import Flows.
Definition flows_case (ops : list flowop) (expected : list (string * list (Z * string))) : bool :=
  let L := flow_run ops in
  forallb (fun ce => zs_eqb (map term_text (ledger_lookup (fst ce) L)) (snd ce)) expected.
