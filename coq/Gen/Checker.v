(** Verified checkers that run on the implementation's emitted equation system.
    Each [check_* … = true] implies a statement for EVERY history of values that
    satisfies the emitted system (soundness theorems below).  The checkers take hints
    (cut set, non-zero set, certificate multipliers) from the untrusted harness; hints
    can make a checker say "false" on a true identity but never "true" on a false one. *)
From Coq Require Import List String Ascii Bool ZArith QArith Reals Qreals Lia Lra.
From SFC.Base Require Import Str Expr.
From SFC.Gen Require Import Poly Expand.
Import ListNotations.
Local Open Scope R_scope.

(* ------------------------------------------------------------------ *)
(** * Identities implied by the system *)

Definition check_zero (E : sys) (cut nz : list string) (maxage fuel : nat) (target : expr Q) : bool :=
  match expand E cut nz maxage fuel target with Some p => pzero p | None => false end.

Definition nonzero (w : string -> nat -> R) (nz : list string) : Prop :=
  forall x i, List.In x nz -> w x i <> 0.

Theorem check_zero_sound E cut nz maxage fuel target :
  check_zero E cut nz maxage fuel target = true ->
  forall w, sat w maxage E -> nonzero w nz -> evalR Q2R (env_at w 0) target = 0.
Proof.
  unfold check_zero. intros H w Hsat Hnz.
  destruct (expand E cut nz maxage fuel target) as [p|] eqn:Hp; [|discriminate].
  rewrite <- (expand_sound E cut nz maxage w Hnz Hsat fuel target p Hp). now apply pzero_sound.
Qed.

(** With a certificate: the target minus multiples of residuals [b - rhs_b] of equations of
    the system (the multipliers and the equations are chosen by the harness). *)
Fixpoint with_cert (E : sys) (cert : list (expr Q * string)) (target : expr Q) : option (expr Q) :=
  match cert with
  | [] => Some target
  | (mult, b) :: r =>
      match lookup b E, with_cert E r target with
      | Some (KDef rhs), Some t => Some (ESub t (EMul mult (ESub (EVar b) rhs)))
      | _, _ => None
      end
  end.

Lemma with_cert_sound E w maxage : sat w maxage E ->
  forall cert target t, with_cert E cert target = Some t ->
  evalR Q2R (env_at w 0) t = evalR Q2R (env_at w 0) target.
Proof.
  intros Hsat. induction cert as [|[mult b] r IH]; simpl; intros target t H.
  - now injection H as <-.
  - destruct (lookup b E) as [[rhs|?|?]|] eqn:Hl; try discriminate.
    destruct (with_cert E r target) as [t'|] eqn:Ht; [|discriminate]. injection H as <-.
    cbn [evalR]. rewrite (IH _ _ Ht).
    apply lookup_In in Hl. unfold sat in Hsat. rewrite Forall_forall in Hsat.
    specialize (Hsat _ Hl). unfold sat_eq in Hsat. simpl in Hsat.
    specialize (Hsat 0%nat (Nat.le_0_l _)). unfold env_at at 3. rewrite Hsat. ring.
Qed.

Definition check_zero_cert (E : sys) (cut nz : list string) (maxage fuel : nat)
           (cert : list (expr Q * string)) (target : expr Q) : bool :=
  match with_cert E cert target with
  | Some t => check_zero E cut nz maxage fuel t
  | None => false
  end.

Theorem check_zero_cert_sound E cut nz maxage fuel cert target :
  check_zero_cert E cut nz maxage fuel cert target = true ->
  forall w, sat w maxage E -> nonzero w nz -> evalR Q2R (env_at w 0) target = 0.
Proof.
  unfold check_zero_cert. intros H w Hsat Hnz.
  destruct (with_cert E cert target) as [t|] eqn:Ht; [|discriminate].
  rewrite <- (with_cert_sound E w maxage Hsat cert target t Ht).
  eapply check_zero_sound; eauto.
Qed.

(* ------------------------------------------------------------------ *)
(** * Equality of expressions and equivalence of systems *)

Fixpoint expr_eqb (a b : expr Q) : bool :=
  match a, b with
  | ENum c, ENum d => Qeq_bool c d
  | EVar x, EVar y => String.eqb x y
  | ENeg a1, ENeg b1 | EPos a1, EPos b1 => expr_eqb a1 b1
  | EAdd a1 a2, EAdd b1 b2 | ESub a1 a2, ESub b1 b2 | EMul a1 a2, EMul b1 b2 | EDiv a1 a2, EDiv b1 b2 =>
      expr_eqb a1 b1 && expr_eqb a2 b2
  | ECall1 f a1, ECall1 g b1 =>
      match f, g with Fabs, Fabs | Fsqrt, Fsqrt | Ffloat, Ffloat => expr_eqb a1 b1 | _, _ => false end
  | ECall2 f a1 a2, ECall2 g b1 b2 =>
      match f, g with Fmax, Fmax | Fmin, Fmin => expr_eqb a1 b1 && expr_eqb a2 b2 | _, _ => false end
  | _, _ => false
  end.

Lemma expr_eqb_sound a : forall b, expr_eqb a b = true -> forall env, evalR Q2R env a = evalR Q2R env b.
Proof.
  induction a; intros b H env; destruct b; simpl in H; try discriminate; cbn [evalR].
  - apply Qeq_eqR. now apply Qeq_bool_eq.
  - apply String.eqb_eq in H. now subst.
  - now rewrite (IHa _ H).
  - auto.
  - apply andb_true_iff in H as [H1 H2]. now rewrite (IHa1 _ H1), (IHa2 _ H2).
  - apply andb_true_iff in H as [H1 H2]. now rewrite (IHa1 _ H1), (IHa2 _ H2).
  - apply andb_true_iff in H as [H1 H2]. now rewrite (IHa1 _ H1), (IHa2 _ H2).
  - apply andb_true_iff in H as [H1 H2]. now rewrite (IHa1 _ H1), (IHa2 _ H2).
  - destruct f, f0; try discriminate; now rewrite (IHa _ H).
  - destruct f, f0; try discriminate; apply andb_true_iff in H as [H1 H2]; now rewrite (IHa1 _ H1), (IHa2 _ H2).
Qed.

(** Two right-hand sides denote the same function of the variables: syntactically equal, or
    equal as polynomials (no substitution at all: every variable is an atom). *)
Definition rhs_equiv (a b : expr Q) : bool :=
  expr_eqb a b ||
  match exp_e [] atom_poly 0%nat (ESub a b) with Some p => pzero p | None => false end.

Lemma rhs_equiv_sound a b : rhs_equiv a b = true -> forall env, evalR Q2R env a = evalR Q2R env b.
Proof.
  unfold rhs_equiv. intros H env. apply orb_true_iff in H as [H|H]; [now apply expr_eqb_sound|].
  destruct (exp_e [] atom_poly 0%nat (ESub a b)) as [p|] eqn:Hp; [|discriminate].
  pose (w := fun (x : string) (_ : nat) => env x).
  assert (Hnz : forall x i, List.In x [] -> w x i <> 0) by (intros ? ? []).
  pose proof (exp_e_sound [] w Hnz atom_poly 0%nat (fun x => atom_poly_sound w x 0%nat) (ESub a b) p Hp) as Hs.
  rewrite (pzero_sound w p H) in Hs. cbn [evalR] in Hs.
  change (env_at w 0) with env in Hs. lra.
Qed.

Definition kind_equiv (k1 k2 : kind) : bool :=
  match k1, k2 with
  | KDef a, KDef b => rhs_equiv a b
  | KLag s1, KLag s2 => String.eqb s1 s2
  | KExo t1, KExo t2 => String.eqb t1 t2
  | _, _ => false
  end.

Fixpoint nodupb (l : list string) : bool :=
  match l with [] => true | x :: r => negb (mem x r) && nodupb r end.

Lemma nodupb_NoDup l : nodupb l = true -> NoDup l.
Proof.
  induction l as [|x r IH]; simpl; intros H; [constructor|].
  apply andb_true_iff in H as [H1 H2]. constructor; [|auto].
  intros Hin. apply (proj2 (mem_In _ _)) in Hin. rewrite Hin in H1. discriminate.
Qed.

Definition sub_equiv (E1 E2 : sys) : bool :=
  forallb (fun xk => match lookup (fst xk) E2 with Some k2 => kind_equiv (snd xk) k2 | None => false end) E1.

(** Same variables, each with an equivalent definition (in any order). *)
Definition check_equiv (E1 E2 : sys) : bool :=
  nodupb (map fst E1) && nodupb (map fst E2) && sub_equiv E1 E2 && sub_equiv E2 E1.

Lemma kind_equiv_sat w n x k1 k2 : kind_equiv k1 k2 = true -> sat_eq w n (x, k1) -> sat_eq w n (x, k2).
Proof.
  destruct k1, k2; simpl; try discriminate; unfold sat_eq; simpl; intros H Hs.
  - intros age Ha. rewrite (Hs age Ha). now apply rhs_equiv_sound.
  - apply String.eqb_eq in H. now subst.
  - exact I.
Qed.

Lemma sub_equiv_sat E1 E2 w n : sub_equiv E1 E2 = true -> sat w n E2 -> sat w n E1.
Proof.
  unfold sub_equiv, sat. rewrite forallb_forall, !Forall_forall. intros H Hs [x k1] Hin.
  specialize (H _ Hin). simpl in H.
  destruct (lookup x E2) as [k2|] eqn:Hl; [|discriminate].
  apply lookup_In in Hl. specialize (Hs _ Hl).
  (* kind_equiv is used right-to-left: from E2's equation to E1's *)
  destruct k1, k2; simpl in H; try discriminate; unfold sat_eq in *; simpl in *.
  - intros age Ha. rewrite (Hs age Ha). symmetry. now apply rhs_equiv_sound.
  - apply String.eqb_eq in H. now subst.
  - exact I.
Qed.

Theorem check_equiv_sound E1 E2 :
  check_equiv E1 E2 = true -> forall w n, sat w n E1 <-> sat w n E2.
Proof.
  unfold check_equiv. intros H w n.
  apply andb_true_iff in H as [H H4]. apply andb_true_iff in H as [H H3]. clear H.
  split; intros Hs; eapply sub_equiv_sat; eauto.
Qed.

(* ------------------------------------------------------------------ *)
(** * Renaming *)

Definition rename_kind (m : string -> string) (k : kind) : kind :=
  match k with
  | KDef e => KDef (rename m e)
  | KLag s => KLag (m s)
  | KExo t => KExo t
  end.

Definition rename_sys (m : string -> string) (E : sys) : sys :=
  map (fun xk => (m (fst xk), rename_kind m (snd xk))) E.


Lemma sat_eq_rename m w n xk :
  sat_eq w n (m (fst xk), rename_kind m (snd xk)) <-> sat_eq (fun x => w (m x)) n xk.
Proof.
  destruct xk as [x [e|s|t]]; unfold sat_eq; simpl; try tauto.
  split; intros H age Ha; specialize (H age Ha).
  - rewrite H. unfold env_at. now rewrite evalR_rename.
  - rewrite H. unfold env_at. now rewrite evalR_rename.
Qed.

(** A history satisfies the renamed system iff its pull-back along the renaming satisfies the
    original: names are labels. *)
Theorem sat_rename m E w n : sat w n (rename_sys m E) <-> sat (fun x => w (m x)) n E.
Proof.
  unfold sat, rename_sys. induction E as [|xk r IH]; simpl; [split; constructor|].
  split; intros H; inversion H as [|? ? H1 H2]; subst; constructor;
    try (now apply sat_eq_rename); now apply IH.
Qed.

Fixpoint assoc_map (l : list (string * string)) (x : string) : string :=
  match l with
  | [] => x
  | (a, b) :: r => if String.eqb x a then b else assoc_map r x
  end.

(* ------------------------------------------------------------------ *)
(** * Closedness (C05) *)

Definition is_digit (c : ascii) : bool := let n := nat_of_ascii c in (48 <=? n)%nat && (n <=? 57)%nat.

Fixpoint skip_digits (s : string) : nat * string :=
  match s with
  | String c r => if is_digit c then let '(n, t) := skip_digits r in (S n, t) else (0%nat, s)
  | EmptyString => (0%nat, s)
  end.

(** placeholder names are spelled [_<digits>__<name>] *)
Definition is_placeholder (s : string) : bool :=
  match s with
  | String "_"%char r => let '(n, t) := skip_digits r in (1 <=? n)%nat && String.prefix "__" t
  | _ => false
  end.

Definition kind_names (k : kind) : list string :=
  match k with KDef e => names e | KLag s => [s] | KExo _ => [] end.

Definition closed (allowed : list string) (E : sys) : bool :=
  let defined := map fst E in
  forallb (fun xk => forallb (fun n => mem n defined || mem n allowed) (kind_names (snd xk))) E.

Definition no_placeholder (E : sys) : bool :=
  forallb (fun xk => negb (is_placeholder (fst xk)) && forallb (fun n => negb (is_placeholder n)) (kind_names (snd xk))) E.

Definition check_closed (allowed : list string) (E : sys) : bool :=
  nodupb (map fst E) && closed allowed E && no_placeholder E.

Theorem check_closed_sound allowed E : check_closed allowed E = true ->
  NoDup (map fst E) /\
  (forall x k n, List.In (x, k) E -> List.In n (kind_names k) -> List.In n (map fst E) \/ List.In n allowed) /\
  (forall x k, List.In (x, k) E -> is_placeholder x = false /\ forall n, List.In n (kind_names k) -> is_placeholder n = false).
Proof.
  unfold check_closed. intros H. apply andb_true_iff in H as [H H3]. apply andb_true_iff in H as [H1 H2].
  split; [now apply nodupb_NoDup|]. split.
  - unfold closed in H2. rewrite forallb_forall in H2. intros x k n Hin Hn.
    specialize (H2 _ Hin). simpl in H2. rewrite forallb_forall in H2. specialize (H2 _ Hn).
    apply orb_true_iff in H2 as [Hm|Hm]; [left|right]; now apply mem_In.
  - unfold no_placeholder in H3. rewrite forallb_forall in H3. intros x k Hin.
    specialize (H3 _ Hin). simpl in H3. apply andb_true_iff in H3 as [Ha Hb].
    split; [now apply negb_true_iff|]. rewrite forallb_forall in Hb. intros n Hn.
    now apply negb_true_iff, Hb.
Qed.

(** Final (qualified) right-hand side is the sector-local one with local names replaced by
    their full names: same meaning under the correspondingly qualified environment. *)
Definition same_meaning (m : list (string * string)) (local final : expr Q) : bool :=
  expr_eqb (rename (assoc_map m) local) final.

Theorem same_meaning_sound m local final : same_meaning m local final = true ->
  forall env, evalR Q2R env final = evalR Q2R (fun x => env (assoc_map m x)) local.
Proof.
  unfold same_meaning. intros H env. rewrite <- (expr_eqb_sound _ _ H env). apply evalR_rename.
Qed.
