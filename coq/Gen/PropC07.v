(** C07 — cross-currency flows conserve value at the prevailing exchange rates.
    (a) For ALL sequences of send/receive bookings, the model of ForexTransations (Fx.v, tied to
        external.py by the correspondence on random operation sequences) keeps the intermediary's
        net transactions, valued in the numeraire, at zero; a paired flow leaves the numeraire
        position unchanged; the receiver is credited amount * (sender's rate / receiver's rate).
    (b) For every emitted system the kernel-evaluated checker accepts (run on every generated
        multi-currency program: registered cross-zone flows, cross-zone suppliers, gold purchases,
        time-varying non-unit rates), the valued sum is zero for every history satisfying it. *)
From Coq Require Import List String Bool ZArith QArith Reals Qreals Lra.
From SFC.Base Require Import Str Expr.
From SFC.Gen Require Import Poly Expand Checker CaseDefs Fx.
Import ListNotations.
Local Open Scope R_scope.

Theorem C07_valued_zero : forall (v : string -> R) (ops : list fxop),
  rates_ok v ops -> valued v (fx_run ops) = 0.
Proof. exact fx_valued_zero. Qed.
Print Assumptions C07_valued_zero.

Theorem C07_numeraire_unchanged_by_pair : forall (v : string -> R) (L : ledger) (src tgt x : string),
  src <> NUM -> tgt <> NUM ->
  num_sum v (fx_step (fx_step L (Send src x)) (Receive src tgt x)) = num_sum v L.
Proof. exact fx_pair_numeraire. Qed.
Print Assumptions C07_numeraire_unchanged_by_pair.

Theorem C07_credit : forall (v : string -> R) (src tgt x : string),
  v (cross_name src tgt) = v (xr_name src) / v (xr_name tgt) ->
  tval v (credited src tgt x) = v x * (v (xr_name src) / v (xr_name tgt)).
Proof. exact fx_credit. Qed.
Print Assumptions C07_credit.

Theorem C07_emitted_certificate :
  forall (E : sys) (cut nz : list string) (fuel : nat) (targets : list (expr Q)),
    zero_case E cut nz fuel targets = true ->
    forall w : string -> nat -> R, sat w 1%nat E -> nonzero w nz ->
    forall t, List.In t targets -> evalR Q2R (env_at w 0) t = 0.
Proof.
  unfold zero_case. intros E cut nz fuel targets H w Hsat Hnz t Hin.
  rewrite forallb_forall in H. eapply check_zero_sound; eauto.
Qed.
Print Assumptions C07_emitted_certificate.

(** Non-vacuity: a gift of G from a CAD sector to a USD sector, then one the other way. *)
Local Open Scope string_scope.
Example C07_example_ledger :
  map (fun ce => (fst ce, map term_text (snd ce)))
      (fx_run [Send "CAD" "G"; Receive "CAD" "USD" "G"; Send "USD" "H"; Receive "USD" "CAD" "H"]) =
  [ ("CAD", [(1%Z, "G"); ((-1)%Z, "H*EXT_XR__USD_CAD")]);
    ("NUMERAIRE", [(0%Z, "G*EXT_XR__CAD"); (0%Z, "H*EXT_XR__USD")]);
    ("USD", [((-1)%Z, "G*EXT_XR__CAD_USD"); (1%Z, "H")]) ].
Proof. vm_compute. reflexivity. Qed.
Print Assumptions C07_example_ledger.

Example C07_rates_ok_satisfiable :
  rates_ok (fun x => if String.eqb x "EXT_XR__CAD" then 4/5 else if String.eqb x "EXT_XR__USD" then 1
                     else if String.eqb x "EXT_XR__CAD_USD" then 4/5 else 7)
           [Send "CAD" "G"; Receive "CAD" "USD" "G"].
Proof.
  unfold rates_ok. repeat constructor; simpl; try discriminate; try lra.
Qed.
Print Assumptions C07_rates_ok_satisfiable.

(** An inverted cross rate is caught by the emitted-system checker. *)
Example C07_inverted_rate_rejected :
  zero_case
    [ ("EXT_FX__NET_CAD", KDef (EVar "A__G"));
      ("EXT_FX__NET_USD", KDef (ENeg (EMul (EVar "A__G") (EVar "EXT_XR__USD_CAD"))));
      ("EXT_XR__USD_CAD", KDef (EDiv (EVar "EXT_XR__USD") (EVar "EXT_XR__CAD")));
      ("EXT_XR__CAD", KExo "c"); ("EXT_XR__USD", KExo "u"); ("A__G", KExo "g") ]
    [] ["EXT_XR__CAD"; "EXT_XR__USD"] 20%nat
    [ EAdd (EMul (EVar "EXT_FX__NET_CAD") (EVar "EXT_XR__CAD")) (EMul (EVar "EXT_FX__NET_USD") (EVar "EXT_XR__USD")) ] = false.
Proof. vm_compute. reflexivity. Qed.
Print Assumptions C07_inverted_rate_rejected.
