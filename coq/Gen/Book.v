(** The Godley-Lavoie difference equations of models SIM, SIMEX1 and PC (gl_book/chapter3.py,
    chapter4.py), their closed forms, the '%0.4f' parameter formatting of the sector classes, and
    the stop test of the hand-coded iterative SIM (gl_book/model_SIM_iterative.py). *)
From Coq Require Import Reals Lra ZArith QArith Qround Lia.
Local Open Scope R_scope.

(** ** SIM: the period's equations determine the closed form (for any parameters with
    1 - a1*(1-th) <> 0, any G and any inherited stock H1). *)
Theorem SIM_closed_form (a1 a2 th G H1 Y T YD C H : R) :
  1 - a1 * (1 - th) <> 0 ->
  Y = C + G -> T = th * Y -> YD = Y - T -> C = a1 * YD + a2 * H1 -> H = H1 + YD - C ->
  Y = (G + a2 * H1) / (1 - a1 * (1 - th)) /\ T = th * Y /\ YD = (1 - th) * Y /\
  C = Y - G /\ H = H1 + (1 - th) * Y - (Y - G).
Proof.
  intros Hd HY HT HYD HC HH.
  assert (EY : Y = (G + a2 * H1) / (1 - a1 * (1 - th))).
  { apply (Rmult_eq_reg_r (1 - a1 * (1 - th))); [|exact Hd].
    replace ((G + a2 * H1) / (1 - a1 * (1 - th)) * (1 - a1 * (1 - th))) with (G + a2 * H1) by (field; exact Hd).
    rewrite HC, HYD, HT in HY. lra. }
  repeat split; try assumption; try (rewrite HYD, HT; lra); try lra.
Qed.

(** ** SIMEX1: consumption out of expected (= last period's) disposable income. *)
Theorem SIMEX1_closed_form (a1 a2 th G H1 YD1 Y T YD C H : R) :
  Y = C + G -> T = th * Y -> YD = Y - T -> C = a1 * YD1 + a2 * H1 -> H = H1 + YD - C ->
  C = a1 * YD1 + a2 * H1 /\ Y = a1 * YD1 + a2 * H1 + G /\ T = th * Y /\ YD = (1 - th) * Y /\
  H = H1 + (1 - th) * Y - (a1 * YD1 + a2 * H1).
Proof. intros. repeat split; subst; lra. Qed.

(** ** PC: portfolio choice between bills and money; interest on last period's bills at last
    period's rate is taxed income. *)
Theorem PC_closed_form (a1 a2 th l0 l1 l2 G r r1 V1 B1 Y T YD C V B Hm : R) :
  1 - a1 * (1 - th) <> 0 -> V <> 0 ->
  Y = C + G -> T = th * (Y + r1 * B1) -> YD = Y - T + r1 * B1 -> C = a1 * YD + a2 * V1 ->
  V = V1 + YD - C -> B = V * (l0 + l1 * r - l2 * (YD / V)) -> Hm = V - B ->
  Y = (G + a2 * V1 + a1 * (1 - th) * r1 * B1) / (1 - a1 * (1 - th)) /\
  YD = (1 - th) * (Y + r1 * B1) /\ B = V * (l0 + l1 * r) - l2 * YD /\ B + Hm = V.
Proof.
  intros Hd HV HY HT HYD HC HVV HB HH. repeat split.
  - apply (Rmult_eq_reg_r (1 - a1 * (1 - th))); [|exact Hd].
    replace ((G + a2 * V1 + a1 * (1 - th) * r1 * B1) / (1 - a1 * (1 - th)) * (1 - a1 * (1 - th)))
      with (G + a2 * V1 + a1 * (1 - th) * r1 * B1) by (field; exact Hd).
    rewrite HC, HYD, HT in HY. lra.
  - rewrite HYD, HT. lra.
  - rewrite HB. field. exact HV.
  - rewrite HH. lra.
Qed.

(** ** The hand-coded iterative SIM: Y <- a1*(1-th)*Y + a2*H1 + G until two successive values
    differ by at most eps; it reports the *previous* iterate.  Whenever the loop exits, the
    reported Y is within eps/(1-q) of the closed form. *)
Theorem SIM_iterative_exit_bound (a1 a2 th G H1 Y eps : R) :
  let q := a1 * (1 - th) in
  q < 1 -> Rabs ((q * Y + a2 * H1 + G) - Y) <= eps ->
  Rabs (Y - (G + a2 * H1) / (1 - q)) <= eps / (1 - q).
Proof.
  intros q Hq Hexit.
  assert (Hpos : 0 < 1 - q) by lra.
  replace (Y - (G + a2 * H1) / (1 - q)) with ((Y - (q * Y + a2 * H1 + G)) / (1 - q)) by (field; lra).
  unfold Rdiv at 1. rewrite Rabs_mult, (Rabs_right (/ (1 - q))).
  - unfold Rdiv. apply Rmult_le_compat_r; [left; now apply Rinv_0_lt_compat|].
    rewrite Rabs_minus_sym. exact Hexit.
  - left. now apply Rinv_0_lt_compat.
Qed.

(** ** '%0.4f' % x: round the exact value to 4 decimals, half to even.  A parameter is emitted
    unchanged iff it has at most 4 decimals. *)
Local Open Scope Q_scope.
Definition round_half_even (q : Q) : Z :=
  let f := Qfloor q in
  let d := q - inject_Z f in
  match Qcompare d (1 # 2) with
  | Lt => f
  | Gt => (f + 1)%Z
  | Eq => if Z.even f then f else (f + 1)%Z
  end.

Definition fmt4 (q : Q) : Q := inject_Z (round_half_even (q * 10000)) / 10000.
Definition fmt3 (q : Q) : Q := inject_Z (round_half_even (q * 1000)) / 1000.

Lemma round_half_even_of_int (x : Q) (z : Z) : x == inject_Z z -> round_half_even x = z.
Proof.
  intros Hx. unfold round_half_even.
  assert (Ef : Qfloor x = z) by (rewrite (Qfloor_comp _ _ Hx); apply Qfloor_Z).
  rewrite Ef.
  assert (C : Qcompare (x - inject_Z z) (1 # 2) = Lt).
  { apply Qlt_alt. setoid_replace (x - inject_Z z) with 0 by (rewrite Hx; ring). reflexivity. }
  now rewrite C.
Qed.

Theorem fmt4_exact_iff (q : Q) : fmt4 q == q <-> exists z : Z, q * 10000 == inject_Z z.
Proof.
  unfold fmt4. split.
  - intros H. remember (round_half_even (q * 10000)) as z eqn:Ez. exists z. rewrite <- H. field.
  - intros [z Hz]. rewrite (round_half_even_of_int _ _ Hz), <- Hz. field.
Qed.

(** the documented example: 0.61234567 is emitted as 0.6123 *)
Example fmt4_rounds : fmt4 (61234567 # 100000000) == 6123 # 10000.
Proof. vm_compute. reflexivity. Qed.
