(** C01 — every generated model is stock-flow consistent in each currency.
    What is proved here: soundness of the balance certificate.  For ANY emitted system [E]
    (the harness feeds the system the implementation really emitted for each generated
    program), if the kernel-evaluated checker accepts the zone's balance expression then for
    EVERY history of values that satisfies [E] in the current and the previous period
    (maxage 1: "periods whose lagged inputs are themselves model-consistent"), with non-zero
    exchange rates, the changes in financial assets of the zone's sectors plus the
    FX intermediary's net position in that currency sum to exactly zero.  The quantifier over
    parameter values, exogenous paths and periods is covered by the theorem; the quantifier
    over model topologies is covered per generated program (see DESIGN.md section 6, C01). *)
From Coq Require Import List String Bool ZArith QArith Reals Qreals Lra Lia.
From SFC.Base Require Import Str Expr.
From SFC.Gen Require Import Poly Expand Checker CaseDefs Fx Flows.
Import ListNotations.
Local Open Scope R_scope.
Local Open Scope string_scope.

(** Σ_s (F_s - LAG_F_s) + NET, as the expression the harness submits. *)
Fixpoint balance_expr (fs : list (string * string)) (net : option string) : expr Q :=
  match fs with
  | [] => match net with Some n => EVar n | None => ENum 0%Q end
  | (f, lf) :: r => EAdd (ESub (EVar f) (EVar lf)) (balance_expr r net)
  end.

Fixpoint balance_sum (w : string -> nat -> R) (fs : list (string * string)) (net : option string) : R :=
  match fs with
  | [] => match net with Some n => w n 0%nat | None => 0 end
  | (f, lf) :: r => (w f 0%nat - w lf 0%nat) + balance_sum w r net
  end.

Lemma balance_expr_eval w fs net : evalR Q2R (env_at w 0) (balance_expr fs net) = balance_sum w fs net.
Proof.
  induction fs as [|[f lf] r IH]; simpl.
  - destruct net; simpl; [reflexivity|]. unfold Q2R. simpl. lra.
  - rewrite IH. reflexivity.
Qed.
Print Assumptions balance_expr_eval.

Theorem C01_balance_certificate :
  forall (E : sys) (cut nz : list string) (fuel : nat) (fs : list (string * string)) (net : option string),
    check_zero E cut nz 1%nat fuel (balance_expr fs net) = true ->
    forall w : string -> nat -> R, sat w 1%nat E -> nonzero w nz ->
      balance_sum w fs net = 0.
Proof.
  intros E cut nz fuel fs net H w Hsat Hnz. rewrite <- balance_expr_eval.
  eapply check_zero_sound; eauto.
Qed.
Print Assumptions C01_balance_certificate.

(** With the lag links of the system the sum is over F(k) - F(k-1). *)
Fixpoint balance_diff (w : string -> nat -> R) (fs : list (string * string)) (net : option string) : R :=
  match fs with
  | [] => match net with Some n => w n 0%nat | None => 0 end
  | (f, lf) :: r => (w f 0%nat - w f 1%nat) + balance_diff w r net
  end.

Theorem C01_balance_certificate_diff :
  forall (E : sys) (cut nz : list string) (fuel : nat) (fs : list (string * string)) (net : option string),
    Forall (fun p => List.In (snd p, KLag (fst p)) E) fs ->
    check_zero E cut nz 1%nat fuel (balance_expr fs net) = true ->
    forall w : string -> nat -> R, sat w 1%nat E -> nonzero w nz ->
      balance_diff w fs net = 0.
Proof.
  intros E cut nz fuel fs net Hlag H w Hsat Hnz.
  rewrite <- (C01_balance_certificate E cut nz fuel fs net H w Hsat Hnz).
  clear H. induction fs as [|[f lf] r IH]; simpl; [reflexivity|].
  inversion Hlag as [|? ? Hl Hr]; subst. rewrite (IH Hr). simpl in Hl.
  unfold sat in Hsat. rewrite Forall_forall in Hsat. specialize (Hsat _ Hl).
  unfold sat_eq in Hsat. simpl in Hsat. rewrite (Hsat 0%nat (le_S _ _ (le_n 0))). reflexivity.
Qed.
Print Assumptions C01_balance_certificate_diff.

(** Booking level, for ALL sequences of flow registrations (same-zone, cross-zone through the FX
    intermediary, gold purchases) and ALL valuations: the entries booked on the sectors of a real
    currency zone and on the intermediary's NET_<currency> cancel (model Flows.v of
    models.py:_GenerateRegisteredCashFlows / external.py, tied by correspondence on term lists). *)
Theorem C01_flows_conserve_money :
  forall (zone_of : string -> string) (v : string -> R) (ops : list flowop) (z : string),
    Forall (op_ok zone_of) ops -> z <> NUM -> zone_total zone_of v (flow_run ops) z = 0.
Proof. exact flows_conserve_money. Qed.
Print Assumptions C01_flows_conserve_money.

(** Non-vacuity: a two-sector economy with one paired flow and an interest payment on a stock
    whose previous-period consistency is part of the system; the checker accepts. *)
Definition ex_sys : sys :=
  [ ("A__F", KDef (EAdd (ESub (EVar "A__LAG_F") (EVar "A__PAY")) (EVar "A__INT")));
    ("B__F", KDef (ESub (EAdd (EVar "B__LAG_F") (EVar "A__PAY")) (EVar "B__INT")));
    ("A__LAG_F", KLag "A__F"); ("B__LAG_F", KLag "B__F");
    ("A__PAY", KDef (EMul (ENum (3 # 10)) (EVar "A__LAG_F")));
    ("A__INT", KDef (EMul (EVar "M__LAG_r") (EVar "A__LAG_DEM")));
    ("B__INT", KDef (EMul (EVar "M__LAG_r") (EVar "B__LAG_SUP")));
    ("A__LAG_DEM", KLag "A__DEM"); ("B__LAG_SUP", KLag "B__SUP");
    ("B__SUP", KDef (EVar "M__DEM")); ("M__DEM", KDef (EVar "A__DEM"));
    ("A__DEM", KDef (EMul (ENum (1 # 2)) (EVar "A__F")));
    ("M__LAG_r", KLag "M__r"); ("M__r", KExo "[0.02]*10") ].

Example C01_example_accepts :
  check_zero ex_sys ["A__LAG_F"; "B__LAG_F"] [] 1%nat 20%nat
    (balance_expr [("A__F", "A__LAG_F"); ("B__F", "B__LAG_F")] None) = true.
Proof. vm_compute. reflexivity. Qed.
Print Assumptions C01_example_accepts.

(** A one-sided booking (the dividend defect D01 in miniature: the receiver books 2*DIV while
    the payers pay DIV + DIV2) is rejected by the checker, and indeed a history satisfying the
    system has a non-zero balance. *)
Definition bad_sys : sys :=
  [ ("C__F", KDef (EAdd (EVar "C__LAG_F") (EMul (ENum 2%Q) (EVar "C__DIV"))));
    ("P__F", KDef (ESub (EVar "P__LAG_F") (EVar "P__PROF")));
    ("Q__F", KDef (ESub (EVar "Q__LAG_F") (EVar "Q__PROF")));
    ("C__DIV", KDef (EVar "P__PROF"));
    ("C__LAG_F", KLag "C__F"); ("P__LAG_F", KLag "P__F"); ("Q__LAG_F", KLag "Q__F");
    ("P__PROF", KExo "p"); ("Q__PROF", KExo "q") ].

Example C01_bad_rejected :
  check_zero bad_sys ["C__LAG_F"; "P__LAG_F"; "Q__LAG_F"] [] 1%nat 20%nat
    (balance_expr [("C__F", "C__LAG_F"); ("P__F", "P__LAG_F"); ("Q__F", "Q__LAG_F")] None) = false.
Proof. vm_compute. reflexivity. Qed.
Print Assumptions C01_bad_rejected.

Theorem C01_one_sided_booking_refuted :
  exists w : string -> nat -> R, sat w 1%nat bad_sys /\
    balance_sum w [("C__F", "C__LAG_F"); ("P__F", "P__LAG_F"); ("Q__F", "Q__LAG_F")] None <> 0.
Proof.
  (* all stocks 0 in the past; P earns 1, Q earns 3 in the current period only *)
  exists (fun x age =>
    if String.eqb x "P__PROF" then (if Nat.eqb age 0 then 1 else 0)
    else if String.eqb x "Q__PROF" then (if Nat.eqb age 0 then 3 else 0)
    else if String.eqb x "C__DIV" then (if Nat.eqb age 0 then 1 else 0)
    else if String.eqb x "C__F" then (if Nat.eqb age 0 then 2 else 0)
    else if String.eqb x "P__F" then (if Nat.eqb age 0 then -1 else 0)
    else if String.eqb x "Q__F" then (if Nat.eqb age 0 then -3 else 0)
    else 0).
  split.
  - unfold sat, bad_sys. repeat apply Forall_cons; try apply Forall_nil; unfold sat_eq; simpl; try exact I;
      intros age Hage; assert (Ha : age = 0%nat \/ age = 1%nat) by lia; destruct Ha as [-> | ->];
      simpl; unfold env_at; simpl; unfold Q2R; simpl; lra.
  - simpl. lra.
Qed.
Print Assumptions C01_one_sided_booking_refuted.
