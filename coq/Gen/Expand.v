(** Emitted equation systems, their satisfaction by a history of values, and the
    expansion of an expression into a Laurent polynomial by substituting definitions
    (never through a "cut" variable, through lag links into the previous period).
    [expand_sound]: the polynomial has the same value as the expression for every history
    that satisfies the system at ages 0..maxage. *)
From Coq Require Import List String Bool ZArith QArith Reals Qreals Lia Lra.
From SFC.Base Require Import Str Expr.
From SFC.Gen Require Import Poly.
Import ListNotations.
Local Open Scope R_scope.

Inductive kind :=
| KDef (e : expr Q)          (* simultaneous equation  x = e *)
| KLag (src : string)        (* x = src(k-1) *)
| KExo (spec : string).      (* exogenous: the text of its specification, value free *)

Definition sys := list (string * kind).

Fixpoint lookup (x : string) (E : sys) : option kind :=
  match E with
  | [] => None
  | (y, k) :: r => if String.eqb x y then Some k else lookup x r
  end.

Lemma lookup_In x E k : lookup x E = Some k -> List.In (x, k) E.
Proof.
  induction E as [|[y k'] r IH]; simpl; [discriminate|].
  destruct (String.eqb_spec x y) as [->|Hn]; intros H; [injection H as <-; now left|right; auto].
Qed.

Definition env_at (w : string -> nat -> R) (age : nat) : string -> R := fun y => w y age.

(** One equation holds along the history [w] at all ages up to [maxage]. *)
Definition sat_eq (w : string -> nat -> R) (maxage : nat) (xk : string * kind) : Prop :=
  match snd xk with
  | KDef e => forall age, (age <= maxage)%nat -> w (fst xk) age = evalR Q2R (env_at w age) e
  | KLag src => forall age, (age <= maxage)%nat -> w (fst xk) age = w src (S age)
  | KExo _ => True
  end.

Definition sat (w : string -> nat -> R) (maxage : nat) (E : sys) : Prop := Forall (sat_eq w maxage) E.

Section Expand.
Variable E : sys.
Variable cut : list string.      (* variables never expanded (kept as atoms) *)
Variable nz : list string.       (* variables assumed non-zero *)
Variable maxage : nat.

Definition atom_poly (x : string) (age : nat) : poly := [(1%Q, [((x, age), 1%Z)])].

Section ExpE.
Variable vp : string -> nat -> poly.

Fixpoint exp_e (age : nat) (e : expr Q) : option poly :=
  match e with
  | ENum c => Some [(c, [])]
  | EVar x => Some (vp x age)
  | ENeg a => option_map (pscale (-1)%Q) (exp_e age a)
  | EPos a => exp_e age a
  | EAdd a b =>
      match exp_e age a, exp_e age b with Some p, Some q => Some (padd p q) | _, _ => None end
  | ESub a b =>
      match exp_e age a, exp_e age b with Some p, Some q => Some (padd p (pscale (-1)%Q q)) | _, _ => None end
  | EMul a b =>
      match exp_e age a, exp_e age b with Some p, Some q => pmul nz p q | _, _ => None end
  | EDiv a b =>
      match exp_e age a, exp_e age b with
      | Some p, Some q => match pinv nz q with Some qi => pmul nz p qi | None => None end
      | _, _ => None
      end
  | ECall1 Ffloat a => exp_e age a
  | ECall1 _ _ => None
  | ECall2 _ _ _ => None
  end.
End ExpE.

Fixpoint var_poly (fuel : nat) (x : string) (age : nat) : poly :=
  match fuel with
  | O => atom_poly x age
  | S f =>
      if mem x cut then atom_poly x age
      else if negb (age <=? maxage)%nat then atom_poly x age
      else match lookup x E with
           | Some (KDef e) =>
               match exp_e (var_poly f) age e with Some p => p | None => atom_poly x age end
           | Some (KLag src) => var_poly f src (S age)
           | _ => atom_poly x age
           end
  end.

Definition expand (fuel : nat) (e : expr Q) : option poly := exp_e (var_poly fuel) 0%nat e.

Section Sound.
Variable w : string -> nat -> R.
Hypothesis nz_ok : forall x i, List.In x nz -> w x i <> 0.
Hypothesis Hsat : sat w maxage E.

Lemma atom_poly_sound x age : peval w (atom_poly x age) = w x age.
Proof. unfold atom_poly. simpl. unfold aval. simpl. unfold Q2R. simpl. field. Qed.

Lemma exp_e_sound vp age :
  (forall x, peval w (vp x age) = w x age) ->
  forall e p, exp_e vp age e = Some p -> peval w p = evalR Q2R (env_at w age) e.
Proof.
  intros Hvp. induction e as [c|x|a IH|a IH|a IHa b IHb|a IHa b IHb|a IHa b IHb|a IHa b IHb|f a IH|f a IHa b IHb];
    cbn [exp_e evalR]; intros p H.
  - injection H as <-. simpl. ring.
  - injection H as <-. apply Hvp.
  - destruct (exp_e vp age a) as [q|]; [|discriminate]. injection H as <-.
    rewrite pscale_sound, (IH q eq_refl). unfold Q2R. simpl. field.
  - auto.
  - destruct (exp_e vp age a) as [pa|]; [|discriminate]. destruct (exp_e vp age b) as [pb|]; [|discriminate].
    injection H as <-. rewrite padd_sound, (IHa _ eq_refl), (IHb _ eq_refl). reflexivity.
  - destruct (exp_e vp age a) as [pa|]; [|discriminate]. destruct (exp_e vp age b) as [pb|]; [|discriminate].
    injection H as <-. rewrite padd_sound, pscale_sound, (IHa _ eq_refl), (IHb _ eq_refl). unfold Q2R. simpl. field.
  - destruct (exp_e vp age a) as [pa|]; [|discriminate]. destruct (exp_e vp age b) as [pb|]; [|discriminate].
    rewrite (pmul_sound w nz nz_ok _ _ _ H), (IHa _ eq_refl), (IHb _ eq_refl). reflexivity.
  - destruct (exp_e vp age a) as [pa|]; [|discriminate]. destruct (exp_e vp age b) as [pb|]; [|discriminate].
    destruct (pinv nz pb) as [qi|] eqn:Hi; [|discriminate].
    destruct (pinv_sound w nz nz_ok _ _ Hi) as [Hnz Hinv].
    rewrite (pmul_sound w nz nz_ok _ _ _ H), Hinv, (IHa _ eq_refl), (IHb _ eq_refl). reflexivity.
  - destruct f; try discriminate. cbn [call1R]. auto.
  - discriminate.
Qed.

Lemma var_poly_sound fuel : forall x age, peval w (var_poly fuel x age) = w x age.
Proof.
  induction fuel as [|f IH]; intros x age; cbn [var_poly]; [apply atom_poly_sound|].
  destruct (mem x cut); [apply atom_poly_sound|].
  destruct (age <=? maxage)%nat eqn:Hage; cbn [negb]; [|apply atom_poly_sound].
  apply Nat.leb_le in Hage.
  destruct (lookup x E) as [[e|src|spec]|] eqn:Hl; try apply atom_poly_sound.
  - apply lookup_In in Hl. unfold sat in Hsat. rewrite Forall_forall in Hsat.
    specialize (Hsat _ Hl). unfold sat_eq in Hsat. simpl in Hsat.
    destruct (exp_e (var_poly f) age e) as [p|] eqn:Hp; [|apply atom_poly_sound].
    rewrite (exp_e_sound (var_poly f) age (fun y => IH y age) e p Hp). symmetry. now apply Hsat.
  - apply lookup_In in Hl. unfold sat in Hsat. rewrite Forall_forall in Hsat.
    specialize (Hsat _ Hl). unfold sat_eq in Hsat. simpl in Hsat.
    rewrite IH. symmetry. now apply Hsat.
Qed.

Theorem expand_sound fuel e p :
  expand fuel e = Some p -> peval w p = evalR Q2R (env_at w 0) e.
Proof. unfold expand. apply exp_e_sound. intros x. apply var_poly_sound. Qed.

End Sound.
End Expand.
