(** C18 — codes are labels: renaming and embedding leave an economy unchanged.
    For the system [E1] emitted for an economy and the system [E2] emitted for the consistently
    renamed economy (or: the part of a joint multi-economy system that belongs to one economy,
    with [m] the documented country-code prefixing), the kernel-evaluated check accepts iff [E2]
    is [E1] with every variable renamed by [m], up to polynomial identity of right-hand sides.
    Soundness: then a history satisfies [E2] exactly when its pull-back along [m] satisfies [E1]
    — every variable follows the same series under the renaming.  Evaluating a renamed
    expression is evaluating the original in the pulled-back environment (for all expressions). *)
From Coq Require Import List String Bool ZArith QArith Reals Qreals Lra.
From SFC.Base Require Import Str Expr.
From SFC.Gen Require Import Poly Expand Checker CaseDefs.
Import ListNotations.
Local Open Scope R_scope.

Theorem C18_rename_certificate : forall (m : list (string * string)) (E1 E2 : sys),
  rename_equiv_case m E1 E2 = true ->
  forall (w : string -> nat -> R) (n : nat),
    sat w n E2 <-> sat (fun x => w (assoc_map m x)) n E1.
Proof.
  unfold rename_equiv_case. intros m E1 E2 H w n.
  rewrite <- (check_equiv_sound _ _ H w n). apply sat_rename.
Qed.
Print Assumptions C18_rename_certificate.

(** A joint system satisfies in particular the equations of each embedded economy. *)
Definition restrict (keep : string -> bool) (E : sys) : sys := filter (fun xk => keep (fst xk)) E.

Theorem C18_restriction : forall (keep : string -> bool) (E : sys) (w : string -> nat -> R) (n : nat),
  sat w n E -> sat w n (restrict keep E).
Proof.
  unfold sat, restrict. intros keep E w n H. rewrite Forall_forall in *. intros xk Hin.
  apply filter_In in Hin as [Hin _]. auto.
Qed.
Print Assumptions C18_restriction.

(** If the joint model's part for economy i is accepted against the stand-alone build, every
    solution history of the joint model restricts (under the prefixing) to a solution history of
    the stand-alone economy. *)
Theorem C18_embedding_certificate : forall (m : list (string * string)) (keep : string -> bool) (Ei Ejoint : sys),
  rename_equiv_case m Ei (restrict keep Ejoint) = true ->
  forall (w : string -> nat -> R) (n : nat), sat w n Ejoint -> sat (fun x => w (assoc_map m x)) n Ei.
Proof.
  intros m keep Ei Ejoint H w n Hs. apply (C18_rename_certificate m Ei _ H w n). now apply C18_restriction.
Qed.
Print Assumptions C18_embedding_certificate.

Theorem C18_names_are_labels : forall (m : string -> string) (env : string -> R) (e : expr Q),
  evalR Q2R env (rename m e) = evalR Q2R (fun x => env (m x)) e.
Proof. intros. apply evalR_rename. Qed.
Print Assumptions C18_names_are_labels.

Local Open Scope string_scope.
Example C18_example_accepts :
  rename_equiv_case [("HH__F", "FAM__F"); ("HH__LAG_F", "FAM__LAG_F"); ("HH__DEM_GOOD", "FAM__DEM_WIDGET"); ("GOOD__DEM_GOOD", "WIDGET__DEM_WIDGET")]
    [ ("HH__F", KDef (ESub (EVar "HH__LAG_F") (EVar "HH__DEM_GOOD"))); ("HH__LAG_F", KLag "HH__F");
      ("HH__DEM_GOOD", KExo "[1.0]*5"); ("GOOD__DEM_GOOD", KDef (EVar "HH__DEM_GOOD")) ]
    [ ("WIDGET__DEM_WIDGET", KDef (EVar "FAM__DEM_WIDGET")); ("FAM__DEM_WIDGET", KExo "[1.0]*5");
      ("FAM__F", KDef (ESub (EVar "FAM__LAG_F") (EVar "FAM__DEM_WIDGET"))); ("FAM__LAG_F", KLag "FAM__F") ] = true.
Proof. vm_compute. reflexivity. Qed.
Print Assumptions C18_example_accepts.

(** A constructor that ignores a name parameter (the defect D18a/D18b in miniature). *)
Example C18_hard_coded_name_rejected :
  rename_equiv_case [("BUS__PROF", "FIRM__PROF"); ("BUS__SUP_GOOD", "FIRM__SUP_WIDGET"); ("BUS__DEM_LAB", "FIRM__DEM_LAB")]
    [ ("BUS__PROF", KDef (ESub (EVar "BUS__SUP_GOOD") (EVar "BUS__DEM_LAB"))); ("BUS__SUP_GOOD", KExo "s"); ("BUS__DEM_LAB", KExo "d") ]
    [ ("FIRM__PROF", KDef (ESub (EVar "FIRM__SUP_GOOD") (EVar "FIRM__DEM_LAB"))); ("FIRM__SUP_WIDGET", KExo "s"); ("FIRM__DEM_LAB", KExo "d") ] = false.
Proof. vm_compute. reflexivity. Qed.
Print Assumptions C18_hard_coded_name_rejected.
