(** C08 — results do not depend on the order in which sectors are declared.
    For two emitted systems (the builds of the same program under two declaration orders) the
    kernel-evaluated [check_equiv] accepts iff both define the same variables with right-hand
    sides that are equal as polynomials (so: equal up to the order of summands and of
    equations); soundness: both systems then have exactly the same solution histories.
    Also proved for ALL term sequences: the accumulations by which sectors book flows on each
    other (Equation.AddTerm) give the same value in any order — the reason declaration order
    cannot matter for ledgers. *)
From Coq Require Import List String Bool ZArith QArith Reals Qreals Lra Permutation.
From SFC.Base Require Import Str Expr.
From SFC.Gen Require Import Poly Expand Checker CaseDefs Fx.
Import ListNotations.
Local Open Scope R_scope.

Theorem C08_equivalence_certificate : forall E1 E2 : sys,
  check_equiv E1 E2 = true ->
  forall (w : string -> nat -> R) (n : nat), sat w n E1 <-> sat w n E2.
Proof. exact check_equiv_sound. Qed.
Print Assumptions C08_equivalence_certificate.

Lemma fold_add_term_sum v (ts acc : list term) :
  tsum v (fold_left (fun l t => add_term t l) ts acc) = tsum v acc + tsum v ts.
Proof.
  revert acc. induction ts as [|t r IH]; intros acc; simpl; [lra|].
  rewrite IH, add_term_sum. lra.
Qed.
Print Assumptions fold_add_term_sum.

Lemma tsum_perm v (a b : list term) : Permutation a b -> tsum v a = tsum v b.
Proof. induction 1; simpl; lra. Qed.
Print Assumptions tsum_perm.

(** Booking the same terms in any order yields an equation of the same value. *)
Theorem C08_accumulation_order_irrelevant : forall (v : string -> R) (ts ts' acc : list term),
  Permutation ts ts' ->
  tsum v (fold_left (fun l t => add_term t l) ts acc) = tsum v (fold_left (fun l t => add_term t l) ts' acc).
Proof. intros v ts ts' acc H. rewrite !fold_add_term_sum. f_equal. now apply tsum_perm. Qed.
Print Assumptions C08_accumulation_order_irrelevant.

Local Open Scope string_scope.
Example C08_example_accepts :
  check_equiv
    [ ("A__F", KDef (EAdd (ESub (EVar "A__LAG_F") (EVar "A__X")) (EVar "A__Y"))); ("A__LAG_F", KLag "A__F");
      ("M__D", KDef (EAdd (EVar "A__X") (EVar "B__X"))) ]
    [ ("M__D", KDef (EAdd (EVar "B__X") (EVar "A__X"))); ("A__LAG_F", KLag "A__F");
      ("A__F", KDef (ESub (EAdd (EVar "A__LAG_F") (EVar "A__Y")) (EVar "A__X"))) ] = true.
Proof. vm_compute. reflexivity. Qed.
Print Assumptions C08_example_accepts.

(** The defect D08 in miniature: one order loses a demander. *)
Example C08_lost_demander_rejected :
  check_equiv
    [ ("M__D", KDef (EAdd (EVar "A__X") (EVar "B__X"))) ]
    [ ("M__D", KDef (EVar "A__X")) ] = false.
Proof. vm_compute. reflexivity. Qed.
Print Assumptions C08_lost_demander_rejected.
