(** Laurent polynomials with rational coefficients over time-shifted variables, and their
    real-number semantics.  Used by the verified checkers of the generator properties
    (C01 C04 C05 C07 C08 C09 C18): the checkers run on the equations the implementation
    actually emits; what is proved here is that a "true" from a checker implies the
    identity for every valuation (soundness).  Completeness is not needed and not proved;
    no ordering or normal-form property is relied upon. *)
From Coq Require Import List String Bool ZArith QArith Reals Qreals Lia Lra.
From SFC.Base Require Import Str.
Import ListNotations.
Local Open Scope R_scope.
Arguments Qred : simpl never.
Arguments Qplus : simpl never.
Arguments Qmult : simpl never.
Arguments Qinv : simpl never.
Arguments Q2R : simpl never.

Definition atom := (string * nat)%type.          (* variable name, age (0 = current period) *)
Definition mono := list (atom * Z).              (* product of atom ^ exponent *)
Definition poly := list (Q * mono).              (* sum of coefficient * monomial *)

Definition atom_eqb (a b : atom) : bool := String.eqb (fst a) (fst b) && Nat.eqb (snd a) (snd b).

Lemma atom_eqb_eq a b : atom_eqb a b = true -> a = b.
Proof.
  destruct a as [x i], b as [y j]. unfold atom_eqb. simpl. intros H.
  apply andb_true_iff in H as [H1 H2]. apply String.eqb_eq in H1. apply Nat.eqb_eq in H2. now subst.
Qed.

(** any total-ish order; only used to keep lists tidy, never in proofs *)
Definition atom_ltb (a b : atom) : bool :=
  match String.compare (fst a) (fst b) with
  | Lt => true
  | Eq => Nat.ltb (snd a) (snd b)
  | Gt => false
  end.

Fixpoint mono_eqb (m n : mono) : bool :=
  match m, n with
  | [], [] => true
  | (a, z) :: m', (b, y) :: n' => atom_eqb a b && Z.eqb z y && mono_eqb m' n'
  | _, _ => false
  end.

Lemma mono_eqb_eq m : forall n, mono_eqb m n = true -> m = n.
Proof.
  induction m as [|[a z] m IH]; intros [|[b y] n]; simpl; try discriminate; [reflexivity|].
  intros H. apply andb_true_iff in H as [H H3]. apply andb_true_iff in H as [H1 H2].
  apply atom_eqb_eq in H1. apply Z.eqb_eq in H2. subst. f_equal. now apply IH.
Qed.

Section Sem.
Variable w : string -> nat -> R.                 (* a history: value of each variable at each age *)
Variable nz : list string.                       (* names assumed non-zero at every age *)
Hypothesis nz_ok : forall x i, List.In x nz -> w x i <> 0.

Definition aval (a : atom) : R := w (fst a) (snd a).

Fixpoint meval (m : mono) : R :=
  match m with [] => 1 | (a, z) :: r => powerRZ (aval a) z * meval r end.

Fixpoint peval (p : poly) : R :=
  match p with [] => 0 | (c, m) :: r => Q2R c * meval m + peval r end.

(* ---------------- monomials ---------------- *)

Lemma powerRZ_add_nonneg x z y : (0 <= z)%Z -> (0 <= y)%Z -> powerRZ x (z + y) = powerRZ x z * powerRZ x y.
Proof.
  intros Hz Hy. destruct (Req_dec x 0) as [->|Hx]; [|now apply powerRZ_add].
  destruct (Z.eq_dec z 0) as [->|Hz0].
  - simpl. rewrite Rmult_1_l. reflexivity.
  - destruct z as [|p|p]; try lia. destruct y as [|q|q]; try lia.
    + rewrite Z.add_0_r. simpl. ring.
    + simpl. rewrite Pos2Nat.inj_add, pow_add. reflexivity.
Qed.

(** multiply a monomial by [a ^ z] *)
Fixpoint mins (a : atom) (z : Z) (m : mono) : option mono :=
  match m with
  | [] => Some [(a, z)]
  | (b, y) :: r =>
      if atom_eqb a b then
        if ((0 <=? z)%Z && (0 <=? y)%Z) || mem (fst a) nz then
          (if (z + y =? 0)%Z then Some r else Some ((b, (z + y)%Z) :: r))
        else None
      else if atom_ltb a b then Some ((a, z) :: m)
      else option_map (cons (b, y)) (mins a z r)
  end.

Lemma mins_sound a z m : forall m', mins a z m = Some m' -> meval m' = powerRZ (aval a) z * meval m.
Proof.
  induction m as [|[b y] r IH]; simpl; intros m' H.
  - injection H as <-. simpl. ring.
  - destruct (atom_eqb a b) eqn:Hab.
    + apply atom_eqb_eq in Hab. subst b.
      destruct (((0 <=? z)%Z && (0 <=? y)%Z) || mem (fst a) nz) eqn:Hs; [|discriminate].
      assert (Hadd : powerRZ (aval a) (z + y) = powerRZ (aval a) z * powerRZ (aval a) y).
      { apply orb_true_iff in Hs as [Hs|Hs].
        - apply andb_true_iff in Hs as [H1 H2]. apply Z.leb_le in H1, H2. now apply powerRZ_add_nonneg.
        - apply powerRZ_add. unfold aval. apply nz_ok. now apply mem_In. }
      destruct (z + y =? 0)%Z eqn:Hz.
      * injection H as <-. apply Z.eqb_eq in Hz. rewrite Hz in Hadd. simpl in Hadd.
        rewrite <- Rmult_assoc, <- Hadd. ring.
      * injection H as <-. simpl. rewrite Hadd. ring.
    + destruct (atom_ltb a b).
      * injection H as <-. simpl. ring.
      * destruct (mins a z r) as [r'|] eqn:Hr; [|discriminate]. injection H as <-.
        simpl. rewrite (IH r' eq_refl). ring.
Qed.

Fixpoint mmul (m n : mono) : option mono :=
  match m with
  | [] => Some n
  | (a, z) :: r => match mmul r n with Some n' => mins a z n' | None => None end
  end.

Lemma mmul_sound m : forall n p, mmul m n = Some p -> meval p = meval m * meval n.
Proof.
  induction m as [|[a z] r IH]; simpl; intros n p H.
  - injection H as <-. ring.
  - destruct (mmul r n) as [n'|] eqn:Hr; [|discriminate].
    rewrite (mins_sound _ _ _ _ H), (IH _ _ Hr). ring.
Qed.

(** inverse of a monomial all of whose atoms are assumed non-zero *)
Fixpoint minv (m : mono) : option mono :=
  match m with
  | [] => Some []
  | (a, z) :: r =>
      if mem (fst a) nz then option_map (cons (a, (- z)%Z)) (minv r) else None
  end.

Lemma minv_sound m : forall m', minv m = Some m' -> meval m <> 0 /\ meval m' = / meval m.
Proof.
  induction m as [|[a z] r IH]; simpl; intros m' H.
  - injection H as <-. simpl. split; [lra|field].
  - destruct (mem (fst a) nz) eqn:Hm; [|discriminate].
    destruct (minv r) as [r'|] eqn:Hr; [|discriminate]. injection H as <-.
    destruct (IH r' eq_refl) as [Hnz Hinv].
    assert (Ha : aval a <> 0) by (unfold aval; apply nz_ok; now apply mem_In).
    assert (Hp : powerRZ (aval a) z <> 0) by now apply powerRZ_NOR.
    split; [now apply Rmult_integral_contrapositive_currified|].
    simpl. rewrite Hinv, powerRZ_neg by assumption. rewrite powerRZ_inv by assumption. field. split; assumption.
Qed.

(* ---------------- polynomials ---------------- *)

(** add [c * m] to a polynomial *)
Fixpoint pins (c : Q) (m : mono) (p : poly) : poly :=
  match p with
  | [] => [(c, m)]
  | (d, n) :: r => if mono_eqb m n then (Qred (c + d), n) :: r else (d, n) :: pins c m r
  end.

Lemma Q2R_Qred q : Q2R (Qred q) = Q2R q.
Proof. apply Qeq_eqR, Qred_correct. Qed.

Lemma pins_sound c m p : peval (pins c m p) = Q2R c * meval m + peval p.
Proof.
  induction p as [|[d n] r IH]; cbn [pins]; [cbn [peval]; ring|].
  destruct (mono_eqb m n) eqn:Hmn.
  - apply mono_eqb_eq in Hmn. subst n. cbn [peval]. rewrite Q2R_Qred, Q2R_plus. ring.
  - cbn [peval]. rewrite IH. ring.
Qed.

Definition padd (p q : poly) : poly := fold_right (fun cm acc => pins (fst cm) (snd cm) acc) q p.

Lemma padd_sound p q : peval (padd p q) = peval p + peval q.
Proof.
  unfold padd. induction p as [|[c m] r IH]; simpl; [ring|]. rewrite pins_sound, IH. ring.
Qed.

Definition pscale (c : Q) (p : poly) : poly := map (fun dm => (Qred (c * fst dm), snd dm)) p.

Lemma pscale_sound c p : peval (pscale c p) = Q2R c * peval p.
Proof.
  induction p as [|[d m] r IH]; cbn [pscale map peval fst snd]; [ring|]. fold (pscale c r). rewrite IH, Q2R_Qred, Q2R_mult. ring.
Qed.

(** [c*m] times a polynomial *)
Fixpoint pmul1 (c : Q) (m : mono) (q : poly) : option poly :=
  match q with
  | [] => Some []
  | (d, n) :: r =>
      match mmul m n, pmul1 c m r with
      | Some mn, Some r' => Some (pins (Qred (c * d)) mn r')
      | _, _ => None
      end
  end.

Lemma pmul1_sound c m q : forall p, pmul1 c m q = Some p -> peval p = Q2R c * meval m * peval q.
Proof.
  induction q as [|[d n] r IH]; simpl; intros p H.
  - injection H as <-. simpl. ring.
  - destruct (mmul m n) as [mn|] eqn:Hmn; [|discriminate].
    destruct (pmul1 c m r) as [r'|] eqn:Hr; [|discriminate]. injection H as <-.
    rewrite pins_sound, Q2R_Qred, Q2R_mult, (mmul_sound _ _ _ Hmn), (IH _ eq_refl). ring.
Qed.

Fixpoint pmul (p q : poly) : option poly :=
  match p with
  | [] => Some []
  | (c, m) :: r =>
      match pmul1 c m q, pmul r q with
      | Some a, Some b => Some (padd a b)
      | _, _ => None
      end
  end.

Lemma pmul_sound p : forall q s, pmul p q = Some s -> peval s = peval p * peval q.
Proof.
  induction p as [|[c m] r IH]; simpl; intros q s H.
  - injection H as <-. simpl. ring.
  - destruct (pmul1 c m q) as [a|] eqn:Ha; [|discriminate].
    destruct (pmul r q) as [b|] eqn:Hb; [|discriminate]. injection H as <-.
    rewrite padd_sound, (pmul1_sound _ _ _ _ Ha), (IH _ _ Hb). ring.
Qed.

(** drop zero coefficients *)
Definition pclean (p : poly) : poly := filter (fun cm => negb (Qeq_bool (fst cm) 0)) p.

Lemma pclean_sound p : peval (pclean p) = peval p.
Proof.
  induction p as [|[c m] r IH]; simpl; [reflexivity|].
  destruct (Qeq_bool c 0) eqn:Hc; simpl.
  - apply Qeq_bool_eq in Hc. rewrite IH, (Qeq_eqR _ _ Hc). unfold Q2R. simpl. lra.
  - now rewrite IH.
Qed.

Definition pzero (p : poly) : bool := match pclean p with [] => true | _ => false end.

Lemma pzero_sound p : pzero p = true -> peval p = 0.
Proof.
  unfold pzero. intros H. rewrite <- pclean_sound. destruct (pclean p); [reflexivity|discriminate].
Qed.

(** reciprocal of a polynomial that is a single non-zero monomial over non-zero atoms *)
Definition pinv (p : poly) : option poly :=
  match pclean p with
  | [(c, m)] => match minv m with Some m' => Some [(Qred (/ c), m')] | None => None end
  | _ => None
  end.

Lemma pinv_sound p q : pinv p = Some q -> peval p <> 0 /\ peval q = / peval p.
Proof.
  unfold pinv. intros H. rewrite <- (pclean_sound p).
  assert (Hc : forall cm, List.In cm (pclean p) -> Qeq_bool (fst cm) 0 = false).
  { intros cm Hin. apply filter_In in Hin as [_ Hb]. now apply negb_true_iff in Hb. }
  destruct (pclean p) as [|[c m] [|]]; try discriminate.
  destruct (minv m) as [m'|] eqn:Hm; [|discriminate]. injection H as <-.
  destruct (minv_sound _ _ Hm) as [Hnz Hinv].
  assert (Hc0 : ~ (c == 0)%Q).
  { intros E. apply Qeq_bool_iff in E. pose proof (Hc (c, m) (or_introl eq_refl)) as Hf. simpl in Hf. congruence. }
  assert (Hcr : Q2R c <> 0).
  { intros E. apply Hc0. apply eqR_Qeq. rewrite E. unfold Q2R. simpl. lra. }
  simpl. split.
  - rewrite Rplus_0_r. now apply Rmult_integral_contrapositive_currified.
  - rewrite Q2R_Qred, Q2R_inv, Hinv by assumption. field. split; assumption.
Qed.

End Sem.
