(** Model of how flows between sectors are booked (models.py:_GenerateRegisteredCashFlows,
    external.py:_SendMoney/_ReceiveMoney/SetGoldPurchases): every operation adds entries to the
    financial-asset ledgers of the sectors involved and to the FX intermediary's NET_<currency>
    ledgers.  Theorem, for ALL sequences of such operations and ALL valuations: in every real
    currency zone the booked entries of the zone's sectors plus the intermediary's net position in
    that currency sum to zero — recording a flow never creates or destroys money. *)
From Coq Require Import List String Bool ZArith Reals Lra.
From SFC.Base Require Import Str.
From SFC.Gen Require Import Fx.
Import ListNotations.
Local Open Scope R_scope.

Definition net_key (cur : string) : string := ("EXT_FX__NET_" ++ cur)%string.

Inductive flowop :=
| Same (src tgt x : string)                       (* both sectors in one zone; x = the amount variable *)
| Cross (src tgt csrc ctgt x : string)            (* sender in currency csrc, receiver in ctgt *)
| GoldBuy (sec cur x : string).                   (* gold purchase of a sector in currency cur *)

Definition flow_step (L : ledger) (o : flowop) : ledger :=
  match o with
  | Same src tgt x =>
      add_to tgt (1%Z, [x]) (add_to src ((-1)%Z, [x]) L)
  | Cross src tgt csrc ctgt x =>
      let L1 := add_to src ((-1)%Z, [x]) L in
      (* _SendMoney *)
      let L2 := add_to (net_key NUM) ((-1)%Z, [x; xr_name csrc]) (add_to (net_key csrc) (1%Z, [x]) L1) in
      (* _ReceiveMoney *)
      let L3 := add_to (net_key NUM) (1%Z, [x; xr_name csrc])
                  (add_to (net_key ctgt) ((-1)%Z, [x; cross_name csrc ctgt]) L2) in
      add_to tgt (1%Z, [x; cross_name csrc ctgt]) L3
  | GoldBuy sec cur x =>
      let L1 := add_to (net_key NUM) ((-1)%Z, [x; xr_name cur]) (add_to (net_key cur) (1%Z, [x]) L) in
      add_to sec ((-1)%Z, [x]) L1
  end.

Definition flow_run (ops : list flowop) : ledger := fold_left flow_step ops [].

Section Zones.
Variable zone_of : string -> string.      (* currency of a sector / of a NET_<currency> ledger *)
Variable v : string -> R.

Fixpoint zone_total (L : ledger) (z : string) : R :=
  match L with
  | [] => 0
  | (k, ts) :: r => (if String.eqb (zone_of k) z then tsum v ts else 0) + zone_total r z
  end.

Lemma add_to_zone_total k t L z :
  zone_total (add_to k t L) z = (if String.eqb (zone_of k) z then tval v t else 0) + zone_total L z.
Proof.
  induction L as [|[c ts] r IH]; simpl.
  - destruct (String.eqb (zone_of k) z); lra.
  - destruct (String.eqb_spec k c) as [->|Hn]; simpl.
    + rewrite add_term_sum. destruct (String.eqb (zone_of c) z); lra.
    + rewrite IH. destruct (String.eqb (zone_of c) z); lra.
Qed.

Definition op_ok (o : flowop) : Prop :=
  match o with
  | Same src tgt _ => zone_of src = zone_of tgt
  | Cross src tgt csrc ctgt _ =>
      zone_of src = csrc /\ zone_of tgt = ctgt /\ zone_of (net_key csrc) = csrc /\
      zone_of (net_key ctgt) = ctgt /\ zone_of (net_key NUM) = NUM
  | GoldBuy sec cur _ => zone_of sec = cur /\ zone_of (net_key cur) = cur /\ zone_of (net_key NUM) = NUM
  end.

Lemma flow_step_zone L o z : op_ok o -> z <> NUM -> zone_total (flow_step L o) z = zone_total L z.
Proof.
  intros Hok Hz. destruct o as [src tgt x|src tgt csrc ctgt x|sec cur x]; simpl in *.
  - rewrite !add_to_zone_total, Hok. destruct (String.eqb (zone_of tgt) z); unfold tval; simpl; lra.
  - destruct Hok as (H1 & H2 & H3 & H4 & H5).
    rewrite !add_to_zone_total, H1, H2, H3, H4, H5.
    destruct (String.eqb_spec NUM z) as [E|_]; [congruence|].
    destruct (String.eqb csrc z), (String.eqb ctgt z); unfold tval; simpl; lra.
  - destruct Hok as (H1 & H2 & H3).
    rewrite !add_to_zone_total, H1, H2, H3.
    destruct (String.eqb_spec NUM z) as [E|_]; [congruence|].
    destruct (String.eqb cur z); unfold tval; simpl; lra.
Qed.

(** C01 (booking level): after any sequence of flow registrations, in every real currency zone
    the sectors' booked entries and the intermediary's net position cancel, for every valuation of
    the amount variables and exchange rates. *)
Theorem flows_conserve_money ops z :
  Forall op_ok ops -> z <> NUM -> zone_total (flow_run ops) z = 0.
Proof.
  intros Hok Hz. unfold flow_run.
  assert (G : forall L, zone_total (fold_left flow_step ops L) z = zone_total L z).
  { induction ops as [|o r IH]; intros L; simpl; [reflexivity|].
    inversion Hok as [|? ? Ho Hr]; subst. rewrite (IH Hr). now apply flow_step_zone. }
  rewrite G. reflexivity.
Qed.

End Zones.
