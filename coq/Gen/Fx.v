(** Model of external.py:ForexTransations — the bookkeeping of cross-currency flows.
    [_SendMoney(source, x)]  : NET_src += x            ; NET_NUMERAIRE += - x * XR_src
    [_ReceiveMoney(tgt, src, x)]: NET_tgt += - x * SRC_TGT ; NET_NUMERAIRE += + x * XR_src
    and returns the term credited to the receiver, x * SRC_TGT, where the cross rate variable
    SRC_TGT is defined as XR_src / XR_tgt.  Terms are (coefficient, factor list); terms with equal
    factor lists merge by adding coefficients, exactly as Equation.AddTerm merges equal texts.
    The theorem is for ALL sequences of operations. *)
From Coq Require Import List String Bool ZArith Reals Lra Lia.
From SFC.Base Require Import Str.
Import ListNotations.
Local Open Scope R_scope.

Definition term := (Z * list string)%type.          (* coefficient, factors (their product) *)
Definition ledger := list (string * list term).      (* currency -> accumulated terms of NET_<currency> *)

Definition xr_name (c : string) : string := ("EXT_XR__" ++ c)%string.
Definition cross_name (a b : string) : string := ("EXT_XR__" ++ a ++ "_" ++ b)%string.

Fixpoint factors_eqb (a b : list string) : bool :=
  match a, b with
  | [], [] => true
  | x :: a', y :: b' => String.eqb x y && factors_eqb a' b'
  | _, _ => false
  end.

Lemma factors_eqb_eq a : forall b, factors_eqb a b = true -> a = b.
Proof.
  induction a as [|x a IH]; intros [|y b]; simpl; try discriminate; [reflexivity|].
  intros H. apply andb_true_iff in H as [H1 H2]. apply String.eqb_eq in H1. subst. f_equal. auto.
Qed.

(** Equation.AddTerm on a list of parsed terms *)
Fixpoint add_term (t : term) (l : list term) : list term :=
  match l with
  | [] => [t]
  | (c, f) :: r => if factors_eqb (snd t) f then ((fst t + c)%Z, f) :: r else (c, f) :: add_term t r
  end.

Fixpoint add_to (cur : string) (t : term) (L : ledger) : ledger :=
  match L with
  | [] => [(cur, [t])]
  | (c, ts) :: r => if String.eqb cur c then (c, add_term t ts) :: r else (c, ts) :: add_to cur t r
  end.

Inductive fxop :=
| Send (src : string) (x : string)                  (* amount variable x, in the sender's currency *)
| Receive (src tgt : string) (x : string).

Definition NUM : string := "NUMERAIRE".

Definition fx_step (L : ledger) (o : fxop) : ledger :=
  match o with
  | Send src x =>
      add_to NUM ((-1)%Z, [x; xr_name src]) (add_to src (1%Z, [x]) L)
  | Receive src tgt x =>
      add_to NUM (1%Z, [x; xr_name src]) (add_to tgt ((-1)%Z, [x; cross_name src tgt]) L)
  end.

Definition fx_run (ops : list fxop) : ledger := fold_left fx_step ops [].

(** the term credited to the receiving sector *)
Definition credited (src tgt x : string) : term := (1%Z, [x; cross_name src tgt]).

Section Sem.
Variable v : string -> R.                       (* valuation of variable names *)

Fixpoint fval (f : list string) : R := match f with [] => 1 | x :: r => v x * fval r end.
Definition tval (t : term) : R := IZR (fst t) * fval (snd t).
Fixpoint tsum (l : list term) : R := match l with [] => 0 | t :: r => tval t + tsum r end.

(** value of NET_<cur> in the numeraire: its terms times the currency's rate (1 for the numeraire) *)
Definition rate (c : string) : R := if String.eqb c NUM then 1 else v (xr_name c).
Fixpoint valued (L : ledger) : R :=
  match L with [] => 0 | (c, ts) :: r => tsum ts * rate c + valued r end.

Lemma add_term_sum t l : tsum (add_term t l) = tval t + tsum l.
Proof.
  induction l as [|[c f] r IH]; simpl; [lra|].
  destruct (factors_eqb (snd t) f) eqn:H.
  - apply factors_eqb_eq in H. destruct t as [a g]. simpl in *. subst. unfold tval. simpl.
    rewrite plus_IZR. lra.
  - simpl. rewrite IH. lra.
Qed.

Lemma add_to_valued cur t L : valued (add_to cur t L) = tval t * rate cur + valued L.
Proof.
  induction L as [|[c ts] r IH]; simpl; [lra|].
  destruct (String.eqb_spec cur c) as [->|Hn]; simpl.
  - rewrite add_term_sum. lra.
  - rewrite IH. lra.
Qed.

(** Hypotheses on the valuation: cross rates are the quotient of the two rates, rates of the
    currencies that receive money are non-zero, the numeraire is not a real currency name. *)
Definition rates_ok (ops : list fxop) : Prop :=
  Forall (fun o => match o with
                   | Send src _ => src <> NUM
                   | Receive src tgt _ =>
                       src <> NUM /\ tgt <> NUM /\ v (xr_name tgt) <> 0 /\
                       v (cross_name src tgt) = v (xr_name src) / v (xr_name tgt)
                   end) ops.

Lemma rate_real c : c <> NUM -> rate c = v (xr_name c).
Proof. intros H. unfold rate. destruct (String.eqb_spec c NUM); [contradiction|reflexivity]. Qed.

Lemma fx_step_valued L o :
  rates_ok [o] -> valued (fx_step L o) = valued L.
Proof.
  intros H. inversion H as [|? ? Ho _]; subst. destruct o as [src x|src tgt x]; simpl.
  - rewrite !add_to_valued, (rate_real src Ho). unfold rate, tval. simpl. lra.
  - destruct Ho as (Hs & Ht & Hnz & Hc).
    rewrite !add_to_valued, (rate_real tgt Ht). unfold rate, tval. simpl. rewrite Hc. field. exact Hnz.
Qed.

(** C07_valued_zero: after any sequence of sends and receives, the intermediary's net
    transactions valued in the numeraire and summed over all currencies are zero. *)
Theorem fx_valued_zero ops : rates_ok ops -> valued (fx_run ops) = 0.
Proof.
  unfold fx_run. assert (G : forall L, rates_ok ops -> valued (fold_left fx_step ops L) = valued L).
  { induction ops as [|o r IH]; intros L H; simpl; [reflexivity|].
    inversion H as [|? ? Ho Hr]; subst. rewrite IH by exact Hr.
    apply fx_step_valued. constructor; [exact Ho|constructor]. }
  intros H. rewrite G by exact H. reflexivity.
Qed.

(** A paired flow (send then receive of the same amount) leaves the numeraire position itself
    unchanged, whatever was booked before. *)
Fixpoint num_sum (L : ledger) : R :=
  match L with [] => 0 | (c, ts) :: r => (if String.eqb c NUM then tsum ts else 0) + num_sum r end.

Lemma add_to_num cur t L : num_sum (add_to cur t L) = (if String.eqb cur NUM then tval t else 0) + num_sum L.
Proof.
  induction L as [|[c ts] r IH]; simpl.
  - destruct (String.eqb cur NUM); lra.
  - destruct (String.eqb_spec cur c) as [->|Hn]; simpl.
    + rewrite add_term_sum. destruct (String.eqb c NUM); lra.
    + rewrite IH. lra.
Qed.

Theorem fx_pair_numeraire L src tgt x : src <> NUM -> tgt <> NUM ->
  num_sum (fx_step (fx_step L (Send src x)) (Receive src tgt x)) = num_sum L.
Proof.
  intros Hs Ht. simpl. rewrite !add_to_num.
  destruct (String.eqb_spec tgt NUM); [contradiction|]. destruct (String.eqb_spec src NUM); [contradiction|].
  simpl. unfold tval. simpl. lra.
Qed.

(** The receiver is credited the sender's amount times (sender's rate / receiver's rate). *)
Theorem fx_credit src tgt x :
  v (cross_name src tgt) = v (xr_name src) / v (xr_name tgt) ->
  tval (credited src tgt x) = v x * (v (xr_name src) / v (xr_name tgt)).
Proof. intros H. unfold credited, tval. simpl. rewrite H. lra. Qed.

End Sem.
