(** C05 — the generated system is closed, canonical and free of placeholder names.
    The decidable checks below run (kernel-evaluated) on the system each generated program
    really emits; soundness is the reflection of the boolean checks into the stated facts.
    "Same meaning as the sector-local equation": the final right-hand side is the local one
    with local names replaced by their full names, hence evaluates identically under the
    correspondingly qualified environment (for every environment). *)
From Coq Require Import List String Bool ZArith QArith Reals Qreals.
From SFC.Base Require Import Str Expr.
From SFC.Gen Require Import Poly Expand Checker CaseDefs.
Import ListNotations.

Theorem C05_closed_certificate : forall (allowed : list string) (E : sys),
  check_closed allowed E = true ->
  NoDup (map fst E) /\
  (forall x k n, List.In (x, k) E -> List.In n (kind_names k) -> List.In n (map fst E) \/ List.In n allowed) /\
  (forall x k, List.In (x, k) E -> is_placeholder x = false /\
               forall n, List.In n (kind_names k) -> is_placeholder n = false).
Proof. exact check_closed_sound. Qed.
Print Assumptions C05_closed_certificate.

Theorem C05_same_meaning : forall (m : list (string * string)) (local final : expr Q),
  same_meaning m local final = true ->
  forall env : string -> R, evalR Q2R env final = evalR Q2R (fun x => env (assoc_map m x)) local.
Proof. exact same_meaning_sound. Qed.
Print Assumptions C05_same_meaning.

Local Open Scope string_scope.
(** Placeholder spelling: underscore, digits, double underscore. *)
Example C05_placeholder_examples :
  is_placeholder "_4__F" = true /\ is_placeholder "_12__DEM_GOOD" = true /\
  is_placeholder "HH__F" = false /\ is_placeholder "_x__F" = false /\ is_placeholder "__F" = false /\
  is_placeholder "_4_F" = false.
Proof. vm_compute. repeat split. Qed.
Print Assumptions C05_placeholder_examples.

Example C05_closed_example :
  check_closed ["k"]
    [ ("HH__F", KDef (EAdd (EVar "HH__LAG_F") (EVar "HH__INC"))); ("HH__LAG_F", KLag "HH__F");
      ("HH__INC", KDef (EMul (ENum (1 # 2)) (EVar "k"))); ("t", KDef (EVar "k")) ] = true.
Proof. vm_compute. reflexivity. Qed.
Print Assumptions C05_closed_example.

(** The defect D05 in miniature: a model-level equation that kept a placeholder. *)
Example C05_surviving_placeholder_rejected :
  check_closed ["k"]
    [ ("HH__F", KDef (EVar "HH__LAG_F")); ("HH__LAG_F", KLag "HH__F"); ("WEALTH", KDef (EVar "_4__F")) ] = false.
Proof. vm_compute. reflexivity. Qed.
Print Assumptions C05_surviving_placeholder_rejected.

Example C05_same_meaning_example :
  same_meaning [("F", "HH__F"); ("LAG_F", "HH__LAG_F"); ("INC", "HH__INC")]
    (EAdd (EVar "LAG_F") (EVar "INC")) (EAdd (EVar "HH__LAG_F") (EVar "HH__INC")) = true.
Proof. vm_compute. reflexivity. Qed.
Print Assumptions C05_same_meaning_example.
