(** C04 — markets clear and supply is fully allocated.  Soundness of the identity certificates
    (same engine as C01) and the portfolio identity of GenerateAssetWeighting for ALL weight
    lists (a direct model of sector.py:284-321). *)
From Coq Require Import List String Bool ZArith QArith Reals Qreals Lra.
From SFC.Base Require Import Str Expr.
From SFC.Gen Require Import Poly Expand Checker CaseDefs.
Import ListNotations.
Local Open Scope R_scope.

(** Any identity the checker accepts holds for every history satisfying the emitted system. *)
Theorem C04_identity_certificate :
  forall (E : sys) (cut nz : list string) (fuel : nat) (targets : list (expr Q)),
    zero_case E cut nz fuel targets = true ->
    forall w : string -> nat -> R, sat w 1%nat E -> nonzero w nz ->
    forall t, List.In t targets -> evalR Q2R (env_at w 0) t = 0.
Proof.
  unfold zero_case. intros E cut nz fuel targets H w Hsat Hnz t Hin.
  rewrite forallb_forall in H. eapply check_zero_sound; eauto.
Qed.
Print Assumptions C04_identity_certificate.

(** Model of Sector.GenerateAssetWeighting: for each (code, weight equation) it defines
    WGT_code := weight, DEM_code := F * WGT_code; the residual asset gets
    WGT_res := 1.0 - WGT_c1 - WGT_c2 ... and DEM_res := F * WGT_res. *)
Section Portfolio.
Variable F : R.
Variable wgt : string -> R.      (* value of each explicitly weighted asset's weight *)

Fixpoint residual_weight (codes : list string) (acc : R) : R :=
  match codes with [] => acc | c :: r => residual_weight r (acc - wgt c) end.

Definition demand (c : string) : R := F * wgt c.
Definition demand_residual (codes : list string) : R := F * residual_weight codes 1.

Lemma residual_weight_sum codes : forall acc,
  residual_weight codes acc = acc - fold_right (fun c s => wgt c + s) 0 codes.
Proof. induction codes as [|c r IH]; intros acc; simpl; [lra|]. rewrite IH. lra. Qed.

(** The demands for all assets among which the sector allocates its wealth add up to F. *)
Theorem portfolio_adds_up codes :
  fold_right (fun c s => demand c + s) 0 codes + demand_residual codes = F.
Proof.
  unfold demand_residual. rewrite residual_weight_sum.
  assert (H : fold_right (fun c s => demand c + s) 0 codes = F * fold_right (fun c s => wgt c + s) 0 codes).
  { induction codes as [|c r IH]; simpl; [lra|]. rewrite IH. unfold demand. lra. }
  rewrite H. lra.
Qed.
End Portfolio.
Print Assumptions residual_weight_sum.
Print Assumptions portfolio_adds_up.

Theorem C04_portfolio : forall (F : R) (wgt : string -> R) (codes : list string),
  fold_right (fun c s => demand F wgt c + s) 0 codes + demand_residual F wgt codes = F.
Proof. exact portfolio_adds_up. Qed.
Print Assumptions C04_portfolio.

(** Non-vacuity: a market with two demanders and two suppliers (one residual). *)
Local Open Scope string_scope.
Definition ex_market : sys :=
  [ ("M__DEM_M", KDef (EAdd (EVar "A__DEM_M") (EVar "B__DEM_M")));
    ("M__SUP_M", KDef (EVar "M__DEM_M"));
    ("M__SUP_S2", KDef (EMul (ENum (1 # 4)) (EVar "M__DEM_M")));
    ("M__SUP_S1", KDef (ESub (EVar "M__SUP_M") (EVar "M__SUP_S2")));
    ("S1__SUP_M", KDef (EVar "M__SUP_S1")); ("S2__SUP_M", KDef (EVar "M__SUP_S2"));
    ("A__DEM_M", KExo "a"); ("B__DEM_M", KExo "b") ].

Example C04_example_accepts :
  zero_case ex_market [] [] 20%nat
    [ ESub (EVar "M__SUP_M") (EVar "M__DEM_M");
      ESub (EVar "M__DEM_M") (EAdd (EVar "A__DEM_M") (EVar "B__DEM_M"));
      ESub (EVar "M__SUP_M") (EAdd (EVar "M__SUP_S1") (EVar "M__SUP_S2"));
      ESub (EVar "S1__SUP_M") (EVar "M__SUP_S1") ] = true.
Proof. vm_compute. reflexivity. Qed.
Print Assumptions C04_example_accepts.

(** A market that skipped a demander is rejected. *)
Example C04_skipped_demander_rejected :
  zero_case [ ("M__DEM_M", KDef (EVar "A__DEM_M")); ("A__DEM_M", KExo "a"); ("B__DEM_M", KExo "b") ] [] [] 20%nat
    [ ESub (EVar "M__DEM_M") (EAdd (EVar "A__DEM_M") (EVar "B__DEM_M")) ] = false.
Proof. vm_compute. reflexivity. Qed.
Print Assumptions C04_skipped_demander_rejected.
