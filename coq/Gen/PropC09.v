(** C09 — textbook models obey their difference equations for any parameters.
    (a) The book's period equations determine the closed forms (SIM, SIMEX1, PC), for all
        parameter values, exogenous values and inherited stocks (theorems over R).
    (b) For the systems the bundled builders emit (run on every generated parameter vector, with
        the parameters kept symbolic as atoms so that one certificate covers all values), the
        kernel-evaluated checker certifies each period equation of the book — hence, with (a), the
        closed form — for every history satisfying the emitted system.
    (c) The hand-coded iterative SIM reports, whenever its loop exits, an income within
        eps/(1-q) of the closed form.
    (d) '%0.4f' formatting leaves a parameter unchanged iff it has at most four decimals; the
        recorded finding D09 (a parameter with more decimals is silently rounded) is the witness. *)
From Coq Require Import List String Bool ZArith QArith Reals Qreals Lra.
From SFC.Base Require Import Str Expr.
From SFC.Gen Require Import Poly Expand Checker CaseDefs Book.
Import ListNotations.
Local Open Scope R_scope.

Theorem C09_SIM : forall a1 a2 th G H1 Y T YD C H : R,
  1 - a1 * (1 - th) <> 0 ->
  Y = C + G -> T = th * Y -> YD = Y - T -> C = a1 * YD + a2 * H1 -> H = H1 + YD - C ->
  Y = (G + a2 * H1) / (1 - a1 * (1 - th)) /\ T = th * Y /\ YD = (1 - th) * Y /\
  C = Y - G /\ H = H1 + (1 - th) * Y - (Y - G).
Proof. exact SIM_closed_form. Qed.
Print Assumptions C09_SIM.

Theorem C09_SIMEX1 : forall a1 a2 th G H1 YD1 Y T YD C H : R,
  Y = C + G -> T = th * Y -> YD = Y - T -> C = a1 * YD1 + a2 * H1 -> H = H1 + YD - C ->
  C = a1 * YD1 + a2 * H1 /\ Y = a1 * YD1 + a2 * H1 + G /\ T = th * Y /\ YD = (1 - th) * Y /\
  H = H1 + (1 - th) * Y - (a1 * YD1 + a2 * H1).
Proof. exact SIMEX1_closed_form. Qed.
Print Assumptions C09_SIMEX1.

Theorem C09_PC : forall a1 a2 th l0 l1 l2 G r r1 V1 B1 Y T YD C V B Hm : R,
  1 - a1 * (1 - th) <> 0 -> V <> 0 ->
  Y = C + G -> T = th * (Y + r1 * B1) -> YD = Y - T + r1 * B1 -> C = a1 * YD + a2 * V1 ->
  V = V1 + YD - C -> B = V * (l0 + l1 * r - l2 * (YD / V)) -> Hm = V - B ->
  Y = (G + a2 * V1 + a1 * (1 - th) * r1 * B1) / (1 - a1 * (1 - th)) /\
  YD = (1 - th) * (Y + r1 * B1) /\ B = V * (l0 + l1 * r) - l2 * YD /\ B + Hm = V.
Proof. exact PC_closed_form. Qed.
Print Assumptions C09_PC.

Theorem C09_emitted_recursion_certificate :
  forall (E : sys) (cut nz : list string) (fuel : nat)
         (targets : list (list (list (expr Q * string)) * expr Q)),
    zero_anycert_case E cut nz fuel targets = true ->
    forall w : string -> nat -> R, sat w 1%nat E -> nonzero w nz ->
    forall ct, List.In ct targets -> evalR Q2R (env_at w 0) (snd ct) = 0.
Proof.
  unfold zero_anycert_case. intros E cut nz fuel targets H w Hsat Hnz ct Hin.
  rewrite forallb_forall in H. specialize (H ct Hin). apply existsb_exists in H as (cert & _ & Hc).
  eapply check_zero_cert_sound; eauto.
Qed.
Print Assumptions C09_emitted_recursion_certificate.

Theorem C09_iterative : forall a1 a2 th G H1 Y eps : R,
  let q := a1 * (1 - th) in
  q < 1 -> Rabs ((q * Y + a2 * H1 + G) - Y) <= eps ->
  Rabs (Y - (G + a2 * H1) / (1 - q)) <= eps / (1 - q).
Proof. exact SIM_iterative_exit_bound. Qed.
Print Assumptions C09_iterative.

Theorem C09_fmt : forall q : Q, (fmt4 q == q)%Q <-> exists z : Z, (q * 10000 == inject_Z z)%Q.
Proof. exact fmt4_exact_iff. Qed.
Print Assumptions C09_fmt.

(** Recorded finding D09: a propensity with more than four decimals is emitted rounded. *)
Theorem C09_fmt_refuted : exists q : Q, ~ (fmt4 q == q)%Q.
Proof. exists (61234567 # 100000000)%Q. vm_compute. discriminate. Qed.
Print Assumptions C09_fmt_refuted.

(** Non-vacuity of the certificate: the consumption function needs the residual of its own (cut)
    equation as certificate; a SIM-like miniature. *)
Local Open Scope string_scope.
Definition mini_sim : sys :=
  [ ("Y", KDef (EAdd (EVar "C") (EVar "G"))); ("T", KDef (EMul (EVar "th") (EVar "Y")));
    ("YD", KDef (ESub (EVar "Y") (EVar "T")));
    ("C", KDef (EAdd (EMul (EVar "a1") (EVar "YD")) (EMul (EVar "a2") (EVar "H1"))));
    ("H", KDef (ESub (EAdd (EVar "H1") (EVar "YD")) (EVar "C"))); ("H1", KLag "H");
    ("a1", KDef (ENum (6 # 10))); ("a2", KDef (ENum (4 # 10))); ("th", KDef (ENum (2 # 10))); ("G", KExo "g") ].

Example C09_mini_certified :
  zero_anycert_case mini_sim ["C"; "a1"; "a2"; "th"; "H1"] [] 30%nat
    [ ([[]], ESub (EVar "Y") (EAdd (EVar "C") (EVar "G")));
      ([[]; [(ENum 1%Q, "C")]], ESub (EVar "C") (EAdd (EMul (EVar "a1") (EVar "YD")) (EMul (EVar "a2") (EVar "H1"))));
      ([[]], ESub (EVar "H") (ESub (EAdd (EVar "H1") (EVar "YD")) (EVar "C"))) ] = true.
Proof. vm_compute. reflexivity. Qed.
Print Assumptions C09_mini_certified.
