(** Shared state for the booking-group models of the generator (markets, tax flows, asset markets,
    dividends): a currency zone is a list of sectors; a sector owns an association list
    local variable name -> equation; an equation is an opaque leading expression (the "blob",
    possibly empty) plus a list of parsed terms (coefficient, factors), exactly as
    sfc_models/equation.py keeps it (Fx.v defines [term] and [add_term] = Equation.AddTerm on parsed
    terms).  The operations mirror sector.py: AddVariable, SetEquationRightHandSide,
    AddTermToEquation, AddCashFlow (on already-parsed terms: the character-level Term parser is
    coq/Eqn's subject).

    Semantics: a valuation [v] gives a real to every FULL variable name; the value of an opaque
    expression is given by an arbitrary function [bv] of (owning sector's full code, blob text) —
    theorems quantify over all [v] and [bv], i.e. they use nothing about opaque expressions. *)
From Coq Require Import List String Bool ZArith Reals Lra.
From SFC.Base Require Import Str.
From SFC.Gen Require Import Fx.
Import ListNotations.
Local Open Scope R_scope.

Record eqn := mkEqn { blob : string; terms : list term }.

Record sector := mkSector {
  sid : nat;                      (* EconomicObject.ID *)
  code : string;                  (* short code *)
  country : string;               (* code of the parent Country *)
  fullcode : string;              (* FullCode (assigned before _GenerateEquations runs) *)
  hasF : bool;
  taxable : bool;                 (* IsTaxable *)
  is_market : bool;               (* isinstance(s, Market) *)
  excl : list string;             (* income exclusions registered for this sector *)
  vars : list (string * eqn)      (* EquationBlock, insertion order; keys unique *)
}.

Definition zone := list sector.

Definition with_vars (s : sector) (vs : list (string * eqn)) : sector :=
  mkSector (sid s) (code s) (country s) (fullcode s) (hasF s) (taxable s) (is_market s) (excl s) vs.

Fixpoint lookup_var (n : string) (vs : list (string * eqn)) : option eqn :=
  match vs with [] => None | (k, e) :: r => if String.eqb n k then Some e else lookup_var n r end.

(** dict assignment: overwrite in place if present, append otherwise *)
Fixpoint set_var (n : string) (e : eqn) (vs : list (string * eqn)) : list (string * eqn) :=
  match vs with
  | [] => [(n, e)]
  | (k, e') :: r => if String.eqb n k then (k, e) :: r else (k, e') :: set_var n e r
  end.

Definition has_var (s : sector) (n : string) : bool :=
  match lookup_var n (vars s) with Some _ => true | None => false end.

(** Sector.AddVariable(name, desc, eqn): replaces the whole equation by one blob *)
Definition add_variable (s : sector) (n blobtext : string) : sector :=
  with_vars s (set_var n (mkEqn blobtext []) (vars s)).

(** Sector.SetEquationRightHandSide: KeyError if absent (None here) *)
Definition set_rhs (s : sector) (n blobtext : string) : option sector :=
  match lookup_var n (vars s) with
  | Some _ => Some (with_vars s (set_var n (mkEqn blobtext []) (vars s)))
  | None => None
  end.

(** Sector.AddTermToEquation with a parsed term *)
Definition add_term_to_eq (s : sector) (n : string) (t : term) : option sector :=
  match lookup_var n (vars s) with
  | Some e => Some (with_vars s (set_var n (mkEqn (blob e) (add_term t (terms e))) (vars s)))
  | None => None
  end.

(** rendering of an equation is '' or '0.0' (what AddCashFlow tests before defining a flow variable) *)
Definition renders_empty (e : eqn) : bool :=
  (String.eqb (blob e) "" || String.eqb (blob e) "0.0") && forallb (fun t => Z.eqb (fst t) 0) (terms e).

(** Sector.AddCashFlow(term, eqn, is_income) for a parsed single-name or two-factor term [t];
    [def] is the defining expression ([None] = Python None).  The sector must have F and INC. *)
Definition add_cash_flow (s : sector) (t : term) (def : option string) (is_income : bool) : option sector :=
  match add_term_to_eq s "F" t with
  | None => None
  | Some s1 =>
      let name := String.concat "*" (snd t) in
      let income := is_income && negb (mem name (excl s)) in
      match (if income then add_term_to_eq s1 "INC" t else Some s1) with
      | None => None
      | Some s2 =>
          match def with
          | None => Some s2
          | Some d =>
              match lookup_var name (vars s2) with
              | Some e => if renders_empty e then set_rhs s2 name d else Some s2
              | None => Some (add_variable s2 name d)
              end
          end
      end
  end.

(* ------------------------------------------------------------------ *)
(** * Semantics *)

Definition qualify (s : sector) (f : string) : string :=
  if has_substring "__" f then f else (fullcode s ++ "__" ++ f)%string.

Section Sem.
Variable v : string -> R.                       (* values of full variable names *)
Variable bv : string -> string -> R.            (* value of an opaque expression of a sector *)

Fixpoint fval_in (s : sector) (f : list string) : R :=
  match f with [] => 1 | x :: r => v (qualify s x) * fval_in s r end.
Definition tval_in (s : sector) (t : term) : R := IZR (fst t) * fval_in s (snd t).
Fixpoint tsum_in (s : sector) (l : list term) : R :=
  match l with [] => 0 | t :: r => tval_in s t + tsum_in s r end.

Definition eqn_val (s : sector) (e : eqn) : R :=
  (if String.eqb (blob e) "" then 0 else bv (fullcode s) (blob e)) + tsum_in s (terms e).

(** the equation of local variable [n] of sector [s] holds *)
Definition holds (s : sector) (n : string) : Prop :=
  match lookup_var n (vars s) with
  | Some e => v (fullcode s ++ "__" ++ n)%string = eqn_val s e
  | None => True
  end.

Lemma add_term_sum_in s t l : tsum_in s (add_term t l) = tval_in s t + tsum_in s l.
Proof.
  induction l as [|[c f] r IH]; simpl; [lra|].
  destruct (factors_eqb (snd t) f) eqn:H.
  - apply factors_eqb_eq in H. destruct t as [a g]. simpl in *. subst. unfold tval_in. simpl.
    rewrite plus_IZR. lra.
  - simpl. rewrite IH. lra.
Qed.

End Sem.

(* ------------------------------------------------------------------ *)
(** * Basic facts about the association list *)

Lemma lookup_set_same n e vs : lookup_var n (set_var n e vs) = Some e.
Proof.
  induction vs as [|[k e'] r IH]; simpl; [now rewrite String.eqb_refl|].
  destruct (String.eqb n k) eqn:H; simpl; [now rewrite H|now rewrite H].
Qed.

Lemma lookup_set_other n m e vs : n <> m -> lookup_var m (set_var n e vs) = lookup_var m vs.
Proof.
  intros Hne. induction vs as [|[k e'] r IH]; simpl.
  - destruct (String.eqb_spec m n); [congruence|reflexivity].
  - destruct (String.eqb_spec n k) as [->|Hnk]; simpl.
    + destruct (String.eqb_spec m k); [congruence|reflexivity].
    + destruct (String.eqb m k); [reflexivity|exact IH].
Qed.
